import EdsModel.Kernel
import EdsModel.Defaults
import EdsModel.PodUtil
/-
  EdsModel.GoPrelude — what the Go→Lean translator (tools/extract/gotolean.go) assumes of its target:
  the record types that exist only on the Go side of the translated functions, and the library
  calls it maps to model functions instead of translating them (tied by correspondence only).
-/
namespace Eds

/-- `spec.template` as far as the translated functions read it. -/
structure GTemplate where
  name : String
  deriving DecidableEq, Repr, Inhabited

/-- `ExtendedDaemonSetSpec` as far as the translated functions read it. -/
structure GSpec where
  strategy : Strategy
  template : GTemplate
  deriving DecidableEq, Repr, Inhabited

/-- `ExtendedDaemonSet` as far as the translated functions read it. -/
structure GEds where
  spec : GSpec
  annotations : SMap
  /-- read by `retrieveReplicaSetStatus` (group Conds) only -/
  status : EDSStatus := default
  deriving DecidableEq, Repr, Inhabited

/-- `conditions.UpdateConditionOptions` (controllers/extendeddaemonset/conditions). -/
structure GUpdateConditionOptions where
  ignoreFalseConditionIfNotExist : Bool
  supportLastUpdate : Bool
  deriving DecidableEq, Repr, Inhabited

/-! ### `corev1.Pod` as far as pkg/controller/utils/pod reads it (group Conds).  The field lists of
`ContainerState*` are complete (the Go code compares these structs with their zero values). -/

structure GWaiting where
  reason : String
  message : String
  deriving DecidableEq, Repr, Inhabited

structure GRunning where
  startedAt : Time
  deriving DecidableEq, Repr, Inhabited

structure GTerminated where
  exitCode : Int
  signal : Int
  reason : String
  message : String
  startedAt : Time
  finishedAt : Time
  containerID : String
  deriving DecidableEq, Repr, Inhabited

structure GContainerState where
  waiting : Option GWaiting
  running : Option GRunning
  terminated : Option GTerminated
  deriving DecidableEq, Repr, Inhabited

structure GContainerStatus where
  name : String
  state : GContainerState
  lastTerminationState : GContainerState
  restartCount : Int
  deriving DecidableEq, Repr, Inhabited

structure GPodCondition where
  type : String
  status : String
  lastProbeTime : Time
  lastTransitionTime : Time
  reason : String
  message : String
  deriving DecidableEq, Repr, Inhabited

structure GPodStatus where
  phase : String
  conditions : List GPodCondition
  reason : String
  startTime : Option Time
  initContainerStatuses : List GContainerStatus
  containerStatuses : List GContainerStatus
  ephemeralContainerStatuses : List GContainerStatus
  deriving DecidableEq, Repr, Inhabited

structure GNodeSelector where
  nodeSelectorTerms : List Term
  deriving DecidableEq, Repr, Inhabited

structure GNodeAffinity where
  required : Option GNodeSelector
  deriving DecidableEq, Repr, Inhabited

structure GAffinity where
  nodeAffinity : Option GNodeAffinity
  deriving DecidableEq, Repr, Inhabited

structure GPodSpec where
  nodeName : String
  affinity : Option GAffinity
  deriving DecidableEq, Repr, Inhabited

structure GPod where
  name : String
  ns : String
  creationTimestamp : Time
  deletionTimestamp : Option Time
  deletionGracePeriodSeconds : Option Int
  spec : GPodSpec
  status : GPodStatus
  /-- read by `compareSpecTemplateMD5Hash` (group Status) only -/
  annotations : SMap := []
  /-- `spec.containers` as `harness/canon` reads them (name, resources): read by the library comparison
  `compareWithExtendedDaemonsetSettingOverwrite` (group CanaryStatus) only -/
  containers : List Container := []
  deriving DecidableEq, Repr, Inhabited

/-! ### group Status / CanaryStatus: `strategy.Parameters` / `strategy.Result` as far as `manageCanaryPodFailures` and
`manageCanaryStatus` read and write them, and `reconcile.Result`.

`*NodeItem` is `Option NodeItem` (the model's record: a `NodeItem` is built by `NewNodeItem` from a listed node, its
`Node` pointer is never nil and is not represented as a pointer).  The two Go maps are association lists
(`Go.mapFind`): `NodeByName : map[string]*NodeItem`, and `PodByNodeName : map[*NodeItem]*corev1.Pod`, whose keys Go
compares by pointer identity — here by `Go.nodeItemKey` (the node's name; `nil` equals only `nil`), which is pointer
identity exactly when the node items of distinct names are distinct objects and every key is the `NodeByName` entry
of its name (what `FilterAndMapPodsByNode` builds; the bridges state it as a hypothesis). -/

/-- `reconcile.Result` (controller-runtime). -/
structure GReconcileResult where
  requeue : Bool
  requeueAfter : Dur
  deriving DecidableEq, Repr, Inhabited

/-- `strategy.Parameters` (controllers/extendeddaemonsetreplicaset/strategy/type.go).  `manageCanaryPodFailures` reads
`Strategy` and `NewStatus` only; the other fields are read by `manageCanaryStatus` / `compareCurrentPodWithNewPod`. -/
structure GParams where
  strategy : Option Strategy
  newStatus : Option ERSStatus
  edsName : String := ""
  replicaset : Option ERS := none
  canaryNodes : List String := []
  nodeByName : List (String × Option NodeItem) := []
  podByNodeName : List (Option NodeItem × Option GPod) := []
  /-- `PodToCleanUp`, `UnscheduledPods`: read by `ManageDeployment` / `ManageCanaryDeployment` (groups Deployment, Strategy) only -/
  podToCleanUp : List (Option GPod) := []
  unscheduledPods : List (Option GPod) := []
  /-- `ReplicaSetStatus`: the role of the replica set, read by the role switch of `applyStrategy` (group Strategy) only -/
  replicaSetStatus : String := ""
  deriving DecidableEq, Repr, Inhabited

/-- `strategy.Result`: the flags, the status under construction, the pods to create / delete and the requeue request. -/
structure GResult where
  isFrozen : Bool
  isPaused : Bool
  pausedReason : String
  isUnpaused : Bool
  isFailed : Bool
  failedReason : String
  newStatus : Option ERSStatus
  podsToCreate : List (Option NodeItem) := []
  podsToDelete : List (Option NodeItem) := []
  result : GReconcileResult := { requeue := false, requeueAfter := 0 }
  /-- `UnscheduledNodesDueToResourcesConstraints`: written by `ManageDeployment` (group Deployment) only -/
  unscheduledNodes : List String := []
  deriving DecidableEq, Repr, Inhabited

namespace Go

/-- `len(s)` of a string: its length in bytes. -/
def strLen (s : String) : Int := (s.utf8ByteSize : Int)

/-- `l[i]`; `none` = index out of range (panic). -/
def index {α} (l : List α) (i : Int) : Option α := if i < 0 then none else l[i.toNat]?

/-- `l[i] = v`; `none` = index out of range (panic). -/
def setIndex {α} (l : List α) (i : Int) (v : α) : Option (List α) :=
  if i < 0 then none else if i.toNat < l.length then some (l.set i.toNat v) else none

/-- `s == nil` for a slice: the model's lists do not distinguish a nil slice from an empty non-nil
one; `nilSlice` (a parameter of the translated function, universally quantified in the bridge
theorems) says which of the two an empty list stands for. -/
def sliceIsNil {α} (nilSlice : Bool) (l : List α) : Bool := nilSlice && l.isEmpty

/-! ### Go maps as association lists.  A Go map has one entry per key; an association list may repeat a key, the
first entry wins (the bridges quantify over every list, hence over every order).  `eq` is Go's `==` on the key type:
`strKey` for strings, an explicit identity for pointer keys. -/

/-- the value stored under `k`, if any. -/
def mapFind {κ ν : Type} (eq : κ → κ → Bool) (m : List (κ × ν)) (k : κ) : Option ν :=
  (m.find? (fun e => eq e.1 k)).map (·.2)

/-- `m[k]`: the zero value when absent. -/
def mapGetD {κ ν : Type} (eq : κ → κ → Bool) (m : List (κ × ν)) (k : κ) (zero : ν) : ν := (mapFind eq m k).getD zero

/-- the `ok` of `v, ok := m[k]`. -/
def mapHas {κ ν : Type} (eq : κ → κ → Bool) (m : List (κ × ν)) (k : κ) : Bool := (mapFind eq m k).isSome

/-- `delete(m, k)`: every entry whose key is `==` k goes (a Go map has at most one). -/
def mapErase {κ ν : Type} (eq : κ → κ → Bool) (m : List (κ × ν)) (k : κ) : List (κ × ν) :=
  m.filter (fun e => !eq e.1 k)

/-- `xs[:n]`.  `none` = `n` negative or beyond the length: Go panics when `n` exceeds the *capacity*, and between the
length and the capacity yields elements of the backing array beyond the length — a list has no backing array, so
everything beyond the length is outside the translation. -/
def sliceTo {α} (xs : List α) (n : Int) : Option (List α) :=
  if 0 ≤ n ∧ n ≤ (xs.length : Int) then some (xs.take n.toNat) else none

/-- `sort.SliceStable(xs, less)` (library code, not translated): the stable sort by `less` — `List.mergeSort` with
`le a b := !less b a`.  `less` is the translated comparator as a function of the two *elements* compared, in the Option
monad like everything else (`none` = the comparator panics).  The sorted list is THE result of a stable sort whenever
`less` is a strict weak ordering (the contract of `sort.SliceStable`; the bridges prove it of the comparator they meet,
`src_less_strictWeak`); for any other comparator the library's result depends on its algorithm and this mapping says
nothing.  `none` when the comparator panics on some pair of elements of the slice: an over-approximation (the library does
not compare every pair) — the bridges only ever use the `some` case, where no pair panics. -/
def stableSortBy {α} (less : α → α → Option Bool) (xs : List α) : Option (List α) :=
  if xs.all (fun a => xs.all fun b => (less a b).isSome) then
    some (xs.mergeSort (fun a b => !((less b a).getD false)))
  else none

/-- `utilerrors.NewAggregate(errs)`: nil when the list holds no non-nil error, else an error (its text is not modelled
beyond being some error: the first one's). -/
def newAggregate (errs : List (Option String)) : Option String :=
  match errs.filterMap id with
  | [] => none
  | e :: _ => some e

/-- `==` on string keys. -/
def strKey (a b : String) : Bool := a == b

/-- `==` on `*NodeItem` keys (pointer identity) by explicit identity: the name of the node; nil equals only nil. -/
def nodeItemKey (a b : Option NodeItem) : Bool :=
  match a, b with
  | none, none => true
  | some x, some y => x.node.name == y.node.name
  | _, _ => false

/-- `compareWithExtendedDaemonsetSettingOverwrite(pod, withoutContainersOverwrittenByNode(edsName, replicaset, node))`
(strategy/utils.go; library code: `DeepCopy`, `json.Unmarshal`, `apiequality.Semantic.DeepEqual` on resource lists): the
model's `compareSettingOverwrite` on the pod's containers.  `none` = nil dereference: `node` always, `pod` when the node
has a setting. -/
def compareWithSettingOverwrite (pod : Option GPod) (node : Option NodeItem) : Option Bool :=
  match node with
  | none => none
  | some n =>
    match n.setting with
    | none => some true
    | some _ => pod.bind fun p => some (compareSettingOverwrite { (default : Pod) with containers := p.containers } n)

/-- `conditions.GetIndexForConditionType`: index of the first entry of that type, −1 if absent. -/
def condIndex (cs : List Cond) (t : String) : Int :=
  match cs.findIdx? (fun c => c.type == t) with
  | some i => (i : Int)
  | none => -1

/-- `intstr.GetValueFromIntOrPercent(x, total, true)` as (value, error). -/
def valueFromIntOrPercent (x : Option IntOrStr) (total : Int) : Int × Option String :=
  match resolveIntOrPercent x total with
  | some v => (v, none)
  | none => (0, some "invalid value for IntOrString")

/-! ### the harness's canonical form of a pod (harness/canon/canon.go, `cstat` / `CPod`) as a function of the
Go-side records: what ties the translated pod helpers to the model's `ContainerStatus` / `PodCond`. -/

def zeroTerminated : GTerminated :=
  { exitCode := 0, signal := 0, reason := "", message := "", startedAt := zeroTime, finishedAt := zeroTime,
    containerID := "" }

def zeroState : GContainerState := { waiting := none, running := none, terminated := none }

/-- `canon.cstat`. -/
def canonCstat (s : GContainerStatus) : ContainerStatus :=
  { name := s.name, restarts := s.restartCount,
    waiting := s.state.waiting.map (·.reason),
    lastTerm := s.lastTerminationState.terminated.map fun t =>
      { reason := t.reason, finishedAt := t.finishedAt, empty := t == zeroTerminated } }

/-- `canon.CPod(...).Cstats`: containers ++ init ++ ephemeral. -/
def canonCstats (p : GPod) : List ContainerStatus :=
  (p.status.containerStatuses ++ p.status.initContainerStatuses ++ p.status.ephemeralContainerStatuses).map canonCstat

def canonPodCond (c : GPodCondition) : PodCond :=
  { type := c.type, status := c.status, reason := c.reason, lastTransition := c.lastTransitionTime }

/-- `canon.CPod(...).Conds`. -/
def canonPodConds (p : GPod) : List PodCond := p.status.conditions.map canonPodCond

/-- `canon.Aff(...)`'s second result: the required node-selector terms, `none` when any of
Affinity / NodeAffinity / RequiredDuringSchedulingIgnoredDuringExecution is nil. -/
def canonAffRequired (a : Option GAffinity) : Option (List Term) :=
  match a with
  | none => none
  | some a =>
    match a.nodeAffinity with
    | none => none
    | some na =>
      match na.required with
      | none => none
      | some sel => some sel.nodeSelectorTerms

/-- what the kubelet guarantees of `lastState`: when it is set at all, it is set to `terminated`.
`HighestRestartCount` / `MostRecentRestart` dereference `LastTerminationState.Terminated` after checking
only `LastTerminationState != ContainerState{}`; without this they panic (see BridgeConds, finding). -/
def lastStateWF (s : GContainerStatus) : Prop :=
  s.restartCount ≠ 0 → s.lastTerminationState ≠ zeroState → s.lastTerminationState.terminated.isSome = true

end Go
end Eds
