import EdsModel.Kernel
import EdsModel.Defaults
/-
  EdsModel.GoPrelude — what the Go→Lean translator (tools/extract/gotolean.go) assumes of its target:
  the record types that exist only on the Go side of the translated functions, and the library
  calls it maps to model functions instead of translating them (tied by correspondence only).
-/
namespace Eds

/-- `spec.template` as far as the translated functions read it. -/
structure GTemplate where
  name : String
  deriving DecidableEq, Repr, Inhabited

/-- `ExtendedDaemonSetSpec` as far as the translated functions read it. -/
structure GSpec where
  strategy : Strategy
  template : GTemplate
  deriving DecidableEq, Repr, Inhabited

/-- `ExtendedDaemonSet` as far as the translated functions read it. -/
structure GEds where
  spec : GSpec
  annotations : SMap
  deriving DecidableEq, Repr, Inhabited

namespace Go

/-- `l[i]`; `none` = index out of range (panic). -/
def index {α} (l : List α) (i : Int) : Option α := if i < 0 then none else l[i.toNat]?

/-- `conditions.GetIndexForConditionType`: index of the first entry of that type, −1 if absent. -/
def condIndex (cs : List Cond) (t : String) : Int :=
  match cs.findIdx? (fun c => c.type == t) with
  | some i => (i : Int)
  | none => -1

/-- `intstr.GetValueFromIntOrPercent(x, total, true)` as (value, error). -/
def valueFromIntOrPercent (x : Option IntOrStr) (total : Int) : Int × Option String :=
  match resolveIntOrPercent x total with
  | some v => (v, none)
  | none => (0, some "invalid value for IntOrString")

end Go
end Eds
