import EdsModel.Objects
/-
  EdsModel.Defaults — api/v1alpha1/extendeddaemonset_default.go and extendeddaemonset_validate.go.
  Pointer fields are `Option`; a dereference the Go code performs without a nil check is `.panic`.
  The literal default values are tied to the source by `EdsProofs/FactsBridge.lean`.
-/
namespace Eds

namespace Dflt
def canaryReplica : Int := 1
def canaryDuration : Dur := 10 * minute
def canaryNoRestartsDuration : Dur := 5 * minute
def autoPauseEnabled : Bool := true
def autoPauseMaxRestarts : Int := 2
def autoFailEnabled : Bool := true
def autoFailMaxRestarts : Int := 5
def slowStartInterval : Dur := 1 * minute
def maxParallelPodCreation : Int := 250
def reconcileFrequency : Dur := 10 * sec
def maxUnavailable : Int := 1
def maxPodSchedulerFailure : Int := 0
def slowStartAdditiveIncrease : Int := 1
end Dflt

def isDefaultedRolling (r : RollingUpdate) : Bool :=
  r.maxUnavailable.isSome && r.maxParallelPodCreation.isSome && r.maxPodSchedulerFailure.isSome &&
  r.slowStartInterval.isSome && r.slowStartAdditiveIncrease.isSome

def isDefaultedAutoPause (a : Option AutoPause) : Bool :=
  match a with
  | some a => a.enabled.isSome && a.maxRestarts.isSome
  | none => false

def isDefaultedAutoFail (a : Option AutoFail) : Bool :=
  match a with
  | some a => a.enabled.isSome && a.maxRestarts.isSome
  | none => false

def isDefaultedCanary (c : Canary) : Bool :=
  c.replicas.isSome && c.validationMode != "" &&
  !(c.duration.isNone && c.validationMode == "auto") &&
  c.nodeSelector.isSome && isDefaultedAutoPause c.autoPause && isDefaultedAutoFail c.autoFail

/-- `IsDefaultedExtendedDaemonSet`. -/
def isDefaulted (s : Strategy) (templateName : String) : Bool :=
  isDefaultedRolling s.rollingUpdate &&
  (match s.canary with | some c => isDefaultedCanary c | none => true) &&
  s.reconcileFrequency.isSome && templateName == ""

def intVal (v : Int) : IntOrStr := { kind := "int", val := v }

def defaultRolling (r : RollingUpdate) : RollingUpdate :=
  { maxUnavailable := some (r.maxUnavailable.getD (intVal Dflt.maxUnavailable)),
    maxParallelPodCreation := some (r.maxParallelPodCreation.getD Dflt.maxParallelPodCreation),
    maxPodSchedulerFailure := some (r.maxPodSchedulerFailure.getD (intVal Dflt.maxPodSchedulerFailure)),
    slowStartInterval := some (r.slowStartInterval.getD Dflt.slowStartInterval),
    slowStartAdditiveIncrease := some (r.slowStartAdditiveIncrease.getD (intVal Dflt.slowStartAdditiveIncrease)) }

def defaultAutoPause (a : Option AutoPause) : AutoPause :=
  let a := a.getD { enabled := none, maxRestarts := none, maxSlowStartDuration := none }
  { a with enabled := some (a.enabled.getD Dflt.autoPauseEnabled),
           maxRestarts := some (a.maxRestarts.getD Dflt.autoPauseMaxRestarts) }

def defaultAutoFail (a : Option AutoFail) : AutoFail :=
  let a := a.getD { enabled := none, maxRestarts := none, maxRestartsDuration := none, canaryTimeout := none }
  { a with enabled := some (a.enabled.getD Dflt.autoFailEnabled),
           maxRestarts := some (a.maxRestarts.getD Dflt.autoFailMaxRestarts) }

def defaultCanary (c : Canary) (defaultMode : String) : Canary :=
  let mode := if c.validationMode == "" then defaultMode else c.validationMode
  { c with
    validationMode := mode,
    duration := if c.duration.isNone && mode == "auto" then some Dflt.canaryDuration else c.duration,
    replicas := some (c.replicas.getD (intVal Dflt.canaryReplica)),
    nodeSelector := some (c.nodeSelector.getD { matchLabels := [], exprs := [] }),
    autoPause := some (defaultAutoPause c.autoPause),
    autoFail := some (defaultAutoFail c.autoFail),
    noRestartsDuration := if c.noRestartsDuration.isNone && mode == "auto"
                          then some Dflt.canaryNoRestartsDuration else c.noRestartsDuration }

/-- `DefaultExtendedDaemonSetSpec` on (strategy, template name). -/
def defaultSpec (s : Strategy) (defaultMode : String) : Strategy × String :=
  ({ rollingUpdate := defaultRolling s.rollingUpdate,
     canary := s.canary.map (fun c => defaultCanary c defaultMode),
     reconcileFrequency := some (s.reconcileFrequency.getD Dflt.reconcileFrequency) }, "")

inductive ValidateResult where
  | ok | errAutoFailRestarts | errCanaryTimeout | errDurationManual | errNoRestartsManual | panic
  deriving DecidableEq, Repr

/-- the first clause of `ValidateExtendedDaemonSetSpec` with Go's short-circuit evaluation;
`none` = nil dereference. -/
def validateClause1 (c : Canary) : Option Bool := do
  let af ← c.autoFail
  let afe ← af.enabled
  if !afe then pure false else
  let ap ← c.autoPause
  let ape ← ap.enabled
  if !ape then pure false else
  let a ← af.maxRestarts
  let b ← ap.maxRestarts
  pure (a < b)

/-- `ValidateExtendedDaemonSetSpec`, with the nil guard of the F7a repair on `canary.Duration`
(a `canaryTimeout` without a `duration` is not compared). -/
def validateSpec (s : Strategy) : ValidateResult :=
  match s.canary with
  | none => .ok
  | some c =>
    match validateClause1 c with
    | none => .panic
    | some true => .errAutoFailRestarts
    | some false =>
      -- clause 1 succeeded, hence autoFail and autoFail.enabled are non-nil
      let afe := ((c.autoFail.bind (·.enabled)).getD false)
      let timeout := c.autoFail.bind (·.canaryTimeout)
      let r2 : Bool := afe && (match timeout, c.duration with
                               | some t, some d => t <= d
                               | _, _ => false)
      if r2 then .errCanaryTimeout
      else if c.validationMode == "manual" then
        if c.duration.isSome then .errDurationManual
        else if c.noRestartsDuration.isSome then .errNoRestartsManual
        else .ok
      else .ok

end Eds
