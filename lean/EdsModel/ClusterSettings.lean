import EdsModel.Cluster
/-
  EdsModel.ClusterSettings — L3 with the ExtendedDaemonsetSetting controller and the users' edits of
  settings: the cluster machine of `EdsModel/Cluster.lean` (`World`, `Op`, `step`) extended by

    * `reconcileSetting ns name` : `Reconcile` of the setting `ns/name`
          (controllers/extendeddaemonsetsetting/controller.go): Get the object (not found: nothing
          happens), List the settings of ITS namespace and ALL nodes as the world holds them at that
          moment (stale stored statuses of the other settings included), compute
          `settingReconcile inst nodes sameNs` (EdsModel/SettingCtl.lean) and write (status, error)
          with `Status().Update` to the object stored under that namespace/name;
    * `applySetting s`           : a user creates the setting, or replaces the one stored under
          `s.ns`/`s.name`; the API server stores what the user sent with an EMPTY status (status and
          error reset to ""); the creation time is the one the op carries (ANY value: an
          over-approximation of "now" on create / "unchanged" on update);
    * `updateSetting s`          : (NOT asked for by the task, added for fidelity) a user UPDATES the
          spec of the setting stored under `s.ns`/`s.name` through the main resource.  The CRD has a
          status subresource (`+kubebuilder:subresource:status`, api/v1alpha1/extendeddaemonsetsetting_types.go),
          so the API server keeps the STORED status, error and creation time and replaces the rest;
          not found: nothing happens.  (`applySetting` on an existing key is "delete and re-create";)
    * `deleteSetting ns name`    : the object is removed at once;
    * `cluster op`               : an operation of the L3 machine, unchanged.

  The extended world `WorldS` carries, besides the `World`, the ghost list `fresh` of the keys
  (namespace, name) of the settings that have been reconciled SINCE the last event that can change
  their verdict: an `applySetting` / `updateSetting` / `deleteSetting` in their namespace or a `setNodes`.  A setting
  whose key is not in `fresh` is "stale".  `SettledNs ws ns` : no setting of namespace `ns` is stale;
  `SettledAfter ws` : no setting at all is stale.  Nothing in `stepS` reads `fresh`.

  Modelling decisions:
  * a setting is addressed by namespace/name everywhere (request, status update, apply, delete);
    `SettingKeysNodup` (at most one object per key — what the API server guarantees) is preserved by
    every `stepS` (EdsProps/L3Settings.lean, `L3S_keysNodup_stepS`);
  * both List calls of the reconcile succeed and its status update succeeds (a failing update is the
    same as no reconcile; a failing settings List leaves the status unchanged and only clears the
    message: neither makes a setting fresh, neither writes `valid`);
  * the freshness bookkeeping is per namespace for settings edits (the verdict of a setting depends on
    the specs of the settings of its own namespace and on the nodes, `C18_status_independent`), and
    global for `setNodes`.
-/
namespace Eds

/-- the operations of the cluster with the settings controller and the users' settings edits. -/
inductive OpS where
  /-- an operation of the L3 machine (`EdsModel/Cluster.lean`) -/
  | cluster (op : Op)
  /-- `Reconcile` of the setting `ns/name` -/
  | reconcileSetting (ns name : String)
  /-- the user creates / replaces the setting stored under `s.ns`/`s.name` -/
  | applySetting (s : Setting)
  /-- the user deletes the setting `ns/name` -/
  | deleteSetting (ns name : String)
  /-- the user updates the spec of the setting stored under `s.ns`/`s.name`; the stored status, error
  and creation time are kept (status subresource) -/
  | updateSetting (s : Setting)

/-- the cluster with the freshness ghost state (see the header). -/
structure WorldS where
  w : World
  /-- keys (namespace, name) of the settings reconciled since the last `applySetting` /
  `updateSetting` / `deleteSetting` of their namespace and the last `setNodes`. -/
  fresh : List (String × String)

namespace ClusterS

def settingKey (s : Setting) : String × String := (s.ns, s.name)

/-- "is the object stored under `ns`/`name`". -/
def hasKey (ns name : String) (s : Setting) : Bool := s.ns == ns && s.name == name

/-- `client.Get` of the request's object. -/
def findSetting (ss : List Setting) (ns name : String) : Option Setting := ss.find? (hasKey ns name)

/-- `client.List(…, Namespace: ns)` (the same filter as the replica-set sync, `ersNodeItems`). -/
def settingsOfNs (ss : List Setting) (ns : String) : List Setting := ss.filter (fun s => s.ns == ns)

/-- `Status().Update`: only status and error of the object stored under the key change. -/
def writeSettingStatus (ss : List Setting) (ns name : String) (st : String × String) : List Setting :=
  ss.map (fun s => if hasKey ns name s then { s with status := st.1, error := st.2 } else s)

/-- the settings after `Reconcile` of `ns/name` with the nodes `nodes`. -/
def reconcileSettingIn (nodes : List Node) (ss : List Setting) (ns name : String) : List Setting :=
  match findSetting ss ns name with
  | none => ss
  | some inst => writeSettingStatus ss ns name (settingReconcile inst nodes (settingsOfNs ss ns))

/-- what the API server stores for the user's object. -/
def storedSetting (s : Setting) : Setting := { s with status := "", error := "" }

/-- create (appended) or replace (in place). -/
def applySettingIn (ss : List Setting) (s : Setting) : List Setting :=
  if ss.any (hasKey s.ns s.name) then ss.map (fun t => if hasKey s.ns s.name t then storedSetting s else t)
  else ss ++ [storedSetting s]

/-- what the API server stores for an update of `old` by `s` through the main resource. -/
def updatedSetting (s old : Setting) : Setting :=
  { s with creation := old.creation, status := old.status, error := old.error }

/-- update in place (a key that is not stored: unchanged list). -/
def updateSettingIn (ss : List Setting) (s : Setting) : List Setting :=
  ss.map (fun t => if hasKey s.ns s.name t then updatedSetting s t else t)

def deleteSettingIn (ss : List Setting) (ns name : String) : List Setting :=
  ss.filter (fun s => !hasKey ns name s)

/-- the keys that stay fresh when the settings of namespace `ns` are edited. -/
def dropNs (fresh : List (String × String)) (ns : String) : List (String × String) :=
  fresh.filter (fun k => !(k.1 == ns))

/-- the freshness list after an operation of the L3 machine: a new node list makes everything stale,
everything else is irrelevant to the settings. -/
def freshAfterCluster (fresh : List (String × String)) : Op → List (String × String)
  | .setNodes _ => []
  | _ => fresh

end ClusterS

open ClusterS

/-- one step of the extended machine. -/
def stepS (ws : WorldS) : OpS → WorldS
  | .cluster op => { w := step ws.w op, fresh := freshAfterCluster ws.fresh op }
  | .reconcileSetting ns name =>
    { w := { ws.w with settings := reconcileSettingIn ws.w.nodes ws.w.settings ns name },
      fresh := if (findSetting ws.w.settings ns name).isSome then (ns, name) :: ws.fresh else ws.fresh }
  | .applySetting s =>
    { w := { ws.w with settings := applySettingIn ws.w.settings s }, fresh := dropNs ws.fresh s.ns }
  | .deleteSetting ns name =>
    { w := { ws.w with settings := deleteSettingIn ws.w.settings ns name }, fresh := dropNs ws.fresh ns }
  | .updateSetting s =>
    { w := { ws.w with settings := updateSettingIn ws.w.settings s }, fresh := dropNs ws.fresh s.ns }

def runS (ws : WorldS) (ops : List OpS) : WorldS := ops.foldl stepS ws

/-- a world in which nothing is known to be fresh. -/
def initS (w : World) : WorldS := { w := w, fresh := [] }

/-- no setting of namespace `ns` is stale. -/
def SettledNs (ws : WorldS) (ns : String) : Prop :=
  ∀ s ∈ ws.w.settings, s.ns = ns → settingKey s ∈ ws.fresh

/-- every setting has been reconciled since the last `applySetting` / `updateSetting` /
`deleteSetting` (of its namespace) / `setNodes`. -/
def SettledAfter (ws : WorldS) : Prop := ∀ s ∈ ws.w.settings, settingKey s ∈ ws.fresh

/-- at most one object per namespace/name. -/
def SettingKeysNodup (w : World) : Prop := (w.settings.map settingKey).Nodup

instance (ws : WorldS) (ns : String) : Decidable (SettledNs ws ns) :=
  inferInstanceAs (Decidable (∀ s ∈ ws.w.settings, s.ns = ns → settingKey s ∈ ws.fresh))
instance (ws : WorldS) : Decidable (SettledAfter ws) :=
  inferInstanceAs (Decidable (∀ s ∈ ws.w.settings, settingKey s ∈ ws.fresh))
instance (w : World) : Decidable (SettingKeysNodup w) :=
  inferInstanceAs (Decidable ((w.settings.map settingKey).Nodup))

end Eds
