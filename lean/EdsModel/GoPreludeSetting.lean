import EdsModel.GoPrelude
import EdsModel.SettingCtl
/-
  EdsModel.GoPreludeSetting — the Go-shaped records and the library mappings the translated `searchPossibleConflict`
  (controllers/extendeddaemonsetsetting/controller.go, group Setting of tools/extract/gotolean.go) is written over.
  Hand-written; imported by the generated `Generated/DecSetting.lean`.
-/
namespace Eds

/-- `datadoghqv1alpha1.ExtendedDaemonsetSettingList` as far as the translated code reads it. -/
structure GSettingList where
  items : List Setting
  deriving Repr

/-- `corev1.NodeList` as far as the translated code reads it. -/
structure GNodeList where
  items : List Node
  deriving Repr

/-- What `metav1.LabelSelectorAsSelector(&s.Spec.NodeSelector)` returns for a setting `s` (a `labels.Selector`; opaque to
the Go code, which only calls `Matches` on it).  The model keeps "the conversion of this setting's selector fails" as the
field `Setting.badSelector`, so the selector is represented by the setting it was converted from. -/
structure GSelector where
  setting : Setting
  deriving Repr

namespace Go

/-- the text of the conversion error is not modelled beyond being some error -/
def selectorErrText : String := "invalid label selector"

/-- `metav1.LabelSelectorAsSelector(&s.Spec.NodeSelector)` (library code, not translated): the selector and the error —
non-nil exactly when the model's `badSelector` says the conversion fails. -/
def labelSelectorAsSelector (s : Setting) : GSelector × Option String :=
  (⟨s⟩, if s.badSelector then some selectorErrText else none)

/-- `selector.Matches(labels.Set(ls))` (library code, not translated) for a selector whose conversion succeeded: the
`some` case of the model's `settingMatches`. -/
def selectorMatches (sel : GSelector) (ls : SMap) : Bool :=
  sel.setting.nodeSelector.matchLabels.all (fun e => SMap.get? ls e.k == some e.v) &&
    sel.setting.nodeSelector.exprs.all (fun r => reqMatches r ls)

/-- the two mappings together are the model's `settingMatches`. -/
theorem settingMatches_eq (s : Setting) (ls : SMap) :
    settingMatches s ls = if s.badSelector then none else some (selectorMatches ⟨s⟩ ls) := rfl

end Go
end Eds
