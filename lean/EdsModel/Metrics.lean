import EdsModel.Objects
/-
  EdsModel.Metrics — pkg/controller/utils/labels.go (`BuildInfoLabels`, `sanitizeLabelName`) and the
  gauge families of controllers/*/metrics.go as functions object → samples.
-/
namespace Eds

def legalLabelChar (c : Char) : Bool := c.isAlphanum || c == '_'

/-- `invalidLabelCharRE.ReplaceAllString(s, "_")` with `[^a-zA-Z0-9_]`. -/
def sanitizeLabelName (s : String) : String :=
  String.ofList (s.toList.map (fun c => if (c.isAlphanum && c.val < 128) || c == '_' then c else '_'))

def insertPair (p : String × String) : List (String × String) → List (String × String)
  | [] => [p]
  | q :: rest => if p.1 < q.1 || (p.1 == q.1 && p.2 < q.2) then p :: q :: rest else q :: insertPair p rest

/-- `BuildInfoLabels` after the F10 repair: pairs (sanitised key, value of that key), ordered by
sanitised key then by value. -/
def buildInfoLabels (labels : SMap) : List (String × String) :=
  (labels.map (fun e => (sanitizeLabelName e.k, e.v))).foldr insertPair []

end Eds

namespace Eds

/-- one exported sample: family name, value, label pairs. -/
structure Sample where
  family : String
  value : Int
  labels : List (String × String)
  deriving DecidableEq, Repr

def baseLabels (ns name : String) : List (String × String) := [("namespace", ns), ("name", name)]

/-- `generateMetricFamilies()` of controllers/extendeddaemonset/metrics.go applied to one object
(the `eds_created` timestamp family is left out: seconds since the Unix epoch). -/
def edsSamples (d : EDS) : List Sample :=
  let base := baseLabels d.ns d.name
  let st := d.status
  [ { family := "eds_labels", value := 1, labels := base ++ buildInfoLabels d.labels },
    { family := "eds_status_desired", value := st.desired, labels := base },
    { family := "eds_status_current", value := st.current, labels := base },
    { family := "eds_status_ready", value := st.ready, labels := base },
    { family := "eds_status_available", value := st.available, labels := base },
    { family := "eds_status_uptodate", value := st.upToDate, labels := base },
    { family := "eds_status_ignored_unresponsive_nodes", value := st.ignored, labels := base },
    { family := "eds_status_canary_activated", value := if st.canary.isSome then 1 else 0,
      labels := base ++ [("replicaset", match st.canary with | some c => c.replicaSet | none => "")] },
    { family := "eds_status_canary_paused",
      value := if st.canary.isSome && isCondTrue st.conds "Canary-Paused" then 1 else 0,
      labels := base ++ (match st.canary with
        | some c => [("replicaset", c.replicaSet)] ++
            (if isCondTrue st.conds "Canary-Paused" then
               [("paused_reason", match findCond st.conds "Canary-Paused" with | some x => x.reason | none => "")]
             else [])
        | none => []) },
    { family := "eds_status_canary_node_number",
      value := match st.canary with | some c => c.nodes.length | none => 0, labels := base },
    { family := "eds_status_rolling_update_paused", value := if st.state == "RollingUpdate Paused" then 1 else 0, labels := base },
    { family := "eds_status_rollout_frozen", value := if st.state == "Rollout frozen" then 1 else 0, labels := base } ]

/-- `generateMetricFamilies()` of controllers/extendeddaemonsetreplicaset/metrics.go. -/
def ersSamples (e : ERS) : List Sample :=
  let base := baseLabels e.ns e.name
  let st := e.status
  [ { family := "ers_labels", value := 1, labels := base ++ buildInfoLabels e.labels },
    { family := "ers_status_desired", value := st.desired, labels := base },
    { family := "ers_status_current", value := st.current, labels := base },
    { family := "ers_status_ready", value := st.ready, labels := base },
    { family := "ers_status_available", value := st.available, labels := base },
    { family := "ers_status_ignored_unresponsive_nodes", value := st.ignored, labels := base },
    { family := "ers_status_canary_failed", value := if isCondTrue st.conds "Canary-Failed" then 1 else 0, labels := base } ]

end Eds
