import EdsModel.Objects
/-
  EdsModel.Metrics — pkg/controller/utils/labels.go (`BuildInfoLabels`, `sanitizeLabelName`) and the
  gauge families of controllers/*/metrics.go as functions object → samples.
-/
namespace Eds

def legalLabelChar (c : Char) : Bool := c.isAlphanum || c == '_'

/-- `invalidLabelCharRE.ReplaceAllString(s, "_")` with `[^a-zA-Z0-9_]`. -/
def sanitizeLabelName (s : String) : String :=
  String.ofList (s.toList.map (fun c => if (c.isAlphanum && c.val < 128) || c == '_' then c else '_'))

def insertPair (p : String × String) : List (String × String) → List (String × String)
  | [] => [p]
  | q :: rest => if p.1 < q.1 || (p.1 == q.1 && p.2 < q.2) then p :: q :: rest else q :: insertPair p rest

/-- `BuildInfoLabels` after the F10 repair: pairs (sanitised key, value of that key), ordered by
sanitised key then by value. -/
def buildInfoLabels (labels : SMap) : List (String × String) :=
  (labels.map (fun e => (sanitizeLabelName e.k, e.v))).foldr insertPair []

end Eds
