import EdsModel.CanaryS
import EdsModel.SettingCtl
import EdsModel.PodBuild
/-
  EdsModel.ReconcileErs — L2: `Reconcile` of the ExtendedDaemonSetReplicaSet controller
  (controllers/extendeddaemonsetreplicaset/controller.go) as a function from the objects it reads to
  the API writes it issues (parallel batches are lists; their order is not significant).
-/
namespace Eds

structure DaemonSetObj where
  name : String
  ns : String
  /-- `spec.selector` (nil = no label option: every pod of the namespace is listed) -/
  selector : Option LabelSelector
  deriving DecidableEq, Repr

structure ErsStore where
  edss : List EDS
  nodes : List Node
  pods : List Pod
  settings : List Setting
  daemonsets : List DaemonSetObj
  deriving Repr

structure ErsWrites where
  /-- pods deleted by the strategy's clean-up (duplicates, pods on ineligible nodes, released Failed pods) -/
  cleanupDeletes : List String := []
  /-- pods whose canary label is added (canary role) / removed (active role) -/
  labelAdds : List String := []
  labelRemoves : List String := []
  /-- pods deleted for updating -/
  deletes : List String := []
  /-- pods created: (node name, pod) -/
  creates : List (String × Pod) := []
  /-- all candidates the strategy may pick its (budget-limited) deletions / creations from -/
  deleteCands : List String := []
  createCands : List NodeItem := []
  /-- (active role) the per-node entries the rolling update worked on: the input of the C03 budget -/
  entries : List (NodeItem × Option Pod) := []
  statusUpdate : Option ERSStatus := none
  requeue : Bool := false
  requeueAfter : Dur := 0
  /-- error returned before any write (owner missing, list failure …) -/
  earlyErr : Bool := false
  deriving Repr

/-- `retrieveReplicaSetStatus`. -/
def ersRole (d : EDS) (rsName : String) : String :=
  if d.status.activeReplicaSet == "" then "unknown"
  else if d.status.activeReplicaSet == rsName then "active"
  else match d.status.canary with
    | some cs => if cs.replicaSet == rsName then "canary" else "unknown"
    | none => "unknown"

/-- `getNodeList`: nodes matching the replica set's selector, each with its setting. `none` = error. -/
def ersNodeItems (d : EDS) (rs : ERS) (st : ErsStore) : Option (List NodeItem) :=
  let listed := match rs.selector with
    | none => some st.nodes
    | some sel =>
      match labelSelectorMatches sel [] with
      | none => none
      | some _ => some (st.nodes.filter (fun n => (labelSelectorMatches sel n.labels).getD false))
  match listed with
  | none => none
  | some ns =>
    let settings := st.settings.filter (fun s => s.ns == d.ns)
    ns.mapM (fun n => (chooseSetting d.name settings n).map (fun s => ({ node := n, setting := s } : NodeItem)))

/-- `getPodList` ++ `getOldDaemonsetPodList`. -/
def ersPods (d : EDS) (st : ErsStore) : List Pod :=
  let own := st.pods.filter (fun p => p.ns == d.ns && SMap.get? p.labels K.edsNameLabel == some d.name)
  let old := match SMap.get? d.annotations K.oldDaemonsetAnnot with
    | none => []
    | some dsName =>
      match st.daemonsets.find? (fun x => x.ns == d.ns && x.name == dsName) with
      | none => []
      | some ds =>
        let listed := match ds.selector with
          | none => st.pods.filter (fun (p : Pod) => p.ns == d.ns)
          | some sel => st.pods.filter (fun (p : Pod) => p.ns == d.ns && (labelSelectorMatches sel p.labels).getD false)
        listed.filter (fun p => p.owners.any (fun o => o.kind == "DaemonSet" && o.name == dsName))
  own ++ old

/-- condition updates `applyStrategy` performs before calling the strategy. -/
def preConds (role : String) (conds : List Cond) (now : Time) : List Cond :=
  if role == "active" then
    let c := updateCond conds now "Canary" "False" "" "" false false
    let c := updateCond c now "Canary-Paused" "False" "" "" false false
    updateCond c now "Canary-Failed" "False" "" "" false false
  else if role == "canary" then
    let c := updateCond conds now "Canary" "True" "" "" false false
    updateCond c now "Active" "False" "" "" false false
  else
    let c := updateCond conds now "Canary" "False" "" "" false false
    updateCond c now "Active" "False" "" "" false false

/-- pods carrying the canary label of this replica set (the label clean-up list of the active role). -/
def canaryLabelled (edsName : String) (rs : ERS) (st : ErsStore) : List Pod :=
  st.pods.filter (fun p => p.ns == rs.ns && SMap.get? p.labels K.canaryLabel == some "true" &&
                           SMap.get? p.labels K.ersNameLabel == some rs.name &&
                           SMap.get? p.labels K.edsNameLabel == some edsName)

/-- `ensureCanaryPodLabels`: pods of this replica set on canary nodes lacking the label. -/
def canaryLabelAdds (p : StratParams) : List String :=
  p.canaryNodes.filterMap (fun nodeName =>
    match lookupNode p.byNode nodeName with
    | some (_, some pod) =>
      if pod.hasLabels && SMap.get? pod.labels K.ersNameLabel == some p.ers.name &&
         SMap.get? pod.labels K.canaryLabel != some "true" then some pod.name else none
    | _ => none)

def podNameOn (byNode : List (NodeItem × Option Pod)) (ni : NodeItem) : Option String :=
  match byNode.find? (fun e => e.1.node.name == ni.node.name) with
  | some (_, some p) => some p.name
  | _ => none

/-- `Reconcile(request)` for an existing replica set `rs`, all API calls succeeding. -/
def reconcileErs (rs : ERS) (st : ErsStore) (released : String → Bool) (affinity : Bool) (now : Time) : ErsWrites :=
  match rs.ownerEds with
  | none => { earlyErr := true }
  | some ownerName =>
  match st.edss.find? (fun d => d.ns == rs.ns && d.name == ownerName) with
  | none => { earlyErr := true }
  | some d =>
  if !isDefaulted d.strategy d.templateName then
    let conds := updateCond rs.status.conds now "ReconcileError" "True" "" "Parent ExtendedDaemonSet is not defaulted, requeuing" false true
    let st' := { rs.status with conds := conds }
    { statusUpdate := if st' != rs.status then some st' else none, requeueAfter := sec }
  else
  let freq := d.strategy.reconcileFrequency.getD 0
  let gated : Bool := match findCond rs.status.conds "LastFullSync" with
    | some c => decide (c.lastUpdate + freq > now)
    | none => false
  if gated then
    { requeueAfter := (match findCond rs.status.conds "LastFullSync" with | some c => c.lastUpdate + freq - now | none => 0) }
  else
  match ersNodeItems d rs st with
  | none => { earlyErr := true }
  | some items =>
  let role := ersRole d rs.name
  let canaryNodes := match d.status.canary with | some cs => cs.nodes | none => []
  let ignore := if d.status.canary.isSome && d.status.activeReplicaSet == rs.name then canaryNodes else []
  let fo := filterAndMap released rs.template items (ersPods d st) ignore
  let sp : StratParams := {
    edsName := d.name, edsAnnotations := d.annotations, strategy := d.strategy, ers := rs,
    newStatus := { rs.status with conds := preConds role rs.status.conds now },
    canaryNodes := canaryNodes, byNode := fo.byNode, toCleanUp := fo.toDelete, unscheduled := fo.unscheduled }
  -- the strategy
  let res : Option (StratResult × List String × List String × Bool) :=
    if role == "active" then
      match manageDeployment sp now now false with
      | .ok r =>
        let start := rollingUpdateStartTime rs.status now
        let removes := if now - start < 5 * minute then (canaryLabelled d.name rs st).map (·.name) else []
        some (r, [], removes, false)
      | .err _ =>
        -- early error return of ManageDeployment (a rolling-update parameter that does not parse): no
        -- status was computed; Reconcile keeps the current one, with the conditions already updated,
        -- and reports the error in it (F15 repair: it used to dereference the nil status)
        some ({ newStatus := some { sp.newStatus with conds := rollingConds sp now } }, [], [], true)
      | .panic => none
    else if role == "canary" then
      match manageCanaryStatus sp now with
      | some r => some ({ r with cleanupDeletes := cleanupTargets sp.toCleanUp,
                                 unscheduledNodes := unscheduledNodes sp.unscheduled }, canaryLabelAdds sp, [], false)
      | none => none
    else some (manageUnknown sp now, [], [], false)
  match res with
  | none => { earlyErr := true }      -- panic: reported by the driver, never expected
  | some (r, adds, removes, stratErr) =>
  match r.newStatus with
  | none => { earlyErr := true }      -- strategy returned without a status (Reconcile dereferences nil)
  | some st0 =>
  let cleanupConds := if role == "canary" && !sp.toCleanUp.isEmpty
    then updateCond st0.conds now "PodsCleanupDone" "True" "" "" false false else st0.conds
  let st1 := { st0 with conds := cleanupConds }
  let desc := if r.unscheduledNodes.isEmpty then "" else "nodes:" ++ ";".intercalate r.unscheduledNodes
  let conds := updateCond st1.conds now "Unschedule" (boolCond (!r.unscheduledNodes.isEmpty)) "" desc false false
  -- pod deletion gate
  let delGated : Bool := match findCond conds "PodDeletion" with
    | some c => decide (now - c.lastUpdate < freq)
    | none => false
  let deletes := if delGated then [] else r.deleteE.map (·.2.name)
  let conds := if !delGated && !r.deleteE.isEmpty
    then updateCond conds now "PodDeletion" "True" "" "pods deleted" false true else conds
  let creGated : Bool := match findCond conds "PodCreation" with
    | some c => decide (now - c.lastUpdate < freq)
    | none => false
  let creates := if creGated then [] else
    r.createE.map (fun ni => (ni.node.name, (createPod rs (some ni.node) ni.setting affinity).pod))
  let conds := if !creGated && !r.createE.isEmpty
    then updateCond conds now "PodCreation" "True" "" "pods created" false true else conds
  let conds := updateCond conds now "ReconcileError" (boolCond stratErr) "" "" false true
  let conds := updateCond conds now "LastFullSync" "True" "" "full sync" true true
  let stF := { st1 with conds := conds }
  let rqAfter := if delGated || creGated then freq else r.requeueAfter
  { cleanupDeletes := r.cleanupDeletes, labelAdds := adds, labelRemoves := removes,
    deletes := deletes, creates := creates,
    deleteCands :=
      if role == "active" then
        let c := countAll rs.templateGeneration now (targeted sp)
        (c.toDeleteUnavail ++ c.toDeleteAvail).map (·.2.name)
      else r.deleteE.map (·.2.name),
    createCands :=
      if role == "active" then (countAll rs.templateGeneration now (targeted sp)).toCreate else r.createE,
    entries := if role == "active" then targeted sp else [],
    statusUpdate := if stF != rs.status then some stF else none,
    requeue := r.requeue, requeueAfter := rqAfter }

end Eds
