import EdsModel.Basic
/-
  EdsModel.Kernel — L0 integer kernels in the min/max form the theorems use.
  `calcLimits` is proved equal to the translated `Generated.Limits.calculatePodToCreateAndDelete`
  in `EdsProofs/LimitsBridge.lean`.
-/
namespace Eds

structure LimitParams where
  nbNodes : Int
  nbPods : Int
  nbAvailablesPod : Int
  nbOldAvailablesPod : Int
  nbCreatedPod : Int
  nbUnresponsiveNodes : Int
  nbOldUnavailablePods : Int
  maxPodCreation : Int
  maxUnavailablePod : Int
  maxUnschedulablePod : Int
  deriving Repr, DecidableEq

/-- `limits.CalculatePodToCreateAndDelete` as clamps. -/
def calcLimits (p : LimitParams) : Int × Int :=
  let nbCreation := max 0 (min (p.nbNodes - p.nbPods) p.maxPodCreation)
  let effUnresp := min p.nbUnresponsiveNodes p.maxUnschedulablePod
  let raw := p.maxUnavailablePod
      - (p.nbNodes - effUnresp - p.nbAvailablesPod - p.nbOldAvailablesPod) + p.nbOldUnavailablePods
  (nbCreation, max 0 (min raw p.maxUnavailablePod))

/-- Go's truncating integer division (`/` on ints, and on `time.Duration`). `none` = division by
zero panic. -/
def goDiv (a b : Int) : Option Int := if b == 0 then none else some (Int.tdiv a b)

/-- `calculateMaxCreation` (rollingupdate.go). Returns `.err` for an unparsable additive increase,
`.panic` for a nil pointer. -/
def calculateMaxCreation (inc : Option IntOrStr) (interval : Option Dur) (maxParallel : Option Int)
    (nbNodes : Int) (rsStart now : Time) : Outcome Int :=
  match resolveIntOrPercent inc nbNodes with
  | none => .err "additive"
  | some startValue =>
    match interval with
    | none => .panic
    | some iv =>
      match maxParallel with
      | none => .panic
      | some mp =>
        -- F7b repair: a non-positive interval means no slow start
        if iv ≤ 0 then .ok mp else
        match goDiv (now - rsStart) iv with
        | none => .panic
        | some slots =>
          let r := (1 + slots) * startValue
          .ok (if r > mp then mp else r)

/-- `utils.MergeResult` on (requeue, requeueAfter) pairs. -/
def mergeResult (r1 r2 : Bool × Dur) : Bool × Dur :=
  let rq := r1.1 || r2.1
  let after :=
    if r1.2 + r2.2 > 0 then
      if r2.2 == 0 then r1.2
      else if r1.2 == 0 then r2.2
      else if r1.2 > r2.2 then r2.2
      else r1.2
    else 0
  (rq, after)

end Eds
