import EdsModel.Objects
/-
  EdsModel.CanaryPred — controllers/extendeddaemonset/utils.go: the annotation / condition readers.
-/
namespace Eds

def isCanaryFailed (ers : Option ERS) : Bool :=
  match ers with
  | some e => isCondTrue e.status.conds "Canary-Failed"
  | none => false

def isCanaryPaused (ann : SMap) (ers : Option ERS) : Bool × String :=
  match ers with
  | some e =>
    if isCondTrue e.status.conds "Canary-Paused" then
      (true, match findCond e.status.conds "Canary-Paused" with | some c => c.reason | none => "")
    else
      if SMap.get? ann K.canaryPausedAnnot == some "true" then
        (true, match SMap.get? ann K.canaryPausedReasonAnnot with | some r => r | none => "Unknown")
      else (false, "")
  | none =>
    if SMap.get? ann K.canaryPausedAnnot == some "true" then
      (true, match SMap.get? ann K.canaryPausedReasonAnnot with | some r => r | none => "Unknown")
    else (false, "")

def isCanaryUnpaused (ann : SMap) : Bool := SMap.get? ann K.canaryUnpausedAnnot == some "true"

def isCanaryValid (ann : SMap) (rsName : String) : Bool :=
  SMap.get? ann K.canaryValidAnnot == some rsName

/-- `LastUpdateTime` of the PodRestarting condition, or the zero time. -/
def lastRestartTime (rs : ERS) : Time :=
  match findCond rs.status.conds "PodRestarting" with
  | some rc => rc.lastUpdate
  | none => zeroTime

/-- `pendingNoRestartDuration` of `IsCanaryDeploymentEnded`. -/
def pendingNoRestart (c : Canary) (d : Dur) (rs : ERS) (now : Time) : Dur :=
  match c.noRestartsDuration with
  | some nr => if !isZeroTime (lastRestartTime rs) then lastRestartTime rs + nr - now else -d
  | none => -d

/-- `IsCanaryDeploymentEnded(specCanary, rs, now)` → (ended, pendingDuration). -/
def isCanaryEnded (canary : Option Canary) (rs : ERS) (now : Time) : Bool × Dur :=
  match canary with
  | none => (true, 0)
  | some c =>
    match c.duration with
    | none => (false, 0)
    | some d =>
      let pnr := pendingNoRestart c d rs now
      let pending : Dur := rs.creation + d - now
      let pending := if pnr > pending then pnr else pending
      if pending >= 0 then (false, pending) else (true, pending)

end Eds
