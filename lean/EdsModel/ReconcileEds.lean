import EdsModel.EdsCtl
/-
  EdsModel.ReconcileEds — L2: `Reconcile` of the ExtendedDaemonSet controller
  (controllers/extendeddaemonset/controller.go) as a function from the objects it reads to the
  ordered API writes it issues.
-/
namespace Eds

/-- the replica set `newReplicaSetFromInstance` builds (before the API server names it). -/
structure NewErs where
  ns : String
  generateName : String
  labels : SMap
  annotations : SMap
  templateGeneration : String
  ownerEds : String
  deriving DecidableEq, Repr

structure EdsWrites where
  /-- `Update` of the defaulted object -/
  defaulted : Option (Strategy × String) := none
  created : Option NewErs := none
  deletedErs : List String := []
  statusUpdate : Option EDSStatus := none
  /-- `Update` after the status update: (hash of the template now in spec, annotations) -/
  specUpdate : Option (String × SMap) := none
  requeue : Bool := false
  requeueAfter : Dur := 0
  err : Bool := false
  deriving Repr

/-- `newReplicaSetFromInstance`: the name label is set after copying the ExtendedDaemonSet's own
labels (F11 repair), the annotations are the ExtendedDaemonSet's plus the template hash. -/
def newReplicaSetFromInstance (d : EDS) : NewErs :=
  { ns := d.ns, generateName := d.name ++ "-",
    labels := SMap.set d.labels K.edsNameLabel d.name,
    annotations := SMap.set d.annotations K.templateHashAnnot d.templateHash,
    templateGeneration := d.templateHash, ownerEds := d.name }

/-- the replica sets the reconcile lists: same namespace (F5 repair) and name label. -/
def ownErs (d : EDS) (all : List ERS) : List ERS :=
  all.filter (fun e => e.ns == d.ns && SMap.get? e.labels K.edsNameLabel == some d.name)

def lastWhere {α} (p : α → Bool) (l : List α) : Option α := (l.filter p).getLast?

/-- number of nodes the pods of template `t` can be scheduled on (`countTargetedNodes`; the
generators never set `spec.selector`, which the Go code would additionally apply to the node list). -/
def targetedCount (t : Template) (nodes : List Node) : Int := (nodes.filter (fit t)).length

structure UpdOut where
  status : EDSStatus
  /-- spec.template is replaced by the template of this replica set -/
  restoreFrom : Option ERS
  annotations : SMap
  selectErr : Bool
  deriving Repr

/-- `updateInstanceWithCurrentRS` up to the writes: the new status, the template restore, the
annotation clean-up. `selectFn` is `selectNodes` on the lists the store holds. -/
def updateInstance (d : EDS) (current upToDate : ERS) (cur rdy avail : Int) (now : Time)
    (pods : List Pod) (nodes : List Node) : UpdOut :=
  let st : EDSStatus :=
    { d.status with
      current := cur, ready := rdy, available := avail,
      activeReplicaSet := current.name, desired := current.status.desired,
      upToDate := current.status.current, state := nonCanaryState d.annotations,
      ignored := current.status.ignored }
  match d.strategy.canary with
  | none => { status := st, restoreFrom := none, annotations := d.annotations, selectErr := false }
  | some c =>
    let (paused, reason) := isCanaryPaused d.annotations (some upToDate)
    let failed := isCanaryFailed (some upToDate)
    let active := isCanaryActive (some c) current.name upToDate.name failed
    let st := { st with conds := manageCanaryStatusConditions st.conds now failed paused reason upToDate.name }
    let st := manageStatus st upToDate active failed paused reason d.annotations
    let restore := if failed then some current else none
    if active then
      match resolveIntOrPercent c.replicas d.status.desired with
      | none => { status := st, restoreFrom := restore, annotations := d.annotations, selectErr := true }
      | some nb =>
        let curNodes := match st.canary with | some cs => cs.nodes | none => []
        if nb != curNodes.length then
          -- the request is resolved against the nodes the EDS targets, counted from the node list
          -- (F14 repair: status.desired is transiently inflated while a canary starts)
          match selectNodes upToDate.template c (targetedCount upToDate.template nodes) curNodes pods nodes with
          | .ok (sel, short) =>
            let st := { st with canary := st.canary.map (fun cs => { cs with nodes := sel }) }
            { status := st, restoreFrom := restore, annotations := d.annotations, selectErr := short }
          | _ => { status := st, restoreFrom := restore, annotations := d.annotations, selectErr := true }
        else { status := st, restoreFrom := restore, annotations := d.annotations, selectErr := false }
    else
      { status := st, restoreFrom := restore, annotations := (clearCanaryAnnotations d.annotations).1, selectErr := false }

/-- the replica set `selectCurrentReplicaSet` returns, with the requeue delay. -/
def currentOf (d : EDS) (list : List ERS) (u : ERS) (now : Time) : ERS × Dur :=
  let activeRS := lastWhere (fun e => e.name == d.status.activeReplicaSet) list
  let (pick, rq) := selectCurrent d.strategy.canary d.annotations activeRS u false now
  (match pick, activeRS with
   | .active, some a => a
   | _, _ => u, rq)

/-- the up-to-date replica set: the last listed one whose hash annotation equals the hash of
spec.template. -/
def upToDateOf (d : EDS) (list : List ERS) : Option ERS :=
  lastWhere (fun e => SMap.get? e.annotations K.templateHashAnnot == some d.templateHash) list

def ownPods (d : EDS) (pods : List Pod) : List Pod :=
  pods.filter (fun p => p.ns == d.ns && SMap.get? p.labels K.edsNameLabel == some d.name)

/-- the part of `Reconcile` after an up-to-date replica set `u` was found among `list`. -/
def edsMain (d : EDS) (list : List ERS) (u : ERS) (pods : List Pod) (nodes : List Node) (now : Time) : EdsWrites :=
  let cur := list.foldl (fun a e => a + e.status.current) 0
  let rdy := list.foldl (fun a e => a + e.status.ready) 0
  let avail := list.foldl (fun a e => a + e.status.available) 0
  let current := (currentOf d list u now).1
  let rq := (currentOf d list u now).2
  let deleted := cleanupTargetsERS now list current.name u.name
  let upd := updateInstance d current u cur rdy avail now (ownPods d pods) nodes
  if upd.selectErr then
    { deletedErs := deleted, err := true, requeueAfter := (mergeResult (false, 0) (false, rq)).2 }
  else
    let templateChanged := match upd.restoreFrom with
      | some c => c.templateGeneration != d.templateHash
      | none => false
    let changed := upd.status != d.status || templateChanged || upd.annotations != d.annotations
    let updateSpec := upd.restoreFrom.isSome || upd.annotations != d.annotations
    { deletedErs := deleted,
      statusUpdate := if changed then some upd.status else none,
      specUpdate := if changed && updateSpec then
          some ((match upd.restoreFrom with | some c => c.templateGeneration | none => d.templateHash), upd.annotations)
        else none,
      requeueAfter := (mergeResult (false, 0) (false, rq)).2 }

/-- `Reconcile(request)` for an existing ExtendedDaemonSet `d`; `all` = every replica set in the store
(any namespace) in list order, `pods` = every pod carrying the name label, `nodes` = all nodes. -/
def reconcileEds (d : EDS) (all : List ERS) (pods : List Pod) (nodes : List Node) (now : Time)
    (defaultMode : String) : EdsWrites :=
  if !isDefaulted d.strategy d.templateName then
    { defaulted := some (defaultSpec d.strategy defaultMode), requeue := true }
  else if validateSpec d.strategy != .ok then { err := true }
  else
    match upToDateOf d (ownErs d all) with
    | none => { created := some (newReplicaSetFromInstance d), requeue := true }
    | some u => edsMain d (ownErs d all) u pods nodes now

end Eds
