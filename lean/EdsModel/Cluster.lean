import EdsModel.ReconcileEds
import EdsModel.ReconcileErs
/-
  EdsModel.Cluster — L3: ONE state machine of the whole cluster.

  A `World` holds one ExtendedDaemonSet (spec and status evolve), every replica set, pod and node of
  the store, the settings, the DaemonSets and the clock.  An `Op` is a reconcile of either controller
  (L2 functions `reconcileEds` / `reconcileErs` applied to what the world holds at that moment, all
  of their planned API writes then applied to the world), an action of the environment the
  controllers do not control (node list, pod list, user edits of the spec) or a clock tick.

  `step`  : every API call of the reconcile succeeds.
  `stepF` : the same with `Faults` — ANY SUBSET of the planned writes is applied (an
            over-approximation of every failure pattern of the Go code, which stops at the first
            failing call of a sequence).  `stepF {} = step` (`stepF_ok`, EdsProofs/Cluster.lean).
  `run`   : `List.foldl step`.

  Modelling decisions (each one is the place to look at when a history theorem surprises):
  * the API server stores a created replica set under the name `newName` the op carries, with
    `creation := now` (the canary duration is measured from it), the template of
    the daemonset (`ersOfNewAt`; `ersOfNew` of `EdsProps/C13.lean` is the same object with `creation := 0`);
  * a replica-set deletion removes the object at once (no finalizer / foreground deletion);
  * the spec update after a failed canary writes `templateHash := h` and restores `template` from
    the current replica set of that reconcile when `h` differs from the hash in spec (the model
    identifies a template with its hash: an update that keeps the hash keeps the template);
  * `Reconcile` of a replica set is addressed by name inside the daemonset's namespace (replica sets
    of other namespaces have no owner in this world: their reconcile writes nothing);
  * pod deletions are graceful (`deletion := now`, as in `EdsProps/C01b.lean`) and address
    namespace/name; created pods keep the `generateName` the builder gives them (as in C01b);
    the canary-label patches are applied (`SMap.set` / `SMap.erase` of that one label);
  * `kubelet` replaces the pod list by ANY list and `setNodes` the node list by ANY list
    (over-approximations of kubelet, scheduler, users and the node lifecycle);
  * `userSpec` edits spec.template (with its hash), spec.strategy and the annotations, never status.
-/
namespace Eds

structure World where
  eds : EDS
  erss : List ERS
  pods : List Pod
  nodes : List Node
  settings : List Setting
  daemonsets : List DaemonSetObj
  now : Time
  deriving Repr

/-- what the replica-set controller's client sees. -/
def World.store (w : World) : ErsStore :=
  { edss := [w.eds], nodes := w.nodes, pods := w.pods, settings := w.settings, daemonsets := w.daemonsets }

inductive Op where
  /-- `Reconcile` of the daemonset; `newName` = the name the API server gives a created replica set,
  `defaultMode` = the controller's default validation mode flag. -/
  | reconcileEds (newName : String) (defaultMode : String)
  /-- `Reconcile` of the replica set `name` of the daemonset's namespace. -/
  | reconcileErs (name : String) (released : String → Bool) (affinity : Bool)
  | setNodes (nodes : List Node)
  | kubelet (pods' : List Pod)
  | userSpec (templateHash : String) (template : Template) (strategy : Strategy) (annotations : SMap)
  | tick (d : Nat)

/-- which of the planned API writes succeed (`{}`: all of them). -/
structure Faults where
  edsDefaulted : Bool := true
  ersCreate : Bool := true
  /-- by replica-set name -/
  ersDelete : String → Bool := fun _ => true
  edsStatus : Bool := true
  edsSpec : Bool := true
  /-- by pod name -/
  podDelete : String → Bool := fun _ => true
  podLabel : String → Bool := fun _ => true
  /-- by node name -/
  podCreate : String → Bool := fun _ => true
  ersStatus : Bool := true

namespace Cluster

/-- the object the API server stores for a create request. -/
def ersOfNewAt (d : EDS) (n : NewErs) (name : String) (now : Time) : ERS :=
  { name := name, ns := n.ns, uid := "", labels := n.labels, annotations := n.annotations, creation := now,
    deleted := false, ownerEds := some n.ownerEds, selector := none,
    templateGeneration := n.templateGeneration, template := d.template,
    status := { status := "", desired := 0, current := 0, ready := 0, available := 0, ignored := 0, conds := [] } }

/-- the replica sets after the daemonset reconcile's writes: deletions by namespace/name, then the
created one. -/
def applyErsList (d : EDS) (all : List ERS) (w : EdsWrites) (newName : String) (now : Time) : List ERS :=
  all.filter (fun e => !(e.ns == d.ns && w.deletedErs.contains e.name)) ++
    (match w.created with
     | some n => [ersOfNewAt d n newName now]
     | none => [])

/-- the template the spec update restores (see the header). -/
def restoreTemplate (d : EDS) (all : List ERS) (now : Time) (h : String) : Template :=
  if h == d.templateHash then d.template
  else match upToDateOf d (ownErs d all) with
    | some u =>
      let c := (currentOf d (ownErs d all) u now).1
      if c.templateGeneration == h then c.template else d.template
    | none => d.template

/-- the daemonset object after the writes (in the order the controller issues them). -/
def applyEdsObj (d : EDS) (w : EdsWrites) (restored : Template) : EDS :=
  let d1 := match w.defaulted with
    | some (s, tn) => { d with strategy := s, templateName := tn }
    | none => d
  let d2 := match w.statusUpdate with
    | some st => { d1 with status := st }
    | none => d1
  match w.specUpdate with
  | some (h, ann) => { d2 with templateHash := h, template := restored, annotations := ann }
  | none => d2

/-- the world after the daemonset reconcile's writes `wr`. -/
def applyEds (w : World) (wr : EdsWrites) (newName : String) : World :=
  { w with
    eds := applyEdsObj w.eds wr
      (match wr.specUpdate with
       | some (h, _) => restoreTemplate w.eds w.erss w.now h
       | none => w.eds.template),
    erss := applyErsList w.eds w.erss wr newName w.now }

/-- graceful deletion by namespace/name. -/
def markDeletedNs (ns : String) (names : List String) (now : Time) (p : Pod) : Pod :=
  if p.ns == ns && names.contains p.name && p.deletion.isNone then { p with deletion := some now } else p

/-- the canary-label patches. -/
def patchLabels (ns : String) (adds removes : List String) (p : Pod) : Pod :=
  if p.ns == ns && adds.contains p.name then { p with labels := SMap.set p.labels K.canaryLabel "true", hasLabels := true }
  else if p.ns == ns && removes.contains p.name then { p with labels := SMap.erase p.labels K.canaryLabel }
  else p

/-- the pods after the replica-set reconcile's writes: label patches, graceful deletions, creations. -/
def applyPodWritesNs (ns : String) (w : ErsWrites) (pods : List Pod) (now : Time) : List Pod :=
  pods.map (fun p => markDeletedNs ns (w.deletes ++ w.cleanupDeletes) now (patchLabels ns w.labelAdds w.labelRemoves p)) ++
    w.creates.map (·.2)

/-- the world after the writes `wr` of the reconcile of replica set `rs`. -/
def applyErs (w : World) (rs : ERS) (wr : ErsWrites) : World :=
  { w with
    erss := w.erss.map (fun e =>
      if e.ns == rs.ns && e.name == rs.name then
        (match wr.statusUpdate with
         | some st => { e with status := st }
         | none => e)
      else e),
    pods := applyPodWritesNs rs.ns wr w.pods w.now }

/-- the writes that survive the faults. -/
def maskEds (f : Faults) (w : EdsWrites) : EdsWrites :=
  { w with
    defaulted := if f.edsDefaulted then w.defaulted else none,
    created := if f.ersCreate then w.created else none,
    deletedErs := w.deletedErs.filter f.ersDelete,
    statusUpdate := if f.edsStatus then w.statusUpdate else none,
    specUpdate := if f.edsSpec then w.specUpdate else none }

def maskErs (f : Faults) (w : ErsWrites) : ErsWrites :=
  { w with
    cleanupDeletes := w.cleanupDeletes.filter f.podDelete,
    deletes := w.deletes.filter f.podDelete,
    labelAdds := w.labelAdds.filter f.podLabel,
    labelRemoves := w.labelRemoves.filter f.podLabel,
    creates := w.creates.filter (fun x => f.podCreate x.1),
    statusUpdate := if f.ersStatus then w.statusUpdate else none }

/-- the replica set a reconcile request for `name` finds. -/
def findErs (w : World) (name : String) : Option ERS :=
  w.erss.find? (fun e => e.ns == w.eds.ns && e.name == name)

/-- the writes the daemonset reconcile plans in world `w`. -/
def edsWrites (w : World) (defaultMode : String) : EdsWrites :=
  reconcileEds w.eds w.erss w.pods w.nodes w.now defaultMode

/-- the writes the reconcile of replica set `rs` plans in world `w`. -/
def ersWrites (w : World) (rs : ERS) (released : String → Bool) (affinity : Bool) : ErsWrites :=
  reconcileErs rs w.store released affinity w.now

/-- the environment's part of a step (`none`: the op is a reconcile). -/
def envStep (w : World) : Op → Option World
  | .setNodes nodes => some { w with nodes := nodes }
  | .kubelet pods' => some { w with pods := pods' }
  | .userSpec h t s ann =>
    some { w with eds := { w.eds with templateHash := h, template := t, strategy := s, annotations := ann } }
  | .tick d => some { w with now := w.now + d }
  | _ => none

end Cluster

open Cluster

/-- one step of the cluster, every API call succeeding. -/
def step (w : World) : Op → World
  | .reconcileEds newName m => applyEds w (edsWrites w m) newName
  | .reconcileErs name released aff =>
    match findErs w name with
    | none => w
    | some rs => applyErs w rs (ersWrites w rs released aff)
  | op => (envStep w op).getD w

/-- one step of the cluster in which only the writes allowed by `f` are applied. -/
def stepF (f : Faults) (w : World) : Op → World
  | .reconcileEds newName m => applyEds w (maskEds f (edsWrites w m)) newName
  | .reconcileErs name released aff =>
    match findErs w name with
    | none => w
    | some rs => applyErs w rs (maskErs f (ersWrites w rs released aff))
  | op => (envStep w op).getD w

def run (w : World) (ops : List Op) : World := ops.foldl step w

/-- a run with a fault pattern per step. -/
def runF (w : World) (ops : List (Faults × Op)) : World := ops.foldl (fun w x => stepF x.1 w x.2) w

end Eds
