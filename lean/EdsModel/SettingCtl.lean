import EdsModel.EdsCtl
/-
  EdsModel.SettingCtl — controllers/extendeddaemonsetsetting/controller.go (`searchPossibleConflict`,
  `Reconcile`) and the setting choice of the replica-set controller's `getNodeList`.
-/
namespace Eds

/-- `edsNodeByCreationTimestampAndPhase.Less`: newer first, ties by greater name. -/
def settingLess (a b : Setting) : Bool :=
  if a.creation == b.creation then a.name > b.name else b.creation < a.creation

def insertSetting (s : Setting) : List Setting → List Setting
  | [] => [s]
  | q :: rest => if settingLess s q then s :: q :: rest else q :: insertSetting s rest

def sortSettings (ss : List Setting) : List Setting := ss.foldr insertSetting []

/-- `metav1.LabelSelectorAsSelector(sel).Matches(labels)`; `none` = the conversion fails. -/
def settingMatches (s : Setting) (ls : SMap) : Option Bool :=
  if s.badSelector then none
  else some (s.nodeSelector.matchLabels.all (fun e => SMap.get? ls e.k == some e.v) &&
             s.nodeSelector.exprs.all (fun r => reqMatches r ls))

inductive ConflictResult where
  | none
  | conflict (other : String)
  | selectorError
  deriving DecidableEq, Repr

/-- scan of the sorted settings for one node: `prev` is `nodesAlreadySelected[node]` so far. -/
def conflictScanNode (instName : String) (nodeLabels : SMap) :
    List Setting → Option String → ConflictResult
  | [], _ => .none
  | s :: rest, prev =>
    match settingMatches s nodeLabels with
    | Option.none => .selectorError
    | some false => conflictScanNode instName nodeLabels rest prev
    | some true =>
      if s.name == instName then
        match prev with
        | some other => .conflict other
        | Option.none => conflictScanNode instName nodeLabels rest (some s.name)
      else conflictScanNode instName nodeLabels rest (some s.name)

/-- `searchPossibleConflict(instance, nodes, settings)`. Settings with an unusable selector other
than the instance itself are skipped (F9 repair); the instance's own unusable selector is an
error. -/
def searchConflict (inst : Setting) (nodes : List Node) (all : List Setting) : ConflictResult :=
  let usable := all.filter (fun s => !(s.badSelector && s.name != inst.name))
  let sorted := sortSettings usable
  let rec go : List Node → ConflictResult
    | [] => .none
    | n :: rest =>
      match conflictScanNode inst.name n.labels sorted Option.none with
      | .none => go rest
      | r => r
  go nodes

/-- status computed by the setting `Reconcile` (status, error) given the namespace's settings and
all nodes (both lists succeed). -/
def settingReconcile (inst : Setting) (nodes : List Node) (sameNs : List Setting) : String × String :=
  match inst.reference with
  | none => ("error", "missing reference in spec")
  | some "" => ("error", "missing reference in spec")
  | some _ =>
    match searchConflict inst nodes sameNs with
    | .none => ("valid", "")
    | .conflict other => ("error", "conflict with another ExtendedDaemonsetSetting: " ++ other)
    | .selectorError => ("error", "conflict with another ExtendedDaemonsetSetting: ")

/-- `getNodeList`'s choice: first setting (in list order) that is `valid`, references the EDS and
matches the node. `none` inside = selector conversion error (the whole listing fails). -/
def chooseSetting (edsName : String) (settings : List Setting) (n : Node) : Option (Option Setting) :=
  let mine := settings.filter (fun s => s.reference == some edsName)
  let rec go : List Setting → Option (Option Setting)
    | [] => some Option.none
    | s :: rest =>
      if s.status != "valid" then go rest
      else match settingMatches s n.labels with
        | Option.none => Option.none
        | some true => some (some s)
        | some false => go rest
  go mine

end Eds
