import EdsModel.Objects
/-
  EdsModel.Cli — the `run()` bodies of kubectl-eds canary pause/unpause/validate/fail,
  rolling-update pause/unpause, rollout freeze/unfreeze, as functions of the object they read.
-/
namespace Eds

inductive CliCmd where
  | canaryPause | canaryUnpause | canaryValidate | canaryFail
  | ruPause | ruUnpause | freeze | unfreeze
  deriving DecidableEq, Repr

inductive CliOut where
  /-- merge patch of the EDS: resulting annotation map -/
  | patchAnnotations (ann : SMap)
  /-- status update of the named ERS: its Canary-Failed condition is set to True (updated in place, appended when absent — F12 repair; before it the condition was always appended) -/
  | failErs (name : String)
  | refused (why : String)
  deriving DecidableEq, Repr

def cliRun (cmd : CliCmd) (hasCanarySpec : Bool) (statusCanary : Option CanaryStatus) (ann : SMap) : CliOut :=
  match cmd with
  | .canaryPause | .canaryUnpause =>
    let pause := cmd == .canaryPause
    if !hasCanarySpec then .refused "no-canary-strategy"
    else if statusCanary.isNone then .refused "no-active-canary"
    else
      match SMap.get? ann K.canaryPausedAnnot with
      | some v =>
        if pause && v == "true" then .refused "already-paused"
        else if !pause && v == "false" then .refused "not-paused"
        else
          .patchAnnotations (SMap.set (SMap.set ann K.canaryPausedAnnot (if pause then "true" else "false"))
                                K.canaryUnpausedAnnot (if pause then "false" else "true"))
      | none =>
          .patchAnnotations (SMap.set (SMap.set ann K.canaryPausedAnnot (if pause then "true" else "false"))
                                K.canaryUnpausedAnnot (if pause then "false" else "true"))
  | .canaryValidate =>
    match statusCanary with
    | none => .refused "no-active-canary"
    | some cs =>
      if SMap.get? ann K.canaryValidAnnot == some cs.replicaSet then .refused "already-validated"
      else .patchAnnotations (SMap.set ann K.canaryValidAnnot cs.replicaSet)
  | .canaryFail =>
    if !hasCanarySpec then .refused "no-canary-strategy"
    else match statusCanary with
      | none => .refused "no-active-canary"
      | some cs => .failErs cs.replicaSet
  | .ruPause | .ruUnpause =>
    let key := K.rollingUpdatePausedAnnot
    if statusCanary.isSome then .refused "active-canary"
    else
      let cur := SMap.get? ann key
      if cmd == .ruPause && cur == some "true" then .refused "already"
      else if cmd == .ruUnpause && (cur == some "false" || cur.isNone) then .refused "not-set"
      else .patchAnnotations (SMap.set ann key (if cmd == .ruPause then "true" else "false"))
  | .freeze | .unfreeze =>
    let key := K.rolloutFrozenAnnot
    if statusCanary.isSome then .refused "active-canary"
    else
      let cur := SMap.get? ann key
      if cmd == .freeze && cur == some "true" then .refused "already"
      else if cmd == .unfreeze && (cur == some "false" || cur.isNone) then .refused "not-set"
      else .patchAnnotations (SMap.set ann key (if cmd == .freeze then "true" else "false"))

end Eds
