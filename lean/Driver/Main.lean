import Driver.Json
import Driver.Handlers
open Lean Eds

partial def loop (h : IO.FS.Stream) (out : IO.FS.Stream) : IO Unit := do
  let line ← h.getLine
  if line.isEmpty then return ()
  let res := Driver.handleLine line
  out.putStrLn res
  loop h out

def main : IO Unit := do
  let stdin ← IO.getStdin
  let stdout ← IO.getStdout
  loop stdin stdout
  stdout.flush
