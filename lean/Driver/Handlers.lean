import Driver.Json
import EdsSpec
/-
  Driver.Handlers — one handler per correspondence stream: decode the input and the
  implementation's output, recompute the output with the model, report
    ok | DIFF <field> impl=<…> model=<…> | SPEC <clause>
  `SPEC` lines come from evaluating the decidable specification predicates of `EdsSpec` (the same
  definitions the theorems are about) on the *implementation's* output.
-/
open Lean
namespace Eds.Driver

abbrev Findings := Array String

def diff {α} [BEq α] [ToString α] (fs : Findings) (field : String) (impl model : α) : Findings :=
  if impl == model then fs else fs.push s!"DIFF {field} impl={impl} model={model}"

def spec (fs : Findings) (clause : String) (holds : Bool) : Findings :=
  if holds then fs else fs.push s!"SPEC {clause}"

def get {α} [FromJson α] (j : Json) (k : String) : Except String α :=
  j.getObjValAs? α k

def sortStrs (l : List String) : List String := (l.toArray.qsort (· < ·)).toList

def flat {α} [Repr α] (a : α) : String :=
  " ".intercalate (((toString (repr a)).splitOn "\n").map (fun s => s.trimAscii.toString))

def smapStr (m : SMap) : String := ",".intercalate (sortStrs (m.map (fun e => e.k ++ "=" ++ e.v)))


/-! ### limits -/
def hLimits (inp out : Json) : Except String Findings := do
  let p : LimitParams ← fromJson? inp
  let c : Int ← get out "create"
  let d : Int ← get out "delete"
  let m := calcLimits p
  let g := Generated.Limits.calculatePodToCreateAndDelete {
    NbNodes := p.nbNodes, NbPods := p.nbPods, NbAvailablesPod := p.nbAvailablesPod,
    NbOldAvailablesPod := p.nbOldAvailablesPod, NbCreatedPod := p.nbCreatedPod,
    NbUnresponsiveNodes := p.nbUnresponsiveNodes, NbOldUnavailablePods := p.nbOldUnavailablePods,
    MaxPodCreation := p.maxPodCreation, MaxUnavailablePod := p.maxUnavailablePod,
    MaxUnschedulablePod := p.maxUnschedulablePod }
  let fs : Findings := #[]
  let fs := diff fs "create" c m.1
  let fs := diff fs "delete" d m.2
  let fs := diff fs "create(translated)" c g.1
  let fs := diff fs "delete(translated)" d g.2
  let fs := spec fs "C03.cap" (Spec.C03.limitsCap p d)
  let fs := spec fs "C09.createCap" (Spec.C09.createCap p c)
  -- C09 "deletes at most maxUnavailable pods for updating per sync" on the kernel's own answer
  let fs := spec fs "C09.deleteCap" (Spec.C03.limitsCap p d)
  return fs

def outcomeStr {α} [ToString α] : Outcome α → String
  | .ok a => s!"ok:{a}"
  | .err _ => "err"
  | .panic => "panic"

/-! ### calculateMaxCreation -/
def hMaxCreation (inp out : Json) : Except String Findings := do
  let ru : RollingUpdate ← get inp "ru"
  let nbNodes : Int ← get inp "nbNodes"
  let start : Time ← get inp "start"
  let now : Time ← get inp "now"
  let impl : String ← get out "res"
  let m := calculateMaxCreation ru.slowStartAdditiveIncrease ru.slowStartInterval ru.maxParallelPodCreation nbNodes start now
  let fs : Findings := #[]
  let fs := diff fs "maxCreation" impl (outcomeStr m)
  let fs := spec fs "C09.ramp" (Spec.C09.rampOk ru nbNodes start now impl)
  -- no crash whenever the pointers defaulting fills are set
  let fs := if ru.slowStartInterval.isSome && ru.maxParallelPodCreation.isSome then
      spec fs "C16.no-crash(calculateMaxCreation)" (impl != "panic") else fs
  return fs

/-! ### strategy streams (ManageDeployment / manageCanaryStatus / ManageUnknown) -/

structure EntryJ where
  item : NodeItem
  pod : Option Pod
  deriving FromJson

structure StratParamsJ where
  edsName : String
  edsAnnotations : SMap
  strategy : Strategy
  ers : ERS
  newStatus : ERSStatus
  canaryNodes : List String
  byNode : List EntryJ
  toCleanUp : List Pod
  unscheduled : List Pod
  now : Time
  wall : Time
  cleanupFailed : Bool
  labelledPods : List String
  deriving FromJson

structure DelJ where
  node : String
  pod : String
  deriving FromJson

structure CallsJ where
  deleted : List String
  patched : List String
  created : List String
  updated : List String
  deriving FromJson

structure StratResultJ where
  kind : String
  create : List String
  delete : List DelJ
  unscheduledNodes : List String
  isFrozen : Bool
  isPaused : Bool
  pausedReason : String
  isUnpaused : Bool
  isFailed : Bool
  failedReason : String
  newStatus : Option ERSStatus
  requeue : Bool
  requeueAfter : Dur
  calls : CallsJ
  deriving FromJson

def StratParamsJ.toParams (j : StratParamsJ) : StratParams :=
  { edsName := j.edsName, edsAnnotations := j.edsAnnotations, strategy := j.strategy, ers := j.ers,
    newStatus := j.newStatus, canaryNodes := j.canaryNodes,
    byNode := j.byNode.map (fun e => (e.item, e.pod)), toCleanUp := j.toCleanUp,
    unscheduled := j.unscheduled }

def condStr (c : Cond) : String :=
  s!"{c.type}={c.status}@{c.lastTransition}/{c.lastUpdate}[{c.reason}|{c.message}]"

def statusStr (s : ERSStatus) : String :=
  s!"{s.status} d={s.desired} c={s.current} r={s.ready} a={s.available} i={s.ignored} " ++
    " ".intercalate (s.conds.map condStr)

def statusOptStr : Option ERSStatus → String
  | some s => statusStr s
  | none => "nil"

def isSubset (a b : List String) : Bool := a.all (fun x => b.contains x)

/-- deletion entries of the implementation, resolved against the input entries -/
def resolveDeletes (es : List (NodeItem × Option Pod)) (del : List DelJ) : Option (List (NodeItem × Pod)) :=
  del.mapM (fun d =>
    match es.find? (fun e => e.1.node.name == d.node) with
    | some (ni, some pod) => if pod.name == d.pod then some (ni, pod) else none
    | _ => none)

def hManageDeployment (inp out : Json) : Except String Findings := do
  let pj : StratParamsJ ← fromJson? inp
  let o : StratResultJ ← fromJson? out
  let p := pj.toParams
  let fs : Findings := #[]
  match manageDeployment p pj.now pj.wall pj.cleanupFailed with
  | .panic => return (spec (diff fs "kind" o.kind "panic") "C16.no-crash(ManageDeployment)" (o.kind != "panic"))
  | .err _ => return diff fs "kind" o.kind "err"
  | .ok m =>
    if o.kind != "ok" then return diff fs "kind" o.kind "ok" else
    let es := targeted p
    let tg := p.ers.templateGeneration
    let c := countAll tg pj.wall es
    let fs := diff fs "newStatus" (statusOptStr o.newStatus) (statusOptStr m.newStatus)
    let fs := diff fs "isPaused" o.isPaused m.isPaused
    let fs := diff fs "isFrozen" o.isFrozen m.isFrozen
    let fs := diff fs "requeue" o.requeue m.requeue
    let fs := diff fs "requeueAfter" o.requeueAfter m.requeueAfter
    let fs := diff fs "unscheduledNodes" o.unscheduledNodes m.unscheduledNodes
    let fs := diff fs "create.length" o.create.length m.createE.length
    let fs := diff fs "create.subset-of-candidates" (isSubset o.create (c.toCreate.map (·.node.name))) true
    let fs := diff fs "create.nodup" (decide o.create.Nodup) true
    let fs := diff fs "delete.length" o.delete.length m.deleteE.length
    let fs := diff fs "cleanup.deletes" (sortStrs (o.calls.deleted)) (sortStrs m.cleanupDeletes)
    match resolveDeletes es o.delete with
    | none => return fs.push "DIFF delete.unresolved impl deletes a pod that is not the entry of its node"
    | some del =>
      let cand := (c.toDeleteUnavail ++ c.toDeleteAvail).map (·.2.name)
      let fs := diff fs "delete.subset-of-candidates" (isSubset (del.map (·.2.name)) cand) true
      let fs := diff fs "delete.nodup" (decide (o.delete.map (·.node)).Nodup) true
      let fs := diff fs "delete.available" (Spec.C03.availDeleted del) (Spec.C03.availDeleted m.deleteE)
      -- specification predicates on the implementation's own output
      let ru := p.strategy.rollingUpdate
      let n : Int := es.length
      let fs := match resolveIntOrPercent ru.maxUnavailable n, resolveIntOrPercent ru.maxPodSchedulerFailure n with
        | some mu, some ms => spec fs "C03.holds(budget,cap,unavailable-first)" (Spec.C03.holds tg pj.wall es mu ms del)
        | _, _ => fs
      -- C02 progress: cooperative update situation, positive budget, not paused/frozen ⇒ the sync
      -- deletes at least one outdated pod (theorems C02_budget_positive, C02_progress_plan)
      let nonNegSched := match ru.maxPodSchedulerFailure with | some v => decide (0 ≤ v.val) | none => false
      let fs := spec fs "C02.progress-update" (!(Spec.C02.coopUpdate c && Spec.C02.positiveBudget ru.maxUnavailable
                  && nonNegSched && !o.isPaused && !o.isFrozen) || !o.delete.isEmpty)
      let fs := spec fs "C08.paused-no-update-delete" (!(o.isPaused || o.isFrozen) || o.delete.isEmpty)
      let fs := spec fs "C08.frozen-no-create" (!o.isFrozen || o.create.isEmpty)
      let fs := spec fs "C08.flags" (o.isPaused == (SMap.get? p.edsAnnotations K.rollingUpdatePausedAnnot == some "true")
                                      && o.isFrozen == (SMap.get? p.edsAnnotations K.rolloutFrozenAnnot == some "true"))
      let fs := match resolveIntOrPercent ru.maxUnavailable n with
        | some mu => spec fs "C09.delete-bound" (decide ((o.delete.length : Int) ≤ max 0 mu))
        | none => fs
      let fs := spec fs "C09.create-bound" (Spec.C09.createBound ru n (rollingUpdateStartTime p.ers.status pj.now) pj.now o.create.length)
      let fs := spec fs "C01.create-only-empty" (o.create.all (fun nm =>
                  match es.find? (fun e => e.1.node.name == nm) with
                  | some (_, none) => true
                  | _ => false))
      return fs

/-! ### manageCanaryStatus -/
def hManageCanary (inp out : Json) : Except String Findings := do
  let pj : StratParamsJ ← fromJson? inp
  let o : StratResultJ ← fromJson? out
  let p := pj.toParams
  let fs : Findings := #[]
  match manageCanaryStatus p pj.now with
  | none => return diff fs "kind" o.kind "panic"
  | some m =>
    if o.kind != "ok" then return diff fs "kind" o.kind "ok" else
    let fs := diff fs "newStatus" (statusOptStr o.newStatus) (statusOptStr m.newStatus)
    let fs := diff fs "isPaused" o.isPaused m.isPaused
    let fs := diff fs "pausedReason" o.pausedReason m.pausedReason
    let fs := diff fs "isUnpaused" o.isUnpaused m.isUnpaused
    let fs := diff fs "isFailed" o.isFailed m.isFailed
    let fs := diff fs "failedReason" o.failedReason m.failedReason
    let fs := diff fs "requeue" o.requeue m.requeue
    let fs := diff fs "requeueAfter" o.requeueAfter m.requeueAfter
    let fs := diff fs "create" o.create m.podsToCreate
    let fs := diff fs "delete" (o.delete.map (·.node)) m.podsToDelete
    -- specification (property text) on the implementation's output
    let scan := p.canaryNodes.foldl (canaryScanStep p.ers.templateGeneration p.byNode) {}
    let pods := scan.toCheck
    match canaryDerefs p.strategy.canary with
    | none => return fs
    | some (ape, apm, slow, afe, afm, mrd, cto) =>
      let cfg : Spec.C06.Cfg := { autoPauseEnabled := ape, autoPauseMaxRestarts := apm, maxSlowStart := slow,
                                  autoFailEnabled := afe, autoFailMaxRestarts := afm,
                                  maxRestartsDuration := mrd, canaryTimeout := cto }
      let span := (findCond p.newStatus.conds "PodRestarting").map (fun rc => rc.lastUpdate - rc.lastTransition)
      let age := (findCond p.newStatus.conds "Canary").map (fun c => pj.now - c.lastTransition)
      let failedBefore := isCanaryFailed (some p.ers)
      let pausedBefore := (isCanaryPaused p.edsAnnotations (some p.ers)).1
      let unpaused := isCanaryUnpaused p.edsAnnotations
      let fs := if pods.isEmpty then fs else
        spec fs "C06.failed-iff" (o.isFailed == Spec.C06.expectFailed cfg failedBefore span age pods)
      let fs := spec fs "C06.failed-sticky" (!failedBefore || o.isFailed)
      let fs := if pods.isEmpty || o.isFailed then fs else
        spec fs "C06.paused-iff" (o.isPaused == Spec.C06.expectPaused cfg pausedBefore unpaused pj.now pods)
      let fs := spec fs "C06.blocks-creation" (!(o.isPaused || o.isFailed) || o.create.isEmpty)
      let fs := spec fs "C06.condition-failed" (match o.newStatus with
                  | some st => isCondTrue st.conds "Canary-Failed" == o.isFailed
                  | none => false)
      -- C08: a canary resumes on unpause (full statement, including the zero-pod case)
      let fs := spec fs "C08.canary-resumes-on-unpause" (!(unpaused && !o.isFailed) || !o.isPaused)
      let fs := spec fs "C04.canary-creates-in-list" (isSubset o.create p.canaryNodes)
      return fs

def hManageUnknown (inp out : Json) : Except String Findings := do
  let pj : StratParamsJ ← fromJson? inp
  let o : StratResultJ ← fromJson? out
  let p := pj.toParams
  let m := manageUnknown p pj.wall
  let fs : Findings := #[]
  let fs := diff fs "kind" o.kind "ok"
  let fs := diff fs "newStatus" (statusOptStr o.newStatus) (statusOptStr m.newStatus)
  let fs := diff fs "requeue" o.requeue m.requeue
  let fs := diff fs "requeueAfter" o.requeueAfter m.requeueAfter
  let fs := spec fs "C04.unknown-inert" (o.create.isEmpty && o.delete.isEmpty)
  return fs

/-! ### selectCurrentReplicaSet -/
def hSelectCurrent (inp out : Json) : Except String Findings := do
  let d : EDS ← get inp "eds"
  let u : ERS ← get inp "upToDate"
  let a : Option ERS := (inp.getObjValAs? ERS "active").toOption
  let same : Bool ← get inp "samePtr"
  let now : Time ← get inp "now"
  let pick : String ← get out "pick"
  let rq : Dur ← get out "requeueAfter"
  let m := selectCurrent d.strategy.canary d.annotations a u same now
  let mp := match m.1 with | .active => (if a.isSome then "active" else "nil") | .upToDate => "upToDate"
  let fs : Findings := #[]
  let fs := diff fs "pick" pick mp
  let fs := diff fs "requeueAfter" rq m.2
  -- the promotion rule of the statement, on the implementation's answer; only for specs that the
  -- reconcile would accept (validated) and for distinct objects
  let validated := validateSpec d.strategy == .ok
  let fs := if validated && !same && pick != "panic" then
      spec fs "C05.promotion-rule" (Spec.C05.holds d.strategy.canary d.annotations a.isSome u now (pick == "upToDate"))
    else fs
  let fs := if validated && !same && a.isSome then
      spec fs "C08.paused-not-promoted" (!((isCanaryPaused d.annotations (some u)).1 && !isCanaryValid d.annotations u.name
                                            && d.strategy.canary.isSome) || pick == "active")
    else fs
  return fs

/-! ### BuildInfoLabels -/
def hLabels (inp out : Json) : Except String Findings := do
  let labels : SMap ← get inp "labels"
  let keys : List String ← get out "keys"
  let values : List String ← get out "values"
  let san : List (List String) ← get out "sanitize"
  let m := buildInfoLabels labels
  let fs : Findings := #[]
  let fs := diff fs "keys" keys (m.map (·.1))
  let fs := diff fs "values" values (m.map (·.2))
  let fs := san.foldl (fun fs pr => match pr with
    | [k, v] => diff fs s!"sanitize({k})" v (sanitizeLabelName k)
    | _ => fs) fs
  let fs := spec fs "C20.pairs" (Spec.C20.holds labels keys values)
  return fs

/-! ### Default / IsDefaulted / Validate -/
def validateStr : ValidateResult → String
  | .ok => "ok" | .errAutoFailRestarts => "errAutoFailRestarts" | .errCanaryTimeout => "errCanaryTimeout"
  | .errDurationManual => "errDurationManual" | .errNoRestartsManual => "errNoRestartsManual" | .panic => "panic"

def hDefaults (inp out : Json) : Except String Findings := do
  let s : Strategy ← get inp "strategy"
  let tn : String ← get inp "templateName"
  let mode : String ← get inp "defaultMode"
  let isDef : Bool ← get out "isDefaulted"
  let isDefPanic : Bool ← get out "isDefaultedPanic"
  let vraw : String ← get out "validateRaw"
  let dpanic : Bool ← get out "defaultPanic"
  let fs : Findings := #[]
  let fs := diff fs "isDefaulted" isDef (isDefaulted s tn)
  let fs := diff fs "isDefaultedPanic" isDefPanic false
  let fs := diff fs "validateRaw" vraw (validateStr (validateSpec s))
  -- "an object recognised as defaulted" is what the reconcilers run on without defaulting it again:
  -- whatever the recogniser accepts must have every pointer the reconcilers dereference
  let fs := spec fs "C16.recognised-implies-filled" (!isDef || Spec.C16.fills s)
  if dpanic then return spec fs "C16.default-no-crash" false else
  let d : Strategy ← get out "defaulted"
  let dtn : String ← get out "defaultedTemplateName"
  let dIsDef : Bool ← get out "defaultedIsDefaulted"
  let d2 : Strategy ← get out "defaultedTwice"
  let vdef : String ← get out "validateDefaulted"
  let m := defaultSpec s mode
  let fs := diff fs "defaulted" (flat d) (flat m.1)
  let fs := diff fs "defaultedTemplateName" dtn m.2
  let fs := diff fs "validateDefaulted" vdef (validateStr (validateSpec m.1))
  let fs := spec fs "C16.recognised" dIsDef
  let fs := spec fs "C16.idempotent" (d2 == d)
  let fs := spec fs "C16.preserves-user" (Spec.C16.preserves s d && dtn == "")
  let fs := spec fs "C16.fills" (Spec.C16.fills d)
  let fs := spec fs "C16.validate-no-crash" (vdef != "panic")
  -- C16 "validation rejects a duration or noRestartsDuration in manual validation mode" — whatever the other
  -- (unrelated) fields say: evaluated on the defaulted spec, as Reconcile does
  let manualWithDuration := match d.canary with
    | some c => c.validationMode == "manual" && (c.duration.isSome || c.noRestartsDuration.isSome)
    | none => false
  let fs := spec fs "C16.validate-rejects-manual-durations" (!manualWithDuration || (vdef != "ok"))
  return fs

/-! ### searchPossibleConflict -/
def hSettingConflict (inp out : Json) : Except String Findings := do
  let inst : Setting ← get inp "inst"
  let nodes : List Node ← get inp "nodes"
  let settings : List Setting ← get inp "settings"
  let res : String ← get out "res"
  let m := match searchConflict inst nodes settings with
    | .none => "none"
    | .conflict o => "err:" ++ o
    | .selectorError => "err:"
  let fs : Findings := #[]
  let fs := diff fs "conflict" res m
  -- lonely valid: a well-formed setting whose selector overlaps no other usable setting on any node
  -- must not be in conflict
  let overlaps := nodes.any (fun n =>
    (settingMatches inst n.labels).getD false &&
    settings.any (fun s => s.name != inst.name && (settingMatches s n.labels).getD false))
  let fs := if inst.badSelector || overlaps then fs else spec fs "C18.lonely-valid" (res == "none")
  return fs

/-! ### CheckNodeFitness -/
def hFitness (inp out : Json) : Except String Findings := do
  let t : Template ← get inp "template"
  let n : Node ← get inp "node"
  let f : Bool ← get out "fit"
  let pn : Bool ← get out "panic"
  let fs : Findings := #[]
  let fs := diff fs "panic" pn false
  let fs := diff fs "fit" f (fit t n)
  return fs

/-! ### FilterAndMapPodsByNode -/
structure KeptJ where
  node : String
  pod : Option String
  deriving FromJson

def keptStr (k : List (String × Option String)) : String :=
  ", ".intercalate (k.map (fun e => s!"{e.1}:{e.2.getD "-"}"))

def hFilter (inp out : Json) : Except String Findings := do
  let ers : ERS ← get inp "ers"
  let nodes : List NodeItem ← get inp "nodes"
  let pods : List Pod ← get inp "pods"
  let ignore : List String ← get inp "ignore"
  let inBackoff : List String ← get inp "inBackoff"
  let byNode : List KeptJ ← get out "byNode"
  let toDelete : List String ← get out "toDelete"
  let uns : List String ← get out "unscheduled"
  let pn : Bool ← get out "panic"
  let m := filterAndMap (fun n => !inBackoff.contains n) ers.template nodes pods ignore
  let kept := byNode.map (fun k => (k.node, k.pod))
  let fs : Findings := #[]
  let fs := diff fs "panic" pn false
  let fs := diff fs "byNode" (keptStr kept) (keptStr (m.byNode.map (fun e => (e.1.node.name, e.2.map (·.name)))))
  let fs := diff fs "toDelete" (sortStrs toDelete) (sortStrs (m.toDelete.map (·.name)))
  let fs := diff fs "unscheduled" (sortStrs uns) (sortStrs (m.unscheduled.map (·.name)))
  let fs := spec fs "C01.keys" (Spec.C01.keysOk ers.template nodes ignore kept)
  let fs := spec fs "C01.dup-resolution" (Spec.C01.dupOk pods kept toDelete)
  let fs := spec fs "C01.stray-pods" (Spec.C01.strayOk ers.template nodes ignore pods toDelete)
  let fs := spec fs "C01.unknown-untouched" (Spec.C01.unknownUntouched pods kept toDelete)
  return fs

/-! ### CreatePodFromDaemonSetReplicaSet + compareCurrentPodWithNewPod -/
structure PerturbJ where
  kind : String
  ers : ERS
  item : NodeItem
  result : Bool
  deriving FromJson

def podStr (p : Pod) : String :=
  s!"name={p.name} ns={p.ns} labels=[{smapStr p.labels}] ann=[{smapStr p.annotations}] owners={flat p.owners} node={p.nodeName} affOther={p.affOther} aff={flat p.affRequired} tol={flat p.tolerations} cont={flat p.containers}"

def hCreatePod (inp out : Json) : Except String Findings := do
  let rs : ERS ← get inp "ers"
  let item : NodeItem ← get inp "item"
  let aff : Bool ← get inp "affinity"
  let pn : Bool ← get out "panic"
  let fs : Findings := #[]
  if pn then return spec (diff fs "panic" pn false) "C16.no-crash(CreatePod)" false else
  let pod : Pod ← get out "pod"
  let err : Bool ← get out "err"
  let same : Bool ← get out "compareSame"
  let sameStored : Bool ← get out "compareStored"
  let readBack : String ← get out "readBack"
  let perts : List PerturbJ ← get out "perturbations"
  let m := createPod rs (some item.node) item.setting aff
  let fs := diff fs "pod" (podStr pod) (podStr m.pod)
  let fs := diff fs "err" err m.overrideError
  let fs := diff fs "compareSame" same (comparePod rs.templateGeneration pod item)
  let fs := diff fs "compareStored" sameStored (comparePod rs.templateGeneration pod item)
  let fs := diff fs "readBack" readBack (nodeNameFromAffinity pod.affRequired)
  let fs := perts.foldl (fun fs pt => diff fs s!"compare[{pt.kind}]" pt.result (comparePod pt.ers.templateGeneration pod pt.item)) fs
  -- specification on the implementation's pod
  let distinctNames := decide (rs.template.containers.map (·.name)).Nodup
  -- a template whose required node affinity has no term at all is rejected by the API server
  -- (pod validation: at least one node selector term); the pinning clause is about the others
  let emptyTerms := rs.template.affRequired == some []
  let fs := if emptyTerms then fs else spec fs "C10.pinned" (Spec.C10.pinned pod item.node.name aff)
  let fs := if emptyTerms then fs else spec fs "C10.read-back" (!aff || readBack == item.node.name)
  let fs := spec fs "C10.meta" (Spec.C10.metaOk pod rs)
  -- C13: the hash stamped on a pod is the recorded hash of the replica set it is created for,
  -- whatever the template's own annotations say
  let fs := spec fs "C13.pod-hash-stamp" (SMap.get? pod.annotations K.templateHashAnnot == some rs.templateGeneration)
  let fs := if distinctNames then spec fs "C10.resources" (Spec.C10.resources pod rs.template item.node item.setting) else fs
  let fs := spec fs "C10.roundtrip" same
  let fs := spec fs "C10.roundtrip-stored" sameStored
  let fs := perts.foldl (fun fs pt =>
      if pt.kind == "template" then
        spec fs "C10.detects-template" (pt.ers.templateGeneration == rs.templateGeneration || !pt.result)
      else if pt.kind == "annotation" then
        spec fs "C10.detects-annotation" (pt.item.node.resHash == item.node.resHash || !pt.result)
      else if pt.kind == "setting" then
        -- a value demanded by the applicable setting that differs from the pod's is detected
        let demanded := match pt.item.setting with
          | some s2 => pod.containers.any (fun c =>
              !(pt.item.node.overrides.any (fun o => o.container == c.name && o.ok)) &&
              (match s2.containers.find? (fun x => x.name == c.name) with
               | some x => !(overlayIsNoop c.res.limits x.res.limits && overlayIsNoop c.res.requests x.res.requests)
               | none => false))
          | none => false
        spec fs "C10.detects-setting" (!demanded || !pt.result)
      else fs) fs
  return fs

def hNodeHash (inp out : Json) : Except String Findings := do
  let a : Node ← get inp "a"
  let b : Node ← get inp "b"
  let prefix_ : String ← get inp "prefix"
  let ha : String ← get out "ha"
  let hb : String ← get out "hb"
  let sub := fun (n : Node) => n.annotations.filter (fun e => e.k.startsWith prefix_)
  let fs : Findings := #[]
  let fs := diff fs "hash-equal-iff-submaps-equal" (ha == hb) (sub a == sub b)
  let fs := diff fs "hash-empty-iff-no-annotation" (ha == "") ((sub a).isEmpty)
  let fs := diff fs "resHash(a)" a.resHash ha
  return fs

/-! ### selectNodes -/
def hSelectNodes (inp out : Json) : Except String Findings := do
  let d : EDS ← get inp "eds"
  let rs : ERS ← get inp "ers"
  let current : List String ← get inp "current"
  let nodes : List Node ← get inp "nodes"
  let pods : List Pod ← get inp "pods"
  let pn : Bool ← get out "panic"
  let err : Bool ← get out "err"
  let res : List String ← get out "nodes"
  let fs : Findings := #[]
  let fs := diff fs "panic" pn false
  match d.strategy.canary with
  | none => return fs
  | some c =>
    let base := targetedCount rs.template nodes
    match selectNodes rs.template c base current pods nodes with
    | .panic => return diff fs "kind" "ok" "panic"
    | .err _ => return diff fs "err(replicas)" err true
    | .ok (m, short) =>
      let fs := diff fs "nodes" res m
      let fs := diff fs "err" err short
      let t := rs.template
      let fs := spec fs "C15.distinct" (Spec.C15.distinct current res)
      let fs := spec fs "C15.new-valid" (Spec.C15.newValid t c nodes current res)
      let fs := spec fs "C15.keep" (Spec.C15.keep t c nodes current res)
      let fs := spec fs "C15.count" (Spec.C15.count c base current res err)
      -- C04: the controller never adds nodes beyond the resolved request (a list that is already
      -- longer, e.g. after replicas was lowered, does not grow)
      let fs := match Spec.C15.requested c base with
        | some k => spec fs "C04.list-growth(selectNodes)" (decide ((res.length : Int) ≤ max k current.length))
        | none => fs
      let fs := spec fs "C15.all-valid" (err || Spec.C15.allValid t c nodes res)
      -- metamorphic: a previously selected node that is still listed but no longer valid must not
      -- influence the outcome (it takes no slot, no quota): the selection equals the selection made
      -- from the list without such names  (theorem C15_invalid_previous_irrelevant)
      -- "listed" = returned by the selector-scoped node list the controller works from (names that are
      -- not listed at all are the known finding F6a and stay as they are)
      let listedInvalid := fun (nm : String) => nodes.any (fun n => n.name == nm && !fit t n &&
          (match c.nodeSelector with
           | some sel => (labelSelectorMatches sel n.labels).getD true
           | none => true))
      let cleaned := current.filter (fun nm => !listedInvalid nm)
      let fs := if !decide current.Nodup then fs else
        match selectNodes rs.template c base cleaned pods nodes with
        | .ok (m2, short2) =>
          spec fs "C15.invalid-previous-irrelevant" (sortStrs res == sortStrs m2 && err == short2)
        | _ => fs
      return fs

/-! ### kubectl-eds command bodies -/
def parseCmd : String → Option CliCmd
  | "canaryPause" => some .canaryPause | "canaryUnpause" => some .canaryUnpause
  | "canaryValidate" => some .canaryValidate | "canaryFail" => some .canaryFail
  | "ruPause" => some .ruPause | "ruUnpause" => some .ruUnpause
  | "freeze" => some .freeze | "unfreeze" => some .unfreeze
  | _ => none

def edsNoAnn (d : EDS) : String := flat { d with annotations := [] }

def hCli (inp out : Json) : Except String Findings := do
  let cmdS : String ← get inp "cmd"
  let d : EDS ← get inp "eds"
  let now : Time ← get inp "now"
  let pn : Bool ← get out "panic"
  let err : Bool ← get out "err"
  let after : EDS ← get out "edsAfter"
  let ersAfter : ERS ← get out "ersAfter"
  let ersBefore : ERS ← get out "ersBefore"
  let oldUnchanged : Bool ← get out "oldUnchanged"
  let calls : CallsJ ← get out "calls"
  let fs : Findings := #[]
  let fs := diff fs "panic" pn false
  match parseCmd cmdS with
  | none => throw "bad cmd"
  | some cmd =>
    let m := cliRun cmd d.strategy.canary.isSome d.status.canary d.annotations
    -- model vs implementation
    let fs := match m with
      | .refused _ =>
        -- canary fail may also be refused because the canary ERS does not exist
        diff fs "refused" err true
      | .patchAnnotations ann =>
        let fs := diff fs "refused" err false
        diff fs "annotations" (smapStr after.annotations) (smapStr ann)
      | .failErs name =>
        if name != ersBefore.name then diff fs "refused(ers missing)" err true else
        let fs := diff fs "refused" err false
        -- F12 repair: the condition is updated in place (first entry of that type), appended only
        -- when absent, so that the controller (which reads the first entry) sees the failure
        diff fs "ers.conds" (statusStr ersAfter.status)
          (statusStr { ersBefore.status with conds := updateCond ersBefore.status.conds now "Canary-Failed" "True" "Manually failed" "" false true })
    -- specification: frame, refusal, documented value
    let keys := Spec.C19.documentedKeys cmd
    let fs := spec fs "C19.frame-annotations" (Spec.C19.frameOk d.annotations after.annotations keys)
    let fs := spec fs "C19.frame-eds-rest" (edsNoAnn d == edsNoAnn after)
    let fs := spec fs "C19.frame-other-ers" oldUnchanged
    let fs := spec fs "C19.frame-canary-ers" (cmd == .canaryFail || flat ersAfter == flat ersBefore)
    let fs := spec fs "C19.refuses-without-precondition" (Spec.C19.precondition cmd d.strategy.canary.isSome d.status.canary || err)
    let ersExists := match d.status.canary with | some cs => cs.replicaSet == ersBefore.name | none => false
    let fs := spec fs "C19.acts-when-applicable" (!(Spec.C19.mustAct cmd d.strategy.canary.isSome d.status.canary d.annotations
                  && (cmd != .canaryFail || ersExists)) || !err)
    let fs := spec fs "C19.refusal-changes-nothing" (!err || (flat after == flat d && flat ersAfter == flat ersBefore && calls.patched.isEmpty && calls.updated.isEmpty))
    let fs := spec fs "C19.writes-documented-value" (err || Spec.C19.writtenOk cmd d.status.canary after.annotations)
    -- `fail` makes the canary failed *as the controller reads it* and touches nothing else of the ERS
    let fs := spec fs "C19.fail-sets-condition" (err || cmd != .canaryFail ||
                (isCanaryFailed (some ersAfter) &&
                 { ersAfter with status := { ersAfter.status with conds := [] } } == { ersBefore with status := { ersBefore.status with conds := [] } } &&
                 (ersAfter.status.conds.filter (fun c => c.type != "Canary-Failed")) == (ersBefore.status.conds.filter (fun c => c.type != "Canary-Failed"))))
    let fs := spec fs "C19.no-create-delete" (calls.created.isEmpty && calls.deleted.isEmpty)
    return fs

/-! ### ExtendedDaemonSet Reconcile (L2) -/
structure NewErsJ where
  ns : String
  generateName : String
  labels : SMap
  annotations : SMap
  templateGeneration : String
  ownerEds : String
  deriving FromJson

structure EdsOutJ where
  kind : String
  requeue : Bool
  requeueAfter : Dur
  defaulted : Option Strategy
  defaultedTemplateName : String
  created : Option NewErsJ
  deletedErs : List String
  statusUpdate : Option EDSStatus
  specHash : Option String
  specAnn : SMap
  order : List String
  foreign : List String
  deriving FromJson

def edsStatusStr (s : EDSStatus) : String :=
  s!"d={s.desired} c={s.current} r={s.ready} a={s.available} u={s.upToDate} i={s.ignored} state={s.state} active={s.activeReplicaSet} reason={s.reason} canary={flat s.canary} " ++
    " ".intercalate (s.conds.map condStr)

def newErsStr (n : NewErs) : String :=
  s!"{n.ns}/{n.generateName} labels=[{smapStr n.labels}] ann=[{smapStr n.annotations}] tg={n.templateGeneration} owner={n.ownerEds}"

def hEdsReconcile (inp out : Json) : Except String Findings := do
  let d : EDS ← get inp "eds"
  let all : List ERS ← get inp "ers"
  let pods : List Pod ← get inp "pods"
  let nodes : List Node ← get inp "nodes"
  let mode : String ← get inp "defaultMode"
  let now : Time ← get inp "now"
  let o : EdsOutJ ← fromJson? out
  let m := reconcileEds d all pods nodes now mode
  let fs : Findings := #[]
  let fs := spec fs "C16.reconcile-no-crash(EDS)" (o.kind != "panic")
  if o.kind == "panic" then return fs else
  let fs := diff fs "err" (o.kind == "err") m.err
  let fs := diff fs "requeue" o.requeue m.requeue
  -- the remaining canary time is measured from the reconcile's own time.Now(), a few hundred
  -- microseconds after the instant the harness sampled: compare up to 1 s
  let closeEnough := (o.requeueAfter == 0) == (m.requeueAfter == 0) &&
                     (o.requeueAfter - m.requeueAfter).natAbs < 1000000000
  let fs := if closeEnough then fs else diff fs "requeueAfter" o.requeueAfter m.requeueAfter
  let fs := diff fs "defaulted" (flat o.defaulted) (flat (m.defaulted.map (·.1)))
  let toNew := fun (c : NewErsJ) => ({ ns := c.ns, generateName := c.generateName, labels := c.labels, annotations := c.annotations, templateGeneration := c.templateGeneration, ownerEds := c.ownerEds } : NewErs)
  let fs := diff fs "created" ((o.created.map (fun c => newErsStr (toNew c))).getD "-") ((m.created.map newErsStr).getD "-")
  let fs := diff fs "deletedErs" (sortStrs o.deletedErs) (sortStrs m.deletedErs)
  let fs := diff fs "statusUpdate" ((o.statusUpdate.map edsStatusStr).getD "-") ((m.statusUpdate.map edsStatusStr).getD "-")
  let fs := diff fs "specUpdate" (match o.specHash with | some h => s!"{h} [{smapStr o.specAnn}]" | none => "-")
              (match m.specUpdate with | some (h, a) => s!"{h} [{smapStr a}]" | none => "-")
  -- ---- specification clauses on the implementation's writes
  -- a reconcile that decided from a stale read of the ExtendedDaemonSet must not overwrite what was
  -- stored meanwhile (writes are guarded by resourceVersion: C11's mechanism); in particular the canary
  -- nodes selected earlier are kept (C15)
  let staleRead : Bool := (inp.getObjValAs? Bool "staleRead").toOption.getD false
  let storedChanged : Bool := (out.getObjValAs? Bool "storedChanged").toOption.getD false
  let storedCanaryChanged : Bool := (out.getObjValAs? Bool "storedCanaryChanged").toOption.getD false
  let fs := spec fs "C11.stale-write-refused" (!staleRead || !storedChanged)
  let fs := spec fs "C15.selection-kept-on-stale-read" (!staleRead || !storedCanaryChanged)
  let own := ownErs d all
  let fs := spec fs "C12.writes-owned" o.foreign.isEmpty
  -- C12 "never ... adopted as its replica set": the replica sets the written status names — active and
  -- canary — are the ExtendedDaemonSet's own (its namespace, its name label, as listed by this reconcile)
  -- or the one this reconcile created; a name kept from the previous status is not an adoption
  let fs := match o.statusUpdate with
    | some s =>
      let mine := fun (nm : String) => nm == "" || own.any (fun e => e.name == nm) || o.created.isSome ||
                    nm == d.status.activeReplicaSet || (match d.status.canary with | some c => c.replicaSet == nm | none => false)
      spec fs "C12.no-adoption" (mine s.activeReplicaSet && (match s.canary with | some c => mine c.replicaSet | none => true))
    | none => fs
  -- C13: create only when no own replica set matches the template; faithful; named for this EDS
  let hasMatch := own.any (fun e => SMap.get? e.annotations K.templateHashAnnot == some d.templateHash)
  let fs := spec fs "C13.create-only-if-none" (o.created.isNone || !hasMatch)
  let fs := match o.created with
    | some c => spec fs "C13.created-faithful" (c.templateGeneration == d.templateHash &&
                  SMap.get? c.annotations K.templateHashAnnot == some d.templateHash &&
                  SMap.get? c.labels K.edsNameLabel == some d.name && c.ns == d.ns && c.ownerEds == d.name)
    | none => fs
  -- C13 "a replica set's template, its recorded hash ... always equal the template it was created from": the
  -- harness re-hashes the template the created replica set STORES and compares it with its templateGeneration
  let fs := spec fs "C13.created-template-hashes-to-its-generation" (!o.foreign.any (·.startsWith "created ERS template"))
  -- C13/C07: clean-up never deletes the active or the up-to-date replica set, only all-zero ones of
  -- this EDS, and a failed canary only after the retention
  let newActive := match o.statusUpdate with | some st => st.activeReplicaSet | none => d.status.activeReplicaSet
  let fs := spec fs "C13.cleanup-safe" (o.deletedErs.all (fun nm =>
      match own.find? (fun e => e.name == nm) with
      | some e => nm != newActive &&
                  SMap.get? e.annotations K.templateHashAnnot != some d.templateHash &&
                  e.status.desired + e.status.current + e.status.ready + e.status.available == 0
      | none => false))
  let fs := spec fs "C07.retention" (o.deletedErs.all (fun nm =>
      match own.find? (fun e => e.name == nm) with
      | some e => (match findCond e.status.conds "Canary-Failed" with
                   | some c => c.status != "True" || now ≥ c.lastTransition + 2 * minute - 5 * sec
                   | none => true)
      | none => true))
  -- C07 "the failed replica set ... is deleted only once it reports no pods": whatever its age
  let fs := spec fs "C07.failed-deleted-only-drained" (o.deletedErs.all (fun nm =>
      match own.find? (fun e => e.name == nm) with
      | some e => !isCondTrue e.status.conds "Canary-Failed" ||
                  e.status.desired + e.status.current + e.status.ready + e.status.available == 0
      | none => true))
  -- C07 "the rollback completes even if the status write succeeds and the following spec write fails": until the
  -- template is restored the failed replica set still matches spec.template and must survive clean-up, or the
  -- next reconcile would create a fresh replica set from the bad template and restart the canary
  let fs := spec fs "C07.rollback-keeps-uptodate" (o.deletedErs.all (fun nm =>
      match own.find? (fun e => e.name == nm) with
      | some e => SMap.get? e.annotations K.templateHashAnnot != some d.templateHash
      | none => true))
  -- C07 (theorem C07_spec_write_even_if_status_current): whatever the status already says, while the
  -- up-to-date replica set is a failed canary and spec.template is not the active one's, a reconcile
  -- that reaches the status computation restores the template
  let fs := match d.strategy.canary, upToDateOf d own, lastWhere (fun e => e.name == d.status.activeReplicaSet) own with
    | some _, some u, some a =>
      if o.kind == "ok" && o.defaulted.isNone && o.created.isNone && isCanaryFailed (some u) &&
         !isCanaryValid d.annotations u.name && a.templateGeneration != d.templateHash then
        spec fs "C07.rollback-spec-restored" (o.specHash == some a.templateGeneration)
      else fs
    | _, _, _ => fs
  -- status function, when a status was written
  let fs := match o.statusUpdate, upToDateOf d own with
    | some st, some u =>
      let active := (own.find? (fun e => e.name == st.activeReplicaSet)).getD u
      let failed := isCanaryFailed (some u)
      let (paused, reason) := isCanaryPaused d.annotations (some u)
      let canaryActive := d.strategy.canary.isSome && !failed && active.name != u.name
      let fs := spec fs "C14.counters" (Spec.C14.countersOk own active u canaryActive st)
      let fs := spec fs "C14.state" (Spec.C14.stateOk d.strategy.canary.isSome canaryActive failed paused reason d.annotations u st)
      let fs := spec fs "C14.conditions" (Spec.C14.condsOk d.strategy.canary.isSome failed paused st)
      -- C05 at L2: activeReplicaSet changes only under the promotion rule
      let oldActive := own.find? (fun e => e.name == d.status.activeReplicaSet)
      let fs := spec fs "C05.status-active" (st.activeReplicaSet == d.status.activeReplicaSet ||
                  (st.activeReplicaSet == u.name &&
                    Spec.C05.holds d.strategy.canary d.annotations oldActive.isSome u (now + 5 * sec) true))
      -- C07: a failed canary is rolled back: canary cleared, active unchanged, template restored
      let fs := if failed && d.strategy.canary.isSome && oldActive.isSome && active.name != u.name then
          spec fs "C07.rollback-writes" (st.canary.isNone && st.state == "Canary Failed" &&
            st.activeReplicaSet == d.status.activeReplicaSet && o.specHash == some active.templateGeneration)
        else fs
      -- C15 at L2: the canary node list only grows up to the request, distinct
      let fs := match st.canary, d.strategy.canary with
        | some cs, some c =>
          let oldNodes := match d.status.canary with | some x => x.nodes | none => []
          -- the request is resolved against the nodes the EDS really targets (listed nodes fit for the
          -- template); the controller never grows the list beyond it
          let targeted : Int := (nodes.filter (fit d.template)).length
          let within := match resolveIntOrPercent c.replicas targeted with
            | some k => decide ((cs.nodes.length : Int) ≤ max k oldNodes.length)
            | none => true
          let fs := spec fs "C04.list-growth" within
          let fs := spec fs "C15.count-vs-targeted" within
          -- "nodes selected earlier that are still valid are kept" across reconciles — also when the canary is
          -- re-targeted to another replica set by a second template change (theorem L3 canary history / C15_keep)
          spec fs "C15.keep(reconcile)" (Spec.C15.keep d.template c nodes oldNodes cs.nodes)
        | _, _ => fs
      fs
    | _, _ => fs
  -- C14 "after each reconcile the status equals the documented function": when the documented function (the
  -- model, theorem C14_eds_status_fn) says the stored status is out of date, the reconcile writes it — a
  -- change detection that overlooks a field leaves a stale status behind
  let stale : Bool := (inp.getObjValAs? Bool "staleRead").toOption.getD false
  let fs := spec fs "C14.status-refreshed" (stale || o.kind != "ok" || m.statusUpdate.isNone || o.statusUpdate.isSome)
  -- C16: defaulting update is recognised (no loop)
  let fs := match o.defaulted with
    | some s' => spec fs "C16.no-default-loop" (isDefaulted s' o.defaultedTemplateName)
    | none => fs
  -- order of the two writes of the rollback / update
  let fs := spec fs "C07.status-before-spec" (match o.order.findIdx? (·.startsWith "update:EDS"), o.order.findIdx? (·.startsWith "status:EDS") with
      | some iu, some is_ => is_ < iu
      | _, _ => true)
  -- a reconcile one of whose List calls failed (read fault): the model does not follow it, so only the
  -- safety clauses are judged on what it wrote — in particular a percentage of canary replicas must not
  -- silently be resolved against something else than the targeted nodes (C15), the list must not grow (C04)
  let readFault : Bool := (inp.getObjValAs? Bool "readFault").toOption.getD false
  let safety := ["SPEC C15.count-vs-targeted", "SPEC C15.keep(reconcile)", "SPEC C04.list-growth", "SPEC C12.writes-owned", "SPEC C12.no-adoption",
    "SPEC C13.create-only-if-none", "SPEC C13.cleanup-safe", "SPEC C07.failed-deleted-only-drained", "SPEC C07.retention", "SPEC C07.rollback-keeps-uptodate", "SPEC C05.status-active", "SPEC C16.reconcile-no-crash(EDS)",
    "SPEC C07.status-before-spec"]
  let fs := if readFault then fs.filter (fun t => safety.any (fun p => t.startsWith p)) else fs
  return fs

/-! ### ExtendedDaemonSetReplicaSet Reconcile (L2) -/
structure DsJ where
  name : String
  ns : String
  selector : Option LabelSelector
  deriving FromJson

structure CreatedJ where
  node : String
  pod : Pod
  deriving FromJson

structure ErsOutJ where
  kind : String
  requeue : Bool
  requeueAfter : Dur
  deleted : List String
  labelAdds : List String
  labelRemoves : List String
  creates : List CreatedJ
  statusUpdate : Option ERSStatus
  order : List String
  foreign : List String
  appliedPods : Nat
  storedReconcileError : Option String := none
  storedCleanupDone : Option String := none
  storedCanaryFailed : Option String := none
  deriving FromJson

def hErsReconcile (inp out : Json) : Except String Findings := do
  let rs : ERS ← get inp "ers"
  let d : EDS ← get inp "eds"
  let nodes : List Node ← get inp "nodes"
  let pods : List Pod ← get inp "pods"
  let settings : List Setting ← get inp "settings"
  let dss : List DsJ ← get inp "daemonsets"
  let aff : Bool ← get inp "affinity"
  let now : Time ← get inp "now"
  let o : ErsOutJ ← fromJson? out
  let st : ErsStore := { edss := [d], nodes := nodes, pods := pods, settings := settings,
                         daemonsets := dss.map (fun x => { name := x.name, ns := x.ns, selector := x.selector }) }
  -- nodes the reconciler's in-memory failed-pod back-off currently holds back (none for a fresh one)
  let inBackoff : List String := (inp.getObjValAs? (List String) "inBackoff").toOption.getD []
  let faulted : Bool := (inp.getObjValAs? Bool "faulted").toOption.getD false
  let m := reconcileErs rs st (fun n => !inBackoff.contains n) aff now
  let fs : Findings := #[]
  let fs := spec fs "C16.reconcile-no-crash(ERS)" (o.kind != "panic")
  if o.kind == "panic" then return fs else
  let fs := diff fs "earlyErr" (o.kind == "err") m.earlyErr
  -- which candidates fill a limited budget depends on Go's map order: compare the clean-up part
  -- exactly, the update part by size and membership in the candidates
  let updDel := o.deleted.filter (fun x => !m.cleanupDeletes.contains x)
  let fs := diff fs "deleted.cleanup" (isSubset m.cleanupDeletes o.deleted) true
  let fs := diff fs "deleted.update.count" updDel.length m.deletes.length
  let fs := diff fs "deleted.update.candidates" (isSubset updDel m.deleteCands) true
  let fs := diff fs "labelAdds" (sortStrs o.labelAdds) (sortStrs m.labelAdds)
  let fs := diff fs "labelRemoves" (sortStrs o.labelRemoves) (sortStrs m.labelRemoves)
  let fs := diff fs "create.count" o.creates.length m.creates.length
  let fs := diff fs "create.candidates" (isSubset (o.creates.map (·.node)) (m.createCands.map (·.node.name))) true
  let fs := o.creates.foldl (fun fs c =>
      match m.createCands.find? (fun ni => ni.node.name == c.node) with
      | some ni => diff fs s!"create.pod({c.node})" (podStr c.pod) (podStr (createPod rs (some ni.node) ni.setting aff).pod)
      | none => fs) fs
  let fs := diff fs "statusUpdate" (statusOptStr o.statusUpdate) (statusOptStr m.statusUpdate)
  let fs := diff fs "requeue" o.requeue m.requeue
  let closeEnough := (o.requeueAfter == 0) == (m.requeueAfter == 0) && (o.requeueAfter - m.requeueAfter).natAbs < 1000000000
  let fs := if closeEnough then fs else diff fs "requeueAfter" o.requeueAfter m.requeueAfter
  -- ---- specification clauses on the implementation's API calls
  let fs := spec fs "C12.writes-owned" o.foreign.isEmpty
  -- C17 "every error of a pod creation or deletion is reflected in the error the sync reports and in the
  -- ReconcileError / PodsCleanupDone condition rather than being lost": when a pod write of this sync
  -- failed, Reconcile returns an error, or the STORED replica set carries ReconcileError=True or
  -- PodsCleanupDone=False — also when the status write itself met a conflict
  let podWriteFailed : Bool := (inp.getObjValAs? Bool "podWriteFailed").toOption.getD false
  let fs := spec fs "C17.sync-reports-error"
    (!podWriteFailed || o.kind == "err" || o.storedReconcileError == some "True" || o.storedCleanupDone == some "False")
  -- C06 "once true [Canary-Failed] stays true": a failure recorded by another writer while this sync was
  -- in flight (kubectl-eds canary fail, a second controller instance) is not wiped by the sync's own
  -- status write — that write carries an outdated resourceVersion and must be refused
  let concurrentFail : Bool := (inp.getObjValAs? Bool "concurrentFail").toOption.getD false
  let fs := spec fs "C06.failed-sticky-concurrent-writer" (!concurrentFail || o.storedCanaryFailed == some "True")
  -- C18 "only valid settings influence pods": settings that are not valid (in error, not yet
  -- reconciled) must be inert — the sync on the store WITHOUT them decides the same early error and
  -- the same set of creations (the model ignores them by construction: theorem C18_only_valid_used)
  let mValid := reconcileErs rs { st with settings := st.settings.filter (fun s => s.status == "valid") }
    (fun n => !inBackoff.contains n) aff now
  let fs := spec fs "C18.only-valid-influence"
    (st.settings.all (fun s => s.status == "valid") || faulted ||
      ((o.kind == "err") == mValid.earlyErr && o.creates.length == mValid.creates.length))
  let role := ersRole d rs.name
  let canaryNodes := match d.status.canary with | some cs => cs.nodes | none => []
  -- C01 at the API: at most one creation per node, only on listed fit nodes carrying no live pod of the EDS
  let ownPods := ersPods d st
  let fs := spec fs "C01.api-one-create-per-node" (decide (o.creates.map (·.node)).Nodup)
  let fs := spec fs "C01.api-create-only-eligible-empty" (o.creates.all (fun c =>
      nodes.any (fun n => n.name == c.node && fit rs.template n) &&
      ownPods.all (fun p => p.nodeOf != some c.node || p.phase == "Unknown" || p.phase == "Failed")))
  -- the same clause with the node each generated pod was BUILT FOR (recorded by the harness), not the node the
  -- code under test reads back from it: a pod the builder pinned wrongly must not make its node look empty
  let fs := spec fs "C01.api-no-second-pod-for-node" (o.creates.all (fun c =>
      ownPods.all (fun p => SMap.get? p.annotations "verif/built-for" != some c.node ||
        p.phase == "Unknown" || p.phase == "Failed")))
  let fs := spec fs "C01.api-unknown-untouched" (ownPods.all (fun p => p.phase != "Unknown" || !o.deleted.contains p.name))
  -- C01 in the store (scenario steps): no node gains a second live daemon pod during this sync
  let dupB : List String := (inp.getObjValAs? (List String) "doubledBefore").toOption.getD []
  let dupA : List String := (inp.getObjValAs? (List String) "doubledAfter").toOption.getD []
  let fs := spec fs "C01.store-one-pod-per-node" (dupA.all (fun n => dupB.contains n))
  -- C04: confinement
  let fs := spec fs "C04.canary-creates-in-list" (role != "canary" || o.creates.all (fun c => canaryNodes.contains c.node))
  let fs := spec fs "C04.active-avoids-list" (role != "active" ||
      (o.creates.all (fun c => !canaryNodes.contains c.node) &&
       o.deleted.all (fun nm => match ownPods.find? (fun p => p.name == nm) with
                                | some p => (match p.nodeOf with | some n => !canaryNodes.contains n | none => true)
                                | none => true)))
  -- C04 "... while every other eligible node keeps being served with the active template": during a
  -- canary the active sync still creates the pods the rolling-update plan owes to the eligible nodes
  -- outside the canary list (count of the proven plan: C02_count_bridge / C04_active_serves_rest)
  let fs := spec fs "C04.active-serves-rest" (role != "active" || canaryNodes.isEmpty || faulted || o.kind != "ok" ||
      decide (o.creates.length ≥ m.creates.length))
  -- C02 "every eligible node [ends up running] exactly one Ready pod": a fault-free sync of the active or canary
  -- role issues the creations its plan owes (count of the proven plan: C04_active_serves_rest_sync /
  -- rollingPlan_create_take) — also on nodes whose override annotation is malformed (the override is skipped,
  -- the pod is still created)
  let fs := spec fs "C02.sync-creates-owed-pods" (role == "unknown" || faulted || o.kind != "ok" ||
      decide (o.creates.length ≥ m.creates.length))
  let fs := spec fs "C04.unknown-inert" (role != "unknown" || (o.creates.isEmpty && o.deleted.isEmpty && o.labelAdds.isEmpty && o.labelRemoves.isEmpty))
  -- C04 "pods of the canary replica set on canary nodes carry the canary label during the canary" —
  -- paused or failed canaries included: a full canary sync (not throttled, no early error, no injected
  -- fault) labels the kept pod of every canary node that is this replica set's and lacks the label
  -- (theorem C04_label_on)
  let gatedC := match findCond rs.status.conds "LastFullSync", d.strategy.reconcileFrequency with
    | some c, some f => c.lastUpdate + f > now
    | _, _ => false
  let fs := spec fs "C04.label-on" (role != "canary" || faulted || gatedC || m.earlyErr || o.kind != "ok" ||
      !isDefaulted d.strategy d.templateName ||
      (match ersNodeItems d rs st with
       | some items => (filterAndMap (fun n => !inBackoff.contains n) rs.template items (ersPods d st) []).byNode
       | none => []).all (fun (e : NodeItem × Option Pod) => match e.2 with
        | some p => !(canaryNodes.contains e.1.node.name && p.hasLabels &&
                      SMap.get? p.labels K.ersNameLabel == some rs.name &&
                      SMap.get? p.labels K.canaryLabel != some "true") || o.labelAdds.contains p.name
        | none => true))
  let fs := spec fs "C04.label-only-own-ers" ((o.labelAdds ++ o.labelRemoves).all (fun nm =>
      match pods.find? (fun p => p.name == nm && p.ns == rs.ns) with
      | some p => SMap.get? p.labels K.ersNameLabel == some rs.name
      | none => false))
  -- C07: the Canary-Failed mark is the only memory of the failure between the two writes of the
  -- rollback and during the retention: a replica set that is neither active nor canary keeps it
  let fs := spec fs "C07.failed-mark-kept" (!(role == "unknown" && isCondTrue rs.status.conds "Canary-Failed") ||
      (match o.statusUpdate with
       | some s => isCondTrue s.conds "Canary-Failed"
       | none => true))
  -- C09: the gate and the stamp
  let gated := match findCond rs.status.conds "LastFullSync", d.strategy.reconcileFrequency with
    | some c, some f => isDefaulted d.strategy d.templateName && c.lastUpdate + f > now + sec
    | _, _ => false
  let fs := spec fs "C09.gate-no-write" (!gated || o.order.isEmpty)
  -- "a sync that creates or deletes pods": at least one pod write was applied by the API server
  let wrote := o.appliedPods > 0
  let fs := spec fs "C09.stamp" (!wrote || (match o.statusUpdate with
      | some s => (match findCond s.conds "LastFullSync" with | some c => c.lastUpdate == now | none => false)
      | none => false))
  -- C10: created pods are pinned and carry the metadata
  let fs := spec fs "C10.api-pinned-meta" (o.creates.all (fun c => Spec.C10.pinned c.pod c.node aff && Spec.C10.metaOk c.pod rs))
  -- C08 at the level of the whole sync (active role): only the ExtendedDaemonSet's *current* annotations
  -- pause or freeze — the written conditions say so, a paused or frozen sync deletes nothing for
  -- updating, a frozen one creates nothing; once the annotation is gone the conditions are not True
  let edsPaused := SMap.get? d.annotations K.rollingUpdatePausedAnnot == some "true"
  let edsFrozen := SMap.get? d.annotations K.rolloutFrozenAnnot == some "true"
  let fs := if role != "active" then fs else
    let fs := spec fs "C08.sync-paused-no-update-delete" (!(edsPaused || edsFrozen) || updDel.isEmpty)
    let fs := spec fs "C08.sync-frozen-no-create" (!edsFrozen || o.creates.isEmpty)
    match o.statusUpdate with
    | some s => if s.status != "active" || !isDefaulted d.strategy d.templateName then fs else
        -- (a non-defaulted owner stops the sync early: the stored conditions are written back —
        -- theorem C08_sync_flags_partial and its counterexample)
        spec fs "C08.sync-flags" ((!isCondTrue s.conds "RollingUpdatePaused" || edsPaused) &&
                                  (!isCondTrue s.conds "RolloutFrozen" || edsFrozen))
    | none => fs
  -- C10 "a pod just created for given inputs is recognised as up to date for the same inputs, so it is
  -- never replaced spuriously": every pod the sync deletes *in order to update it* (clean-up deletions
  -- of duplicates / ineligible nodes aside) is out of date for what the sync read — another template
  -- hash, another node-override hash, or a resource value the applicable setting demands differs.
  -- (`comparePod` is the up-to-date relation of EdsProps/C10: round trip and the three detections.)
  let fs := spec fs "C10.sync-no-spurious-replace" (role == "unknown" || updDel.all (fun nm =>
      match m.entries.find? (fun e => match e.2 with | some p => p.name == nm | none => false) with
      | some (ni, some p) => !comparePod rs.templateGeneration p ni
      | _ => true))
  -- C03 at the level of the whole sync (this is where pods adopted from the old DaemonSet enter):
  -- the pods deleted for updating respect the availability budget computed on the entries
  let fs := if role != "active" then fs else
    match resolveDeletes m.entries (updDel.filterMap (fun nm =>
        match m.entries.find? (fun e => match e.2 with | some p => p.name == nm | none => false) with
        | some e => some ({ node := e.1.node.name, pod := nm } : DelJ)
        | none => none)) with
    | none => fs
    | some del =>
      -- (a deletion of a pod that is not the entry of a targeted node — e.g. one that no longer exists — is a
      -- DIFF; the budget is still judged on the deletions of real entries)
      let fs := if del.length != updDel.length then fs.push "DIFF deleted.update.unresolved" else fs
      let ru := d.strategy.rollingUpdate
      let n : Int := m.entries.length
      match resolveIntOrPercent ru.maxUnavailable n, resolveIntOrPercent ru.maxPodSchedulerFailure n with
      | some mu, some ms => spec fs "C03.holds(sync level, adopted pods included)" (Spec.C03.holds rs.templateGeneration now m.entries mu ms del)
      | _, _ => fs
  -- C18: only valid settings of this namespace referencing this EDS and selecting the node influence
  -- a created pod, and exactly one of them (or none when there is none)
  let distinctNames := decide (rs.template.containers.map (·.name)).Nodup
  let fs := if !distinctNames then fs else
    spec fs "C18.only-valid-setting-applied" (o.creates.all (fun c =>
      match nodes.find? (fun n => n.name == c.node) with
      | none => true
      | some n =>
        let applicable := settings.filter (fun s => s.ns == d.ns && s.reference == some d.name &&
                            s.status == "valid" && settingMatches s n.labels == some true)
        if applicable.isEmpty then Spec.C10.resources c.pod rs.template n none
        else applicable.any (fun s => Spec.C10.resources c.pod rs.template n (some s))))
  -- C10 "container resources resolved as node-annotation override, else the valid ExtendedDaemonsetSetting
  -- selecting the node, else the template" on the pods this sync really creates (same content as
  -- C18.only-valid-setting-applied, judged for C10)
  let fs := if !distinctNames then fs else
    spec fs "C10.api-resources" (o.creates.all (fun c =>
      match nodes.find? (fun n => n.name == c.node) with
      | none => true
      | some n =>
        let applicable := settings.filter (fun s => s.ns == d.ns && s.reference == some d.name &&
                            s.status == "valid" && settingMatches s n.labels == some true)
        if applicable.isEmpty then Spec.C10.resources c.pod rs.template n none
        else applicable.any (fun s => Spec.C10.resources c.pod rs.template n (some s))))
  -- C14: counter ordering for the active / canary role
  let fs := match o.statusUpdate with
    | some s =>
      -- invariant form: a status whose counters were ordered stays ordered (a sync that does not reach
      -- the strategy, e.g. "parent not defaulted", rewrites conditions only and keeps the counters)
      let ordered := fun (x : ERSStatus) => decide (0 ≤ x.available && x.available ≤ x.ready && x.ready ≤ x.current && x.current ≤ x.desired)
      spec fs "C14.ers-order" (s.status == "unknown" || s.status == "" || !ordered rs.status || ordered s)
    | none => fs
  -- C14 "desired equals the number of eligible nodes": in the active role the written `desired` is the number of
  -- nodes the replica set targets (eligible, outside the canary list) — stuck or terminating pods included —
  -- whenever the documented status function (the model: countAll counts every entry) says so
  let fs := match o.statusUpdate, m.statusUpdate with
    | some s, some ms =>
      if role == "active" && !faulted && decide (ms.desired == (m.entries.length : Int)) then
        spec fs "C14.ers-desired-is-targeted" (decide (s.desired == (m.entries.length : Int)))
      else fs
    | _, _ => fs
  -- C11/C17: pod operations precede the status write
  let fs := spec fs "C11.status-last" (match o.order.findIdx? (·.startsWith "status:ERS") with
      | some i => i + 1 == o.order.length
      | none => true)
  -- a sync one of whose List calls failed (read fault): the model does not follow it; only the safety
  -- clauses are judged on what it wrote — what it creates must still be built from the valid setting
  -- selecting the node (C18/C10), on eligible empty nodes (C01), inside its role's nodes (C04), own (C12)
  let readFault : Bool := (inp.getObjValAs? Bool "readFault").toOption.getD false
  -- the parent ExtendedDaemonSet could not be read in this sync: role, pause / freeze switches, strategy are
  -- unknown — a sync that nevertheless creates or deletes pods decided from something it remembered
  -- (C11 "no decision state outside the API objects"; C08: the switches it obeys are the current ones)
  let parentUnreadable : Bool := (inp.getObjValAs? Bool "parentUnreadable").toOption.getD false
  let quiet := o.creates.isEmpty && o.deleted.isEmpty && o.labelAdds.isEmpty && o.labelRemoves.isEmpty
  let fs := spec fs "C11.no-pod-write-without-parent" (!parentUnreadable || quiet)
  let fs := spec fs "C08.sync-obeys-current-switches(parent unreadable)" (!parentUnreadable || quiet)
  let safety := ["SPEC C11.no-pod-write-without-parent", "SPEC C08.sync-obeys-current-switches", "SPEC C18.only-valid-setting-applied", "SPEC C10.api-pinned-meta", "SPEC C10.api-resources", "SPEC C01.api-", "SPEC C04.canary-creates-in-list",
    "SPEC C04.active-avoids-list", "SPEC C04.unknown-inert", "SPEC C04.label-only-own-ers", "SPEC C12.writes-owned",
    "SPEC C16.reconcile-no-crash(ERS)", "SPEC C10.sync-no-spurious-replace", "SPEC C03.holds(sync level", "SPEC C08.sync-paused-no-update-delete",
    "SPEC C08.sync-frozen-no-create", "SPEC C11.status-last", "SPEC C07.failed-mark-kept"]
  let fs := if readFault then fs.filter (fun t => safety.any (fun p => t.startsWith p)) else fs
  return fs

/-! ### parallel helpers (C17) -/
def hParallel (inp out : Json) : Except String Findings := do
  let helper : String ← get inp "helper"
  let pn : Bool ← get out "panic"
  let injected : Int ← get out "injected"
  let returned : Int ← get out "returned"
  let cond : String ← get out "cleanupCond"
  let agg : Bool ← get out "aggErr"
  let fs : Findings := #[]
  let fs := spec fs "C17.no-panic" (!pn)
  -- the model's account (EdsProps/C17: fan-in completeness): errors returned = failures injected
  let fs := if helper == "cleanupPods" then
      let fs := spec fs "C17.errors-complete(cleanup aggregate)" (agg == decide (injected > 0))
      spec fs "C17.cleanup-reflected" (injected == 0 || cond == "False")
    else spec fs s!"C17.errors-complete({helper})" (returned == injected)
  return fs

def hConcurrent (_inp out : Json) : Except String Findings := do
  let panics : Int ← get out "panics"
  return spec #[] "C17.no-panic-under-concurrency" (panics == 0)

/-! ### scenario: a sequence of reconcile steps on one evolving cluster, then quiescence -/
deriving instance FromJson for Spec.C02.PodView

structure ViewJ where
  pods : List Spec.C02.PodView
  nodes : List Node
  eds : EDS
  activeHash : String
  ers : List ERS
  deriving FromJson

def hQuiescent (inp out : Json) : Except String Findings := do
  let v : ViewJ ← get inp "view"
  let conv : Bool ← get out "converged"
  let rounds : Nat ← get out "rounds"
  let lastEds : String := (out.getObjValAs? String "lastEdsKind").toOption.getD "ok"
  let fs : Findings := #[]
  -- the premise of C02 is that API calls succeed and the reconcile does not report an error: a canary
  -- asking for more nodes than are eligible makes the EDS reconcile return an error (C15) and holds
  -- the rollout; such configurations are counted (category) but not judged here
  if lastEds != "ok" then return fs else
  let fs := spec fs s!"C02.converges(within {rounds} rounds)" conv
  if !conv then return fs else
  let fs := spec fs "C02.fixpoint" (Spec.C02.fixpoint v.eds v.nodes v.pods)
  let fs := spec fs "C02.live-template-active" (v.activeHash == v.eds.templateHash)
  let fs := spec fs "C14.quiescent" (Spec.C02.statusQuiescent v.eds v.nodes v.pods)
  -- once the rollout is over no daemon pod carries the canary label any more: the canary replica set
  -- became active (label removed by its first active syncs) or failed (its pods were replaced)
  let fs := spec fs "C04.label-off-at-quiescence" ((Spec.C02.ownPods v.eds v.pods).all (fun p => !p.canaryLabel))
  return fs

/-- C11: the faulted run, after recovery, reaches the same pods and status as the failure-free run
(modulo generated names and timestamps). -/
def viewKey (v : ViewJ) : String :=
  let own := Spec.C02.ownPods v.eds v.pods
  let pods := sortStrs (own.map (fun p => s!"{p.node}:{p.hash}:{p.ready}:{p.phase}:{p.terminating}"))
  let st := v.eds.status
  s!"pods={pods} spec={v.eds.templateHash} active={v.activeHash} d={st.desired} c={st.current} r={st.ready} a={st.available} u={st.upToDate} state={st.state} canary={flat st.canary} ann=[{smapStr v.eds.annotations}]"

def hSameFixpoint (inp out : Json) : Except String Findings := do
  let base : ViewJ ← get inp "baseline"
  let fv : ViewJ ← get inp "faulted"
  let conv : Bool ← get out "converged"
  let fs : Findings := #[]
  let fs := spec fs "C11.recovers(converges after the fault)" conv
  let fs := spec fs "C11.fixpoint-after-fault" (Spec.C02.fixpoint fv.eds fv.nodes fv.pods)
  let fs := if viewKey base == viewKey fv then fs else
    fs.push s!"SPEC C11.same-fixpoint faulted={viewKey fv} baseline={viewKey base}"
  return fs

structure StepJ where
  fn : String
  op : String
  «in» : Json
  out : Json
  /-- number of harness-side mutations of the store before this step -/
  env : Option Nat := none
  deriving FromJson

instance : Inhabited StepJ := ⟨{ fn := "", op := "", «in» := Json.null, out := Json.null }⟩

/-! ### L3 transition check: the world the cluster machine (`EdsModel/Cluster.lean`) predicts after a
reconcile step is the world the next reconcile of the same ExtendedDaemonSet actually read, whenever
only controller writes happened in between.  Compared up to timestamps and generated names (the
per-step handlers compare the written contents exactly): this validates the *apply* half of `step` —
what a status / spec / create / delete / label write does to the stored objects. -/

def condShape (c : Cond) : String := s!"{c.type}={c.status}[{c.reason}|{c.message}]"

def edsShape (d : EDS) : String :=
  let st := d.status
  s!"hash={d.templateHash} tn={d.templateName} ann=[{smapStr d.annotations}] strat={flat d.strategy} " ++
  s!"d={st.desired} c={st.current} r={st.ready} a={st.available} u={st.upToDate} i={st.ignored} state={st.state} " ++
  s!"active={st.activeReplicaSet} reason={st.reason} canary={flat st.canary} conds={st.conds.map condShape}"

def ersShape (e : ERS) : String :=
  s!"{e.ns}/{e.name} gen={e.templateGeneration} owner={e.ownerEds} labels=[{smapStr e.labels}] ann=[{smapStr e.annotations}] " ++
  s!"d={e.status.desired} c={e.status.current} r={e.status.ready} a={e.status.available} i={e.status.ignored} conds={e.status.conds.map condShape}"

def podShape (p : Pod) : String :=
  s!"{p.ns}/{(p.nodeOf).getD "?"}/{(SMap.get? p.annotations K.templateHashAnnot).getD "-"}/term={p.deletion.isSome}/canary={(SMap.get? p.labels K.canaryLabel).getD "-"}/ers={(SMap.get? p.labels K.ersNameLabel).getD "-"}"

def ownPodShapes (d : EDS) (pods : List Pod) : List String :=
  sortStrs ((pods.filter (fun p => p.ns == d.ns && SMap.get? p.labels K.edsNameLabel == some d.name)).map podShape)

structure StepWorld where
  w : World
  /-- the replica set the step reconciles (replica-set steps) -/
  rs : Option ERS
  /-- the step listed every replica set (daemonset steps) -/
  fullErs : Bool
  /-- the predicted next world, given the name the API server gave a created replica set.  Where the
  controller's choice depends on Go's map iteration order (which candidates fill a limited budget)
  the implementation's own choice is applied — the per-step handler has checked that it is admissible. -/
  next : Option String → World

def stepWorld (st : StepJ) : Except String (Option StepWorld) := do
  let inp := st.«in»
  let faulted : Bool := (inp.getObjValAs? Bool "faulted").toOption.getD false
  if faulted then return none else
  if st.fn == "eds_reconcile" then
    let d : EDS ← get inp "eds"
    let all : List ERS ← get inp "ers"
    let pods : List Pod ← get inp "pods"
    let nodes : List Node ← get inp "nodes"
    let mode : String ← get inp "defaultMode"
    let now : Time ← get inp "now"
    return some { w := { eds := d, erss := all, pods := pods, nodes := nodes, settings := [], daemonsets := [], now := now },
                  rs := none, fullErs := true,
                  next := fun nn => step { eds := d, erss := all, pods := pods, nodes := nodes, settings := [], daemonsets := [], now := now }
                                         (.reconcileEds (nn.getD "?new") mode) }
  else if st.fn == "ers_reconcile" then
    let rs : ERS ← get inp "ers"
    let d : EDS ← get inp "eds"
    let nodes : List Node ← get inp "nodes"
    let pods : List Pod ← get inp "pods"
    let settings : List Setting ← get inp "settings"
    let dss : List DsJ ← get inp "daemonsets"
    let aff : Bool ← get inp "affinity"
    let now : Time ← get inp "now"
    let inBackoff : List String := (inp.getObjValAs? (List String) "inBackoff").toOption.getD []
    let w : World := { eds := d, erss := [rs], pods := pods, nodes := nodes, settings := settings,
                       daemonsets := dss.map (fun x => { name := x.name, ns := x.ns, selector := x.selector }), now := now }
    let o : ErsOutJ ← fromJson? st.out
    let m := Cluster.ersWrites w rs (fun n => !inBackoff.contains n) aff
    -- the implementation's choice among the candidates
    let chosen : ErsWrites :=
      { m with
        creates := (m.createCands.filter (fun ni => o.creates.any (fun c => c.node == ni.node.name))).map
                     (fun ni => (ni.node.name, (createPod rs (some ni.node) ni.setting aff).pod)),
        deletes := o.deleted.filter (fun x => !m.cleanupDeletes.contains x) }
    return some { w := w, rs := some rs, fullErs := false,
                  next := fun _ => if d.ns == rs.ns then Cluster.applyErs w rs chosen else w }
  else return none

/-- findings of the transition from step `a` to the next step `b` of the same daemonset. -/
def transition (k : Nat) (a b : StepWorld) : Findings :=
  -- the name the API server gave a replica set created by step `a`
  let known := a.w.erss.map (·.name)
  let fresh := ((ownErs a.w.eds b.w.erss).filter (fun e => !known.contains e.name)).map (·.name)
  let w' := a.next fresh.head?
  let fs : Findings := #[]
  let tag := s!"L3.step{k}"
  let fs := diff fs s!"{tag}.eds" (edsShape b.w.eds) (edsShape w'.eds)
  let fs := diff fs s!"{tag}.pods" (ownPodShapes b.w.eds b.w.pods) (ownPodShapes w'.eds w'.pods)
  -- replica sets: everything both sides know about
  let own := fun (l : List ERS) => ownErs a.w.eds l
  if a.fullErs && b.fullErs then
    diff fs s!"{tag}.ers" (sortStrs ((own b.w.erss).map ersShape)) (sortStrs ((own w'.erss).map ersShape))
  else
    -- compare the replica sets the later step shows with the prediction for them, when predicted
    (own b.w.erss).foldl (fun fs e =>
      match w'.erss.find? (fun x => x.ns == e.ns && x.name == e.name) with
      | some x => diff fs s!"{tag}.ers({e.name})" (ersShape e) (ersShape x)
      | none => if a.fullErs then fs.push s!"DIFF {tag}.ers({e.name}) impl=present model=absent" else fs) fs

def sameEds (a b : StepWorld) : Bool := a.w.eds.ns == b.w.eds.ns && a.w.eds.name == b.w.eds.name

def transitions (steps : List StepJ) : Except String Findings := do
  let mut fs : Findings := #[]
  let arr := steps.toArray
  for k in [0:arr.size] do
    let sa := arr[k]!
    match (← stepWorld sa) with
    | none => pure ()
    | some a =>
      -- the next reconcile step of the same daemonset
      let mut j := k + 1
      let mut found : Option (StepJ × StepWorld) := none
      while j < arr.size && found.isNone do
        let sb := arr[j]!
        if sb.fn == "eds_reconcile" || sb.fn == "ers_reconcile" then
          -- a faulted step in between may have written anything: stop looking
          let faulted : Bool := (sb.«in».getObjValAs? Bool "faulted").toOption.getD false
          match (← stepWorld { sb with «in» := sb.«in».setObjVal! "faulted" (Json.bool false) }) with
          | some b => if sameEds a b then found := some (sb, b) else if faulted then j := arr.size else pure ()
          | none => pure ()
        j := j + 1
      match found with
      | some (sb, b) =>
        if sa.env.isSome && sa.env == sb.env then
          for f in transition k a b do fs := fs.push (f ++ s!" @step{k}[{sa.op}]->[{sb.op}]")
      | none => pure ()
  return fs

/-! ### metric families (C20 gauges) -/
structure SampleJ where
  family : String
  value : Int
  keys : List String
  values : List String
  frac : Bool
  deriving FromJson

def sampleStr (f : String) (v : Int) (ls : List (String × String)) : String :=
  s!"{f}={v}" ++ "{" ++ ",".intercalate (ls.map (fun p => p.1 ++ "=" ++ p.2)) ++ "}"

def compareSamples (fs : Findings) (what : String) (impl : List SampleJ) (model : List Sample) : Findings :=
  let implS := impl.filter (fun s => s.family != "eds_created" && s.family != "ers_created")
  let fs := diff fs s!"{what}.families" (implS.map (·.family)) (model.map (·.family))
  let fs := diff fs s!"{what}.samples" (implS.map (fun s => sampleStr s.family s.value (s.keys.zip s.values)))
              (model.map (fun s => sampleStr s.family s.value s.labels))
  let fs := spec fs s!"C20.{what}-label-arity" (impl.all (fun s => s.keys.length == s.values.length))
  spec fs s!"C20.{what}-integral" (impl.all (fun s => !s.frac))

def gauge (impl : List SampleJ) (family : String) : Option Int :=
  (impl.find? (fun s => s.family == family)).map (·.value)

def hMetrics (inp out : Json) : Except String Findings := do
  let d : EDS ← get inp "eds"
  let e : ERS ← get inp "ers"
  let pn : Bool ← get out "panic"
  let es : List SampleJ ← get out "eds"
  let rs : List SampleJ ← get out "ers"
  let fs : Findings := #[]
  let fs := diff fs "panic" pn false
  let fs := compareSamples fs "eds" es (edsSamples d)
  let fs := compareSamples fs "ers" rs (ersSamples e)
  -- the property, clause by clause: each series reports the status field of the same name
  let st := d.status
  let fs := spec fs "C20.eds-gauges" (Spec.C20.edsGauges st (gauge es))
  let et := e.status
  let fs := spec fs "C20.ers-gauges" (Spec.C20.ersGauges et (gauge rs))
  -- label-info series: same contract as BuildInfoLabels
  let info := fun (impl : List SampleJ) (family : String) (labels : SMap) =>
    match impl.find? (fun s => s.family == family) with
    | some s => Spec.C20.holds labels (s.keys.drop 2) (s.values.drop 2) && s.keys.take 2 == ["namespace", "name"]
    | none => false
  let fs := spec fs "C20.info-labels" (info es "eds_labels" d.labels && info rs "ers_labels" e.labels)
  return fs

/-! ### setting rounds (C18: every setting reconciled once, in two orders) -/
structure SettingStatusJ where
  name : String
  status : String
  error : String
  deriving FromJson

def hSettingRounds (inp out : Json) : Except String Findings := do
  let settings : List Setting ← get inp "settings"
  let nodes : List Node ← get inp "nodes"
  let a1 : List SettingStatusJ ← get out "after1"
  let a2 : List SettingStatusJ ← get out "after2"
  let pn : Bool ← get out "panic"
  let foreign : List String ← get out "foreign"
  let fs : Findings := #[]
  let fs := spec fs "C16.reconcile-no-crash(Setting)" (!pn)
  if pn then return fs else
  let statusOf (l : List SettingStatusJ) (n : String) : String :=
    match l.find? (fun x => x.name == n) with | some x => x.status ++ "|" ++ x.error | none => "?"
  -- model: the status is a function of the specs and the nodes only
  let fs := settings.foldl (fun fs s =>
      let m := settingReconcile s nodes settings
      let fs := diff fs s!"after1({s.name})" (statusOf a1 s.name) (m.1 ++ "|" ++ m.2)
      diff fs s!"after2({s.name})" (statusOf a2 s.name) (m.1 ++ "|" ++ m.2)) fs
  let validIn (l : List SettingStatusJ) (s : Setting) : Bool :=
    match l.find? (fun x => x.name == s.name) with | some x => x.status == "valid" | none => false
  let exclusive (l : List SettingStatusJ) : Bool :=
    nodes.all (fun n =>
      ((settings.filter (fun s => validIn l s && settingMatches s n.labels == some true)).length ≤ 1))
  let fs := spec fs "C18.mutual-exclusion(after one reconcile each)" (exclusive a1 && exclusive a2)
  let fs := spec fs "C18.order-independent" (settings.all (fun s => statusOf a1 s.name == statusOf a2 s.name))
  let fs := spec fs "C18.no-reference-or-bad-selector-in-error" (settings.all (fun s =>
      !((s.reference.getD "") == "" || s.badSelector) || !validIn a1 s))
  let fs := spec fs "C12.writes-owned(setting)" foreign.isEmpty
  -- a reconcile that could not read the nodes or the other settings never turns a setting valid
  let faultedValid : Bool := (out.getObjValAs? Bool "faultedValid").toOption.getD false
  let fs := spec fs "C18.read-fault-never-validates" (!faultedValid)
  return fs

/-! ### PodTemplate controller (C13, last clause) -/
deriving instance FromJson for PodTpl

def podTplStr (p : PodTpl) : String :=
  s!"name={p.name} ns={p.ns} labels=[{smapStr p.labels}] ann=[{smapStr p.annotations}] hash={p.templateHash} owner={flat p.ownerEds} tpl={flat p.template}"

def hPodTemplate (inp out : Json) : Except String Findings := do
  let d : EDS ← get inp "eds"
  let consistent : Bool ← get inp "consistent"
  let cur : Option PodTpl := (inp.getObjValAs? PodTpl "cur").toOption
  let kind : String ← get out "kind"
  let write : String ← get out "write"
  let written : Option PodTpl := (out.getObjValAs? PodTpl "written").toOption
  let after : Option PodTpl := (out.getObjValAs? PodTpl "after").toOption
  let foreign : List String ← get out "foreign"
  let second : Nat ← get out "secondWrites"
  let fs : Findings := #[]
  let fs := spec fs "C16.reconcile-no-crash(PodTemplate)" (kind != "panic")
  if kind == "panic" then return fs else
  let m := reconcilePodTemplate d cur
  let (mw, mo) := match m with
    | .none => ("none", (none : Option PodTpl))
    | .create p => ("create", some p)
    | .update p => ("update", some p)
  let fs := diff fs "kind" kind "ok"
  let fs := diff fs "write" write mw
  let fs := diff fs "written" (written.map podTplStr) (mo.map podTplStr)
  let fs := diff fs "after" (after.map podTplStr) ((m.apply cur).map podTplStr)
  -- specification on the implementation's own writes and on the store it leaves
  let fs := spec fs "C12.writes-owned(podtemplate)" foreign.isEmpty
  let fs := match written with
    | some p => spec fs "C13.podtemplate-write-faithful"
        (p.name == d.name && p.ns == d.ns && p.templateHash == d.templateHash && flat p.template == flat d.template
         && SMap.get? p.annotations K.templateHashAnnot == some d.templateHash && p.ownerEds == some d.name)
    | none => fs
  let fs := if consistent || written.isSome then
      spec fs "C13.podtemplate-mirrors" (match after with
        | some p => p.templateHash == d.templateHash && SMap.get? p.annotations K.templateHashAnnot == some d.templateHash
        | none => false)
    else fs
  let fs := spec fs "C13.podtemplate-no-loop" (second == 0)
  return fs

def handlers : List (String × (Json → Json → Except String Findings)) := [
  ("podtemplate", hPodTemplate),
  ("setting_rounds", hSettingRounds),
  ("limits", hLimits),
  ("max_creation", hMaxCreation),
  ("manage_deployment", hManageDeployment),
  ("select_current", hSelectCurrent),
  ("manage_canary", hManageCanary),
  ("manage_unknown", hManageUnknown),
  ("labels", hLabels),
  ("defaults", hDefaults),
  ("setting_conflict", hSettingConflict),
  ("fitness", hFitness),
  ("filter", hFilter),
  ("create_pod", hCreatePod),
  ("node_hash", hNodeHash),
  ("select_nodes", hSelectNodes),
  ("cli", hCli),
  ("eds_reconcile", hEdsReconcile),
  ("ers_reconcile", hErsReconcile),
  ("parallel", hParallel),
  ("metrics", hMetrics),
  ("concurrent_reconcile", hConcurrent)
]

/-- Under a fault the step's writes are a subset of the planned ones: safety clauses still apply,
"this write must happen" clauses and the exact status do not.  The C09 stamp is owed whenever the
process survived (an API error on a pod write does not excuse it: the status write still happens). -/
def underFault (inp : Json) (fsk : Findings) : Findings :=
  let faulted : Bool := (inp.getObjValAs? Bool "faulted").toOption.getD false
  let crashed : Bool := (inp.getObjValAs? Bool "crashed").toOption.getD false
  if !faulted then fsk else
  fsk.filter (fun f =>
    let completeness := (["SPEC C07.rollback-writes", "SPEC C07.rollback-spec-restored", "SPEC C14.", "SPEC C16.no-default-loop"].any (fun pre => f.startsWith pre))
      || (crashed && f.startsWith "SPEC C09.stamp")
    !(f.startsWith "DIFF" || completeness))

/-- a scenario line carries the steps of one simulation; each step is checked by its own handler.
Steps run under an injected fault keep their specification findings but not their DIFFs (the model
describes the fault-free writes). -/
def hScenario (_inp out : Json) : Except String Findings := do
  let steps : List StepJ ← get out "steps"
  let mut fs : Findings := #[]
  let mut k := 0
  for st in steps do
    let h := if st.fn == "quiescent" then some hQuiescent
             else if st.fn == "same_fixpoint" then some hSameFixpoint else handlers.lookup st.fn
    match h with
    | none => fs := fs.push s!"DIFF step{k} unknown fn {st.fn}"
    | some h =>
      match h st.«in» st.out with
      | .error e => fs := fs.push s!"DIFF step{k} bad-op {e}"
      | .ok fsk =>
        for f in underFault st.«in» fsk do
          fs := fs.push (f ++ s!" @step{k}[{st.op}]")
    k := k + 1
  for f in (← transitions steps) do fs := fs.push f
  return fs

def handleLine (line : String) : String :=
  match Json.parse line with
  | .error e => s!"bad-op parse: {e}"
  | .ok j =>
    match (do
      let fn : String ← get j "fn"
      let id : Nat ← get j "id"
      let inp ← j.getObjVal? "in"
      let out ← j.getObjVal? "out"
      match (if fn == "scenario" then some hScenario else handlers.lookup fn) with
      | none => throw s!"unknown fn {fn}"
      | some h =>
        let fs ← h inp out
        let fs := if fn == "scenario" then fs else underFault inp fs
        pure (id, fs) : Except String (Nat × Findings)) with
    | .error e => s!"bad-op {e}"
    | .ok (id, fs) =>
      if fs.isEmpty then s!"{id} ok" else s!"{id} " ++ " | ".intercalate fs.toList

end Eds.Driver
