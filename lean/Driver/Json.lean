import Lean.Data.Json
import EdsModel
/-
  Driver.Json — JSON decoders derived from the model's own structures.
-/
open Lean
namespace Eds

deriving instance FromJson, ToJson for KV
deriving instance FromJson, ToJson for IntOrStr
deriving instance FromJson, ToJson for Taint
deriving instance FromJson, ToJson for Toleration
deriving instance FromJson, ToJson for Req
deriving instance FromJson, ToJson for Term
deriving instance FromJson, ToJson for LabelSelector
deriving instance FromJson, ToJson for Resources
deriving instance FromJson, ToJson for Container
deriving instance FromJson, ToJson for Override
deriving instance FromJson, ToJson for Node
deriving instance FromJson, ToJson for Template
deriving instance FromJson, ToJson for LastTerm
deriving instance FromJson, ToJson for ContainerStatus
deriving instance FromJson, ToJson for PodCond
deriving instance FromJson, ToJson for OwnerRef
deriving instance FromJson, ToJson for Pod
deriving instance FromJson, ToJson for Cond
deriving instance FromJson, ToJson for ERSStatus
deriving instance FromJson, ToJson for ERS
deriving instance FromJson, ToJson for RollingUpdate
deriving instance FromJson, ToJson for AutoPause
deriving instance FromJson, ToJson for AutoFail
deriving instance FromJson, ToJson for Canary
deriving instance FromJson, ToJson for Strategy
deriving instance FromJson, ToJson for CanaryStatus
deriving instance FromJson, ToJson for EDSStatus
deriving instance FromJson, ToJson for EDS
deriving instance FromJson, ToJson for Setting
deriving instance FromJson, ToJson for NodeItem
deriving instance FromJson, ToJson for LimitParams

end Eds
