import Driver.Json
import Driver.Main
