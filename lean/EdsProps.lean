import EdsProps.C03
