"""Per-property configuration of ./check: correspondence streams (name, quick cases, thorough cases),
partial labels, assumptions.  The theorems of property Cxx are exactly the `theorem`s of
lean/EdsProps/Cxx.lean."""

COMMON_ASSUME = [
    "Go int/int32 modelled as unbounded Int (values in the streams stay far below 2^31)",
    "reads are consistent snapshots (controller-runtime fake client); informer cache staleness is not modelled",
]

TB = "Trusted: Lean 4.33 kernel (axioms audited per theorem: at most propext, Classical.choice, Quot.sound), tools/extract, the harness/driver comparison and its generators (differential testing: a change no generated input exposes is not seen). "

HOOK_COMMITS = ["856b7ec"]

NOT_APPLICABLE = []

PROPS = {
    "C03": {
        "extra_theorems": [("EdsProofs.FactsBridge", "facts_times")],
        "level_text": 'Lean theorems C03_budget / C03_cap / C03_unavailable_first / C03_percent / C03_paused_no_delete for every list of targeted nodes (any length, any order = any Go map iteration order), every strategy and clock, about the model of ManageDeployment; the budget kernel is the translated limits.go (C03_kernel_is_source). Tied to the code by differential execution of the real ManageDeployment and CalculatePodToCreateAndDelete on every run.',
        "level_note": TB + 'Modelled by hand (tied by correspondence, not verified): the ManageDeployment loop and pod classification. Assumes float64 ceil = integer ceil below 2^45 and minReadySeconds = 0.',
        "streams": [("limits", 3000, 60000), ("manage_deployment", 1500, 30000), ("ers_reconcile", 1500, 30000)],
        "replay_attempts": 40,
        "trusted_base": [
            "model of ManageDeployment (lean/EdsModel/Rolling.lean) written by hand from rollingupdate.go; tied by the manage_deployment stream",
            "limits.go is translated (Generated/Limits.lean) and proved equal to the clamp form (C03_kernel_is_source)",
            "float64 Ceil(v*total/100) equals the integer ceiling for |v*total| < 2^45",
        ],
        "assumptions": COMMON_ASSUME + ["minReadySeconds is 0 at every call site, so availability = Ready condition"],
    },
    "C05": {
        "extra_theorems": [("EdsProofs.FactsBridge", "facts_keys")],
        "level_text": "Lean theorems C05_only_if (promotion away from an existing active replica set implies the statement's rule, for every strategy/annotations/conditions/clock), C05_failed_never_by_time, C05_manual_never_by_time, C05_paused_never_by_time, C05_valid_promotes, C05_adopt_when_missing, C05_no_canary, C05_requeue about the model of selectCurrentReplicaSet; tied to the code by running the real function on the full combination lattice with exact instants (-1ns/0/+1ns around both durations).",
        "level_note": TB + 'Modelled by hand: selectCurrentReplicaSet and the annotation/condition readers. Assumes the spec passed the CRD enum and ValidateExtendedDaemonSetSpec, as Reconcile guarantees before selecting.',
        "streams": [("select_current", 4000, 80000), ("eds_reconcile", 1500, 30000)],
        "trusted_base": [
            "model of selectCurrentReplicaSet / IsCanaryDeployment{Ended,Paused,Valid,Failed} (lean/EdsModel/EdsCtl.lean, CanaryPred.lean) written by hand from controller.go / utils.go; tied by the select_current stream (exact instants: duration and noRestartsDuration at -1ns/0/+1ns)",
            "time.Time.Sub saturation is not modelled (differences stay far below 2^63 ns)",
        ],
        "assumptions": COMMON_ASSUME + ["spec passed the CRD schema (validationMode is auto or manual) and ValidateExtendedDaemonSetSpec (no duration in manual mode), as Reconcile guarantees before selecting"],
    },
    "C16": {
        "extra_theorems": [("EdsProofs.FactsBridge", "facts_defaults")],
        "level_text": "Lean theorems about the model of Default*/IsDefaulted*/Validate* (C16_validate_total: validation of a defaulted spec never dereferences nil; further defaulting theorems as they land) for every spec of the model's type; the real Default, IsDefaulted and Validate run with recover() over the boundary lattice of every strategy field and are compared with the model, and the specification predicates (recognised, idempotent, preserves-user, fills, no-crash) are evaluated on the real outputs.",
        "level_note": TB + 'Modelled by hand: the defaulting and validation functions; the CRD schema is transcribed by hand into the generators. Coverage-guided fuzzing named in the quantifier is outside this technique.',
        "streams": [("defaults", 4000, 120000), ("max_creation", 2000, 40000), ("eds_reconcile", 1000, 20000), ("ers_reconcile", 1000, 20000), ("manage_deployment", 800, 15000), ("create_pod", 800, 15000), ("podtemplate", 500, 5000), ("setting_rounds", 500, 5000)],
        "trusted_base": [
            "model of Default*/IsDefaulted*/ValidateExtendedDaemonSetSpec (lean/EdsModel/Defaults.lean) written by hand; tied by the defaults stream over the boundary lattice of every strategy field with recover() around the real functions",
            "CRD schema constraints are transcribed by hand into the generators (validationMode enum, pointer optionality)",
        ],
        "partial": ["coverage-guided fuzzing of the serialized spec named in the quantifier is outside this technique; the lattice product is sampled (quick) / widely sampled (thorough)"],
        "assumptions": COMMON_ASSUME,
    },
    "C18": {
        "extra_theorems": [("EdsProps.C18b", "C18_")],
        "level_text": 'Lean theorems C18_missing_reference_error and C18_only_valid_used (the setting attached to a node is valid, references this ExtendedDaemonSet, matches the node; at most one per node by construction), with mutual exclusion / order independence theorems as they land; the real searchPossibleConflict runs on populations of <= 4 settings x <= 4 labelled nodes in shuffled list order against the model, and the lonely-valid clause is evaluated on its output.',
        "level_note": TB + "Modelled by hand: searchPossibleConflict, the setting Reconcile status function and getNodeList's choice; label-selector matching re-implemented in the model.",
        "streams": [("setting_conflict", 4000, 80000), ("ers_reconcile", 1500, 30000), ("setting_rounds", 3000, 40000)],
        "trusted_base": [
            "model of searchPossibleConflict / setting Reconcile / getNodeList setting choice (lean/EdsModel/SettingCtl.lean) written by hand; tied by the setting_conflict stream (<= 4 settings x <= 4 labelled nodes, shuffled list order)",
            "metav1.LabelSelectorAsSelector / labels.Selector.Matches re-implemented in the model (In, NotIn, Exists, DoesNotExist)",
        ],
        "assumptions": COMMON_ASSUME + ["setting names are unique within a namespace (API server)"],
    },
    "C20": {
        "level_text": 'Lean theorems C20_pairs (the label-info pairs are a permutation of {(sanitize k, v)} for every label map, including colliding keys and the empty map), C20_lengths, C20_sanitize_legal, C20_sanitize_id; the real BuildInfoLabels / sanitizeLabelName run on label maps with dots, slashes, dashes, collisions, non-ASCII and nil maps against the model.',
        "level_note": TB + 'Modelled by hand: BuildInfoLabels and the sanitiser (Go regexp replaced rune-wise). The gauge families of metrics.go are compared with status fields by the metrics stream when registered.',
        "streams": [("labels", 3000, 60000), ("metrics", 2000, 40000)],
        "trusted_base": [
            "model of BuildInfoLabels / sanitizeLabelName (lean/EdsModel/Metrics.lean) written by hand; tied by the labels stream (dots, slashes, dashes, colliding keys, empty and nil maps, non-ASCII)",
            "Go regexp [^a-zA-Z0-9_] replaced rune-wise; Lean's Char.isAlphanum restricted to ASCII",
        ],
        "assumptions": COMMON_ASSUME,
    },
    "C08": {
        "level_text": "Lean theorems C08_paused_no_update_delete, C08_frozen_nothing, C08_resume, C08_sync, C08_flags, C08_paused_not_promoted, C08_validate_overrides_pause, C08_pause_sources, C08_state, C08_canary_state for every counter state / annotation map / replica-set status, about the models of ManageDeployment, selectCurrentReplicaSet, nonCanaryState and manageStatus; canary-side clauses (no creation while paused or failed, resume on unpause incl. the zero-pod case) are proved in EdsProps/C06. Tied by the manage_deployment, manage_canary and select_current streams over every annotation value (absent, true, false, junk) and rollout state.",
        "level_note": TB + "Modelled by hand: ManageDeployment, manageCanaryStatus, selectCurrentReplicaSet, manageStatus. Toggling histories across reconciles are covered by the scenario streams when registered.",
        "streams": [("manage_deployment", 1500, 30000), ("manage_canary", 2500, 50000), ("select_current", 2000, 40000), ("ers_reconcile", 3000, 30000)],
        "extra_theorems": [("EdsProofs.FactsBridge", "facts_keys"), ("EdsProofs.FactsBridge", "facts_states"), ("EdsProps.C06", "C08_")],
        "trusted_base": ["hand-written models of ManageDeployment / manageCanaryStatus / selectCurrentReplicaSet / manageStatus tied by three function streams"],
        "assumptions": COMMON_ASSUME,
    },
    "C09": {
        "level_text": "Lean theorems C09_ramp (the cap is min(maxParallelPodCreation, (1+floor(t/interval))*increase) for every positive interval and t >= 0, percentages rounding up), C09_ramp_ref, C09_create_bound, C09_sync_create_bound, C09_delete_bound, C09_start_time about the model; the real calculateMaxCreation is run at exact instants (slot boundary -1ns/0/+1ns, negative elapsed time, zero/negative interval) and ManageDeployment's create list is bounded against the reference formula on every case. C09_gate / C09_stamp / C09_spacing (EdsProps/C09b): a sync gated by LastFullSync issues no write at all, a full sync stamps LastFullSync with its own instant, hence two write-issuing syncs of one replica set are at least reconcileFrequency apart; the real Reconcile is compared with the model on the ers_reconcile stream (gate and stamp clauses evaluated on its writes).",
        "level_note": TB + "Modelled by hand: calculateMaxCreation, getRollingUpdateStartTime, the create-list cap; limits.go is translated. Spacing of syncs (LastFullSync gate) is a property of Reconcile, covered at scenario level.",
        "streams": [("max_creation", 3000, 60000), ("limits", 2000, 40000), ("manage_deployment", 1500, 30000), ("ers_reconcile", 1500, 30000)],
        "extra_theorems": [("EdsProps.C09b", "C09_")],
        "trusted_base": ["Go's truncating Duration division = Int.tdiv; calculateMaxCreation model tied by the max_creation stream"],
        "partial": ["persisted timestamps have one-second resolution (metav1.Time): the spacing theorem is about the model's untruncated instants, the statement allows for that second"],
        "assumptions": COMMON_ASSUME,
    },
    "C06": {
        "extra_theorems": [("EdsProofs.FactsBridge", "facts_reason_tables"), ("EdsProofs.FactsBridge", "facts_keys")],
        "level_text": "Lean theorems C06_failed_iff (Canary-Failed after the sync = failed before, or auto-fail enabled and some evaluated pod exceeds maxRestarts / the recorded restart span exceeds maxRestartsDuration / the canary outlasted canaryTimeout), C06_failed_sticky, C06_paused_iff (while not failed: paused = not unpaused and (paused before or some pod fires an auto-pause trigger), for pod vectors of ANY length and order), C06_unpause_never_unfails, C06_disabled_never_fire, C06_condition_failed_written / C06_condition_paused_written (the conditions persisted equal the flags), C06_blocks_creation, C06_empty_unpause_override, about the model of manageCanaryStatus / manageCanaryPodFailures; the real function runs through a now-taking shim on pod vectors with restart counts at threshold-1/0/+1 for both thresholds, waiting reasons in and out of the cannot-start table, start times at +-1ns of maxSlowStartDuration, all enabled combinations and previous condition states, compared field by field (all conditions, reasons, messages) with the model.",
        "level_note": TB + "Modelled by hand: manageCanaryStatus, manageCanaryPodFailures, HighestRestartCount, MostRecentRestart, CannotStart, PendingCreate (the reason tables are extracted from the source and proved equal to the model's, FactsBridge). A pod with a waiting reason and no status.startTime panics in the real code (kubelet never produces it); the model returns none there and the theorems are stated for non-panicking runs.",
        "streams": [("manage_canary", 5000, 120000)],
        "trusted_base": ["hand-written model of manageCanaryStatus/manageCanaryPodFailures tied by the manage_canary stream (5000 cases agree on every output field)"],
        "partial": ["C06_restart_timeline (history invariant on the PodRestarting condition across syncs) is not yet stated"],
        "assumptions": COMMON_ASSUME + ["pods carry status.startTime whenever a container is waiting (kubelet-consistent)"],
    },
    "C10": {
        "level_text": "Lean theorems about the model of CreatePodFromDaemonSetReplicaSet / ReplaceNodeNameNodeAffinity / compareCurrentPodWithNewPod (pinning, metadata, resource resolution, round trip create->compare, detection of template / annotation / setting-value changes) for every template, node, setting and both node-assignment modes; the real constructor and the real comparison run on rich templates (affinity terms with matchFields, tolerations, several containers), nodes with well-formed / malformed / foreign override annotations and settings, the created pod is compared field by field with the model's, and the comparison is re-run on single-field perturbations.",
        "level_note": TB + "Modelled by hand: pod construction, affinity rewriting, the three-part comparison. MD5 hashes are opaque strings computed by the real functions in the harness (template hash; node override hash, whose defining property 'equal iff the (ns,eds)-prefixed sub-maps are equal' is checked by the node_hash stream); json.Unmarshal of override annotations and resource.Quantity comparison are done by the harness (quantities canonicalised to milli-values). Templates whose required node affinity has zero terms are rejected by the API server and excluded from the pinning clause.",
        "streams": [("create_pod", 3000, 60000), ("node_hash", 1000, 20000), ("fitness", 1000, 20000), ("ers_reconcile", 2000, 30000)],
        "extra_theorems": [("EdsProofs.FactsBridge", "facts_tolerations"), ("EdsProofs.FactsBridge", "facts_keys")],
        "trusted_base": ["hand-written model of pod construction/comparison tied by the create_pod stream; MD5 collision freedom on the objects at hand"],
        "assumptions": COMMON_ASSUME + ["container names are unique within a pod template and within a setting (API validation for pods; by convention for settings)"],
    },
    "C15": {
        "extra_theorems": [("EdsProps.C15b", "C15_")],
        "level_text": "Metamorphic theorem C15_invalid_previous_irrelevant (+ _of_nodup, C15_kept_eq_filter_iff, C15_kept_count; EdsProps/C15b): a previously selected node that is listed but no longer fit has no influence on the outcome -- selectNodes equals selectNodes on the list without such names (needs only that no such name occurs more often in the list than there are such nodes, e.g. a duplicate-free list; the counterexample without it is proved as C15_invalid_previous_needs_hyp); evaluated on the real selectNodes as clause C15.invalid-previous-irrelevant. Lean theorems about the model of selectNodes: C15_distinct, C15_new_valid, C15_removed_only_unfit / C15_kept_prefix / C15_keep_order / C15_keep (still-valid nodes kept in order, additions after them), C15_short_iff / C15_never_exceeds / C15_reaches_request / C15_count (error iff short, never beyond the request through the controller's own choice), C15_percent / C15_request_resolved_against_targeted, C15_error_if_short / C15_reconcile_error (the reconcile returns an error and writes no status), C15_all_valid_if_listed (the complement of known finding F6a), C15_least_restarts (every added node has no more restarts than any listed fit node left out), C15_spread (anti-affinity quota) for every node population, pod restart history, replicas value, node selector, anti-affinity keys and previously selected list; the real selectNodes runs against a fake API server holding the nodes and pods and its result is compared with the model's and with the specification clauses (distinct, new-valid, keep, count, all-valid).",
        "level_note": TB + "Modelled by hand: selectNodes (restart-ordered candidates, anti-affinity quota, fitness). Go's sort.Slice is an insertion sort (stable) for <= 12 elements, which is what the stream uses; larger populations are compared up to the specification clauses only. The trigger (when the EDS reconcile calls selectNodes) is covered by the eds_reconcile stream.",
        "streams": [("select_nodes", 3000, 60000), ("fitness", 1000, 20000), ("scenario", 30, 800)],
        "trusted_base": ["hand-written model of selectNodes tied by the select_nodes stream; label-selector conversion re-implemented in the model"],
        "assumptions": COMMON_ASSUME + ["node names are unique (API server)"],
    },
    "C01": {
        "level_text": "Store-level invariant (EdsProps/C01b, about the whole sync reconcileErs): C01_sync_creates_nodup (one creation per node in a sync), C01_sync_creates_only_on_empty_nodes (a creation coexists only with Unknown pods or with a Failed pod on a node out of back-off, which the same sync deletes), C01_sync_preserves_one_per_node (+ _role, _hard: if every node carries at most one live daemon pod before, it does after the API server applied the sync's creations and deletions; every role), C01_syncs_preserve_one_per_node (any sequence of syncs), C01_concurrent_syncs_preserve_one_per_node (two different replica sets syncing from the same snapshot), each hypothesis shown necessary by a decide-checked counterexample. Lean theorems C01_keys / C01_fit_unfold (the per-node map's keys are exactly the listed, non-ignored nodes satisfying nodeSelector, required affinity incl. matchFields, and NoSchedule/NoExecute taints vs template + default tolerations), C01_kept_none (a node has no kept pod only if every pod on it is Unknown or a released Failed pod being deleted), C01_dup_resolution(_strict) (kept pod = first under scheduled/oldest/name, all other live pods deleted), C01_ineligible_deleted, C01_unknown_untouched, C01_create_only_empty / C01_create_nodup (active role), C01_canary_create_only_empty / _nodup, C01_unknown_role_creates_nothing, C01_creation_sound / C01_creation_once / C01_roles_disjoint, and C01_holds (the decidable contract Spec.C01.holds is true of the model's output) for every node set, template, pod multiset, ignore list and back-off state; the real CheckNodeFitness, FilterAndMapPodsByNode (real Reconciler with seeded back-off), ManageDeployment and manageCanaryStatus run against the model and the same Spec.C01 clauses are evaluated on their outputs.",
        "level_note": TB + "Modelled by hand: CheckNodeFitness (label/field selector and toleration semantics of apimachinery re-implemented), FilterAndMapPodsByNode incl. the sequential effect of the failed-pod back-off within one sync, sort.Sort as insertion sort under a strict total order given unique pod names. The statement 'every interleaving of syncs with kubelet/user actions' is covered by quantifying over every store the sync may read; API-level Create/Delete calls are tied by the ers_reconcile stream when registered.",
        "streams": [("filter", 3000, 60000), ("fitness", 3000, 60000), ("manage_deployment", 1000, 20000), ("manage_canary", 1000, 20000), ("ers_reconcile", 1500, 30000)],
        "extra_theorems": [("EdsProofs.FactsBridge", "facts_tolerations"), ("EdsProps.C01b", "C01_")],
        "trusted_base": ["hand-written models of CheckNodeFitness / FilterAndMapPodsByNode tied by the fitness and filter streams; labels.Selector / fields.Selector / Toleration.ToleratesTaint semantics re-implemented in the model"],
        "assumptions": COMMON_ASSUME + ["node names and pod names are unique (API server)", "label keys/values in selectors are syntactically valid (not modelled: labels.NewRequirement key/value validation)"],
    },
    "C12": {
        "level_text": "Lean theorems C12_lists_scoped / C12_list_sites_known (obligations on the client.List call sites extracted from the Go source on this run: every list of replica sets, pods or settings carries a namespace option), C12_deletes_owned, C12_create_owned (every replica set the EDS reconcile deletes or creates is in its namespace, carries its name label, is owned by it) about the model of the EDS Reconcile; the real Reconcile runs against a fake API server populated with replica sets and pods of a same-named EDS in another namespace and of another EDS in the same namespace, every write is intercepted and classified own/foreign, and the writes are compared with the model's.",
        "level_note": TB + "Modelled by hand: the EDS Reconcile as store -> writes (ReconcileEds.lean). The list-site facts come from tools/extract (syntactic: option composite literals and InNamespace calls reaching the List call). Pod-level writes of the replica-set controller: C12_ers_writes_owned / C12_ers_creates_owned / C12_ers_counts_own (EdsProps/C12b) on the model of its Reconcile, tied by the ers_reconcile stream with foreign-namespace, other-EDS, old-DaemonSet and overlapping-label stray pods.",
        "streams": [("eds_reconcile", 2500, 40000), ("ers_reconcile", 2500, 40000), ("podtemplate", 500, 5000), ("setting_rounds", 500, 5000)],
        "extra_theorems": [("EdsProofs.FactsBridge", "facts_keys"), ("EdsProps.C12b", "C12_")],
        "trusted_base": ["tools/extract list-site facts; hand-written L2 model of the EDS Reconcile tied by the eds_reconcile stream (fake client = consistent reads)"],
        "assumptions": COMMON_ASSUME,
    },
    "C19": {
        "level_text": "Lean theorems C19_frame (only the documented annotation keys change, for every annotation map), C19_refuses / C19_refuses_already / C19_acts / C19_patch_iff (exact acceptance condition per command), C19_writes, C19_fail_targets_canary_ers, and the interpretation theorems composing the command with the controller model: C19_pause_state (-> Canary Paused), C19_unpause_annotations (-> Canary), C19_validate_exact (promotes exactly the replica set named when the command ran, never a later one), C19_fail_rollback / C19_fail_reads (the failure as the controller reads it), C19_rupause_stops_updates / C19_freeze; the real run() bodies execute through shims against a fake API server, the object diff before/after every command is compared with the model and with the frame / refusal / documented-value clauses; the extractor's facts on which annotation keys and client verbs each run() uses are proof obligations (facts_plugin_writes).",
        "level_note": TB + "Modelled by hand: the eight command bodies as functions of the object they read (Cli.lean). Sequences of up to three commands followed by reconciles are covered by composing these theorems with the controller theorems (C05, C06, C07, C08) rather than by enumeration.",
        "adopt": ["C05", "C08"],
        "streams": [("cli", 4000, 80000), ("select_current", 2000, 40000), ("eds_reconcile", 1500, 30000)],
        "extra_theorems": [("EdsProofs.FactsBridge", "facts_plugin_writes"), ("EdsProofs.FactsBridge", "facts_keys")],
        "trusted_base": ["hand-written model of the kubectl-eds run() bodies tied by the cli stream; merge-patch semantics of the fake client"],
        "assumptions": COMMON_ASSUME + ["annotation maps have unique keys (Go maps)"],
    },
    "C17": {
        "level_text": "Partial by nature. Lean theorems about a sequentially consistent interleaving model of the three parallel helpers (EdsModel/Conc.lean): C17_channel_fanin_complete and C17_locked_append_complete (for every number of goroutines, every failure subset and EVERY schedule, the errors collected are a permutation of the errors injected: none lost, none duplicated), C17_sync_prefix_safe, C17_unsynchronised_loses (the unguarded read-modify-write append does lose an error under some schedule), C17_racy_never_invents, C17_progress; which discipline each helper follows is not hand-written: C17_no_conflict / C17_helpers_known are obligations on the goroutine-write facts extracted from the source on this run (every write to a shared variable inside a go func is a channel send or an append under a lock). Supporting evidence: the harness is built with -race and runs the real helpers with none/some/all of 2..64 simultaneous calls failing, and the four reconcilers plus a kubelet model concurrently against one store; returned errors are counted against injected ones and any race-detector report is a violation.",
        "level_note": TB + "Data-race freedom of the compiled program under the Go memory model is a runtime fact no executable Lean model exhibits: the theorems are about the extracted synchronisation skeleton at the granularity 'one statement = one step'; the race detector only sees the interleavings that happen. 'Reflected in ReconcileError or PodsCleanupDone' is checked on the real cleanupPods and, through the ers_reconcile stream, on the persisted status.",
        "streams": [("parallel", 600, 6000), ("concurrent_reconcile", 40, 400)],
        "race": True,
        "partial": ["data-race freedom under the Go memory model is observed (race detector), not proved", "C17_reflected at L2 (failures of parallel operations set ReconcileError in the persisted status) is checked by streams, not yet stated as a theorem"],
        "trusted_base": ["tools/extract goroutine-write facts (syntactic lock tracking inside go func literals)", "Go race detector (supporting evidence)"],
        "assumptions": COMMON_ASSUME + ["sequential consistency at statement granularity for the interleaving model"],
    },
    "C07": {
        "level_text": "Lean theorems on the model of the EDS Reconcile: C07_active_unchanged (a failed canary is never promoted), C07_rollback_status / C07_rollback_writes (status.canary cleared, state Canary Failed, activeReplicaSet unchanged, then spec.template restored to the active replica set's template, status write before spec write), C07_recoverable (+ _after_status_write, _spec_write_even_if_status_current: the spec write is planned again from ANY status the first write may have left, so the rollback completes if the spec write failed or the controller stopped between the two writes), C07_after_rollback_converged, C07_retention / C07_failed_kept / C07_retention_is_two_minutes (a failed replica set is deleted only when it reports no pods and at least the extracted 2-minute retention after it failed), C07_canary_cleared; on the replica-set side (EdsProps/C07b) C07_failed_mark_kept / _unchanged / _kept_read (a replica set that is neither active nor canary keeps Canary-Failed=True in whatever status its sync writes: the mark is the only memory of the failure between the two rollback writes and during the retention) and C07_failed_mark_cleared_active; the real Reconcile runs against a fake API server over replica-set populations with failed canaries at every age around the retention bound and its writes (order, targets, contents) are compared with the model's.",
        "level_note": TB + "Modelled by hand: the EDS Reconcile as store -> ordered writes. 'Subsequently replaces the canary pods by pods of the active template' is the replica-set controller's rolling update on the former canary nodes (C03/C02): covered by the scenario stream, theorem level inherits C02's partial label.",
        "adopt": ["C11"],
        "streams": [("eds_reconcile", 2500, 40000), ("ers_reconcile", 1500, 30000), ("scenario_faults_rollback", 224, 600)],
        "extra_theorems": [("EdsProofs.FactsBridge", "facts_times"), ("EdsProps.C07b", "C07_")],
        "trusted_base": ["hand-written L2 model of the EDS Reconcile tied by the eds_reconcile stream (2500 cases agree on every write)"],
        "partial": ["replacement of canary pods on the former canary nodes after the rollback is a liveness statement across two controllers: scenario-level evidence, not a theorem"],
        "assumptions": COMMON_ASSUME + ["replica-set names are unique within a namespace (API server)"],
    },
    "C13": {
        "extra_theorems": [("EdsProofs.FactsBridge", "facts_keys"), ("EdsProps.C13b", "C13_")],
        "level_text": "Lean theorems on the model of the EDS Reconcile: C13_create_only_if_none, C13_created_faithful (template hash, hash annotation, name label even when the EDS's own labels define that key, namespace, owner), C13_reuse / C13_reuse_selects (re-applying or reverting to a template reuses its replica set), C13_cleanup_safe / C13_active_never_deleted / C13_uptodate_never_deleted / C13_in_use_never_deleted / C13_cleanup_zero_each, and the history invariant C13_at_most_one / C13_at_most_one_history / C13_at_most_one_from_empty (over ANY interleaving of reconciles with arbitrary spec/annotation/status changes and replica-set status updates, at most one replica set per template hash exists), C13_spec_never_written / C13_survivors_unchanged; tied by the eds_reconcile stream (create-only-if-none, created-faithful, cleanup-safe evaluated on the real writes). PodTemplate mirror (model EdsModel/PodTemplateCtl.lean of controllers/podtemplate): C13_podtemplate_write_faithful (every create/update is the same-named object, owned by the EDS, carrying exactly spec.template and its hash), C13_podtemplate_mirror (from any store whose PodTemplate is controller-consistent one reconcile leaves a mirror and keeps the invariant), C13_podtemplate_idempotent (no write loop), C13_podtemplate_updates_when_stale; tied by the podtemplate stream (real Reconcile on absent / current / stale / annotation-less / foreign-edited objects, with same-named neighbours in another namespace).",
        "level_note": TB + "Modelled by hand: the EDS Reconcile. Template identity = MD5 of the JSON of the pod template, computed by the real GenerateMD5PodTemplateSpec in the harness (collision freedom and insensitivity to map construction order are assumptions exercised by the hash checks). Holds under read-your-writes; informer-cache staleness is outside the model. A PodTemplate whose template was edited by somebody else while its hash annotation was left in place is not repaired by the controller (the controller compares the annotation only): the mirror theorem assumes the stored object is controller-consistent; the stream counts that input class without judging the mirror clause on it.",
        "streams": [("eds_reconcile", 2500, 40000), ("podtemplate", 2000, 40000), ("create_pod", 1500, 30000)],
        "trusted_base": ["hand-written L2 model of the EDS Reconcile tied by the eds_reconcile stream; MD5 collision freedom on the templates at hand"],
        "assumptions": COMMON_ASSUME,
    },
    "C14": {
        "level_text": "C14_quiescent_counts (EdsProps/C14b): at the quiescent state of the active replica set (cooperative entries, no empty node, no outdated pod -- the state C02_converges_coop reaches) the reported desired = current = ready = available = number of targeted nodes, ignored = 0, and the sync creates and deletes nothing. Lean theorems: C14_status_function (the status computed by the EDS reconcile satisfies the declarative Spec.C14 clauses: current/ready/available are sums over its replica sets, desired/upToDate from the active and, during a canary, the canary replica set, state/reason/canary block and the Canary-Paused/Canary-Failed conditions agree with the canary facts and annotations, in every branch), C14_eds_writes_status / C14_written_status_ok / C14_no_write_means_current, C14_ers_order and C14_ers_order_canary (0 <= available <= ready <= current <= desired for the active and canary role, for every node/pod layout), C14_unknown_zero_desired, C14_conditions_update / C14_transition_time; the real Reconcile functions run against the model (eds_reconcile, ers_reconcile, manage_deployment, manage_canary streams) and the same Spec.C14 clauses are evaluated on the statuses they write.",
        "level_note": TB + "Modelled by hand: both Reconcile functions. The quiescent clause (counters equal the numbers of pods that exist / are Ready / run the live template) is checked by the scenario stream at quiescence and inherits C02's partial label.",
        "streams": [("eds_reconcile", 3500, 40000), ("ers_reconcile", 1500, 30000), ("manage_deployment", 800, 16000), ("manage_canary", 800, 16000)],
        "extra_theorems": [("EdsProofs.FactsBridge", "facts_keys"), ("EdsProofs.FactsBridge", "facts_states"), ("EdsProps.C14b", "C14_")],
        "trusted_base": ["hand-written L2 models of both Reconcile functions tied by the eds_reconcile / ers_reconcile streams"],
        "partial": ["C14_quiescent: scenario-level evidence only"],
        "assumptions": COMMON_ASSUME,
    },
    "C02": {
        "extra_theorems": [("EdsProps.C02b", "C02")],
        "level_text": "Partial. Proved for unbounded sizes: C02_coop_limits / C02_progress_create / C02_progress_delete (under the cooperative assumption a sync creates at least one pod while a node lacks one and may replace at least one outdated pod once every node has one), C02_budget_positive (a positive maxUnavailable, number or percentage, resolves to >= 1 on any non-empty node set: percentages round up) and C02_progress_plan (in the cooperative update situation the real plan deletes min(maxUnavailable, outdated) >= 1 pods; the same premise is evaluated on every real ManageDeployment call of the manage_deployment stream as clause C02.progress-update), the abstract cooperative round with the variant 2*outdated + empty: C02_round_measure (strictly decreasing for maxUnavailable >= 1 and a creation cap >= 1), C02_rounds_bound (fixpoint after at most 2*outdated + empty <= 2N rounds), C02_abs_fixpoint, and the fixpoint of the real plan: C02_fixpoint (every targeted node up to date => a sync creates and deletes nothing). Refinement of the abstract round by the real plan (EdsProps/C02b): countAll_coop (the counters of the real counting loop on a cooperative entry list: every node empty, outdated-available or up-to-date-ready), C02b_plan_lengths (rollingPlan creates min(e, mc) and deletes min(o, mu - e): exactly the abstract round), C02b_refines / C02b_refines_rounds (applying the real plan and letting created pods become Ready and deletions complete is again cooperative and its (e, o) is absRound of the previous one, node names distinct) and C02_converges_coop (iterating the real plan from ANY cooperative state reaches, within 2*outdated + empty rounds and for ever after, a state where every node runs an up-to-date Ready pod). NOT a theorem: the composition across the two controllers and through canary histories, the slow-start ramp and the clock (fixed mu, mc per run), kubelet timing. It is validated by the scenario stream: the four real reconcilers plus a kubelet model run random histories (template changes incl. several in a row, pause/freeze/canary commands, node churn and tainting, pod restarts/failures, neighbours in other namespaces) with every reconcile step compared with the L2 models, then cooperative rounds to quiescence; Spec.C02.fixpoint (one Ready live-template pod per eligible node, no other daemon pod, live template active) and the round bound are evaluated on the final store.",
        "level_note": TB + "The cooperative round assumes real kubelet timing and work-queue fairness (every reconciler runs, created pods get scheduled and Ready, terminations finish, the clock advances by more than reconcileFrequency and the slow-start interval). Configurations where the EDS reconcile keeps reporting an error (a canary asking for more nodes than are eligible: C15) hold the rollout by specification and are counted, not judged.",
        "adopt": ["C11", "C10"],
        "streams": [("manage_deployment", 1500, 30000), ("scenario", 40, 1500), ("scenario_faults_rollback", 224, 600), ("create_pod", 1500, 30000)],
        "partial": ["C02_converges (composition of the per-sync lemmas across EDS/ERS reconciles, kubelet and canary phases) is not proved; scenario-level evidence only"],
        "trusted_base": ["simulated API server + kubelet (harness/streams/sim.go): creation timestamps/UIDs on create, graceful deletion via a kubelet finalizer, clock by aging every stored timestamp, fake clock for the failed-pod back-off"],
        "assumptions": COMMON_ASSUME + ["cooperative scheduling of reconcilers and kubelet (fairness)"],
    },
    "C04": {
        "extra_theorems": [("EdsProofs.FactsBridge", "facts_times"), ("EdsProofs.FactsBridge", "facts_keys")],
        "level_text": "Lean theorems on the model of the replica-set Reconcile (EdsProps/C04): C04_roles_disjoint / C04_role_cases (at most one active and one canary role per EDS status), C04_canary_creates_in_list (the canary role creates and update-deletes only on status.canary.nodes) with C04_created_pinned / C04_created_node_listed, C04_active_avoids_list (the active role neither creates nor deletes nor cleans up on canary nodes), C04_active_serves_rest (every other listed fit node stays a key of the active role's map), C04_unknown_inert (a leftover replica set issues no pod write at all), C04_label_scope / C04_label_on / C04_label_off (canary label added by the canary role on its own pods on canary nodes, removed by the active role within the 5-minute window), for every store; list growth bounded by the resolved replicas is evaluated on every EDS status write (C04.list-growth) and follows the selectNodes model (C15). Tied by the ers_reconcile stream and by the scenario stream (histories with a second template change during a canary, node churn, pause/unpause/fail, every reconcile order).",
        "level_note": TB + "Modelled by hand: the replica-set Reconcile as store -> write batches (ReconcileErs.lean), roles from the EDS status. History clauses (the list only grows up to the request; the label is gone once the replica set is active) are per-step theorems plus scenario evidence, not an induction over histories.",
        "streams": [("ers_reconcile", 2500, 40000), ("manage_canary", 1000, 20000), ("manage_unknown", 500, 10000), ("scenario", 25, 600), ("eds_reconcile", 1500, 30000), ("select_nodes", 1500, 30000)],
        "partial": ["C04_list_growth as a history invariant is checked per EDS status write (stream clause), not proved by induction"],
        "trusted_base": ["hand-written L2 model of the replica-set Reconcile tied by the ers_reconcile stream (every create incl. the pod built, delete, label patch and the status compared)"],
        "assumptions": COMMON_ASSUME + ["replica-set and pod names unique within a namespace (API server)"],
    },
    "C11": {
        "level_text": "Lean theorems: downward closure of the safety predicates under dropped writes (C11_all_sublist, C11_nodup_sublist, C11_budget_sublist) and their use C11_safe_under_faults_active (whatever subset of a planned sync's creations and deletions is applied, the availability budget, the cap, creation-only-on-empty-eligible-nodes and one-creation-per-node hold), C11_stateless_filter (the per-node map contract holds for EVERY state of the in-memory back-off, so a fresh instance after a crash is one instance of it), C11_two_step (= C07_recoverable). Recovery to the same final state is checked, not proved: the scenario_faults stream replays the corpus (first deployment, rolling update, canary start and promotion, canary failure by the operator and rollback, canary AUTO-fail on crash-looping pods and rollback, node removal, settings change) with a fault at every index k of the failure-free run's API writes and every kind (call rejected, applied but answer lost, process stop before / after the write with fresh reconciler instances), pairs in the thorough tier; safety clauses are evaluated on every step and the final pods/status are compared with the failure-free run.",
        "level_note": TB + "Safety under faults = proof (per-sync theorems quantified over every store and back-off state + downward closure). Recovery / same fixpoint inherits C02's partial label and is scenario-level evidence on the real reconcilers against the simulated API server.",
        "adopt": ["C01", "C03", "C04", "C05", "C07", "C12"],
        "streams": [("scenario_faults", 1568, 3200), ("scenario", 15, 300), ("eds_reconcile", 2500, 40000), ("ers_reconcile", 1000, 20000)],
        "partial": ["convergence after the fault to the failure-free final state is stream-level evidence (inherits C02_converges)"],
        "trusted_base": ["fault injection in the simulated API server: reject / applied-but-error / process stop (no later write of that reconcile is applied, reconcilers rebuilt)"],
        "assumptions": COMMON_ASSUME,
    },
}

# Source bridges: the decision functions below are TRANSLATED from the Go source on every run
# (tools/extract/gotolean.go -> lean/EdsModel/Generated/Dec*.lean) and proved equal to the hand-written
# model functions the property theorems are about (lean/EdsProofs/Bridge*.lean, theorems `src_*`).
BRIDGE_TB = {
    "EdsProofs.BridgeCanary": "IsRollingUpdatePaused, IsRolloutFrozen, IsCanaryDeployment{Ended,Paused,Unpaused,Valid,Failed}, selectCurrentReplicaSet and nonCanaryState are TRANSLATED from utils.go / controller.go (Generated/DecCanary.lean) and proved equal to the model (EdsProofs/BridgeCanary.lean, src_*)",
    "EdsProofs.BridgeCleanup": "shouldDeleteERS is TRANSLATED from controller.go (Generated/DecCleanup.lean) and proved equal to the model (EdsProofs/BridgeCleanup.lean, src_shouldDeleteERS)",
    "EdsProofs.BridgeDefaults": "IsDefaulted*, Default* and ValidateExtendedDaemonSetSpec are TRANSLATED from extendeddaemonset_default.go / _validate.go (Generated/DecDefaults.lean) and proved equal to the model, nil dereference = none (EdsProofs/BridgeDefaults.lean, src_*)",
    "EdsProofs.BridgeSlowStart": "getRollingUpdateStartTime and calculateMaxCreation are TRANSLATED from rollingupdate.go (Generated/DecSlowStart.lean) and proved equal to the model (EdsProofs/BridgeSlowStart.lean, src_*)",
    "EdsProofs.BridgeConds": "the condition-list helpers of both conditions packages (GetIndexForConditionType, Get…StatusCondition, IsConditionTrue, Update…StatusCondition, UpdateErrorCondition: the model's findCond / isCondTrue / updateCond), retrieveReplicaSetStatus (ersRole), isCanaryActive, and the pod helpers of pkg/controller/utils/pod (IsPodReady, IsPodAvailable, HighestRestartCount, MostRecentRestart, CannotStart, PendingCreate, IsCannotStartReason, convertReasonToEDSStatusReason, HasPodSchedulerIssue, affinity.GetNodeNameFromAffinity) are TRANSLATED, range loops included (Generated/DecConds.lean), and proved equal to the model applied to the harness's canonical form of the Go records (EdsProofs/BridgeConds.lean, src_*; Go.canon* in EdsModel/GoPrelude.lean restate harness/canon). HighestRestartCount / MostRecentRestart are bridged under Go.lastStateWF (a lastState that is set is set to terminated): without it the Go functions dereference nil (finding_*_panics)",
}
BRIDGE_TB["EdsProofs.BridgeStatus"] = (
    "manageCanaryPodFailures (strategy/canary.go: the per-pod loop with HighestRestartCount / MostRecentRestart / CannotStart / PendingCreate, "
    "the slow-start gate, the auto-fail / auto-pause switch, the four condition updates and the canary-failed status), manageStatus, "
    "manageCanaryStatusConditions, clearCanaryAnnotations (controllers/extendeddaemonset/controller.go), sortPodByNodeName.Less, "
    "edsNodeByCreationTimestampAndPhase.Less, utils.MergeResult, utils.ContainsString, manageUnscheduledPodNodes, compareSpecTemplateMD5Hash and "
    "BoolToCondition are TRANSLATED (Generated/DecStatus.lean, calling the translated functions of DecConds / DecCanary) and proved equal to the model "
    "(EdsProofs/BridgeStatus.lean, src_*): src_manageCanaryPodFailures = the model's manageCanaryPodFailures on the canonical form of the pods "
    "(PodsRel), panics included, under Go.lastStateWF for the container statuses, result.FailedReason = \"\" and result.NewStatus a non-nil object "
    "distinct from params.NewStatus (what manageCanaryStatus passes: a fresh Result with a deep copy; manageCanaryStatus itself is translated in "
    "Generated/DecCanaryStatus.lean, see BridgeCanaryStatus). Not translated: utils.RemoveString (it appends into the backing array of the slice it "
    "ranges over) -- it stays tied by the correspondence streams")
BRIDGE_TB["EdsProofs.BridgePodCompare"] = (
    "compareCurrentPodWithNewPod and compareNodeResourcesOverwriteMD5Hash (strategy/utils.go) are TRANSLATED (Generated/DecPodCompare.lean, calling "
    "the translated compareSpecTemplateMD5Hash of DecStatus) and proved equal to the model's comparePod / compareNodeHash on the canonical form of "
    "the pod (EdsProofs/BridgePodCompare.lean, src_*), nil dereferences included. Tied by correspondence only inside them: the two library pieces "
    "-- compareWithExtendedDaemonsetSettingOverwrite(pod, withoutContainersOverwrittenByNode(...)) (DeepCopy / json.Unmarshal / "
    "apiequality.Semantic.DeepEqual; Go.compareWithSettingOverwrite = the model's compareSettingOverwrite) and "
    "comparison.GenerateHashFromEDSResourceNodeAnnotation (= the model's Node.resHash, computed by the harness with the real function)")
BRIDGE_TB["EdsProofs.BridgeCanaryStatus"] = (
    "manageCanaryStatus (strategy/canary.go: the scan of params.CanaryNodes through the two Go MAPS NodeByName / PodByNodeName, the call of "
    "manageCanaryPodFailures, the counters, the create / delete lists and the requeue request), requeueIn and requeuePromptly are TRANSLATED "
    "(Generated/DecCanaryStatus.lean, calling the translated functions of DecPodCompare / DecStatus / DecConds / DecCanary) and proved equal to the "
    "model (EdsProofs/BridgeCanaryStatus.lean): src_manageCanaryStatus = the model's manageCanaryStatus, panics included, for EVERY content and "
    "order of the two maps taken as association lists under MapsRel (every NodeByName entry is filed under the name of its node and every key of "
    "PodByNodeName is the NodeByName entry of its name -- what FilterAndMapPodsByNode constructs; under it the explicit key identity "
    "Go.nodeItemKey = node name coincides with equality of the keys, nodeItemKey_faithful; maps_filed_needed shows the hypothesis is needed), "
    "non-nil Strategy / NewStatus / Replicaset, and Go.lastStateWF for the container statuses of the mapped pods (MapPodsWF). Code-level "
    "corollaries EdsProps/CanaryStatusSrc.lean (C06_src_status_*, C08_src_status_*, C04_src_status_*, C14_src_status_*)")
BRIDGE_TB["EdsProofs.BridgeRolling"] = (
    "the classification loop of ManageDeployment (strategy/rollingupdate.go: `for node, pod := range params.PodByNodeName`, iteration over a Go "
    "MAP) is cut out of the function by the translator (a statement fragment: a function of the locals the statement reads, returning the locals "
    "it assigns; the whole function is translated too, see BridgeDeployment -- the fragment stays as the tie of the loop alone) and TRANSLATED on every run "
    "(Generated/DecRolling.lean); src_manageDeploymentClassify proves it equal to the model's countAll (every counter, the creation list) and to "
    "the deletion candidates in iteration order, for EVERY association list, i.e. every iteration order; src_delOrder_partition: the stable "
    "partition of that list by availability (what sort.SliceStable computes next: BridgeDeployment, src_sortDeleteCandidates) is the model's "
    "toDeleteUnavail ++ toDeleteAvail. Hypothesis: the wall clock (two reads per iteration in HasPodSchedulerIssue, translated as functions of the "
    "iteration index) does not advance during the loop -- the model evaluates the loop at one instant")
BRIDGE_TB["EdsProofs.BridgeDeployment"] = (
    "ManageDeployment (strategy/rollingupdate.go) is TRANSLATED AS A WHOLE on every run (Generated/DecDeployment.lean, with cleanupPods; calling the "
    "translated functions of DecCanary / DecSlowStart / DecConds / DecStatus / DecPodCompare and Generated/Limits.lean): the three condition updates "
    "through params.NewStatus, the deletion of the canary nodes from the Go map PodByNodeName, the percentage resolutions, the classification loop, "
    "calculateMaxCreation, the limits kernel, the min with the candidate counts, the stable sort of the deletion candidates, the two slicings xs[:n], "
    "the paused / frozen gates, the status counters, manageUnscheduledPodNodes, the PodsCleanupDone condition, the requeue flag and the five-minute "
    "window of the canary-label clean-up. src_manageDeployment (EdsProofs/BridgeDeployment.lean) proves it EQUAL to the model's manageDeployment "
    "(result lists, flags, status, requeue, error, and params as the caller sees it afterwards; panics included: src_manageDeployment_panics_iff), for "
    "EVERY content and order of the two maps as association lists under MapsRel and distinct keys (KeysNodup: a Go map has one entry per key -- "
    "needed for len(map) and for the comparator's lookups), a clock that does not advance during the classification loop. NOT translated, assumed "
    "to return normally and to change nothing of the translated state but what is stated: the API steps -- deletePodSlice inside cleanupPods "
    "(goroutines, client.Delete; its result, the error list, is a universally quantified parameter) and the statement `if err = client.List(...); "
    "... deletePodLabel ...` of the canary-label clean-up (the values of `err` and `result.Result.Requeue` after it are universally quantified "
    "parameters; the model leaves that clean-up to reconcileErs). Mapped to model functions, tied by correspondence only: sort.SliceStable -> "
    "Go.stableSortBy = List.mergeSort with the TRANSLATED comparator (proved a two-class strict weak ordering on the candidates, the sort proved to be "
    "the model's toDeleteUnavail ++ toDeleteAvail: src_sortDeleteCandidates), xs[:n] -> Go.sliceTo (none beyond the length), "
    "utilerrors.NewAggregate -> Go.newAggregate, intstr.GetValueFromIntOrPercent -> resolveIntOrPercent; logging and the metric update are dropped "
    "(their arguments still evaluated). Code-level corollaries EdsProps/DeploymentSrc.lean (C03_src_deploy_*, C08_src_deploy_sync, "
    "C09_src_deploy_create_bound, C02_src_deploy_fixpoint)")
BRIDGE_TB["EdsProofs.BridgeUnknown"] = (
    "ManageUnknown (strategy/unknown.go) is TRANSLATED AS A WHOLE on every run (Generated/DecUnknown.lean: the deletion of the canary nodes from the "
    "Go map PodByNodeName, the iteration over the map, the status and the requeue request; its API client parameter is unused) and proved EQUAL to "
    "the model's manageUnknown (EdsProofs/BridgeUnknown.lean, src_manageUnknown: never panics, no error, the model's status and requeue, params left "
    "with the canary nodes deleted) for every content and order of the two maps under MapsRel, with a clock that does not advance during the loop")
BRIDGE_TB["EdsProofs.BridgeStrategy"] = (
    "applyStrategy (controllers/extendeddaemonsetreplicaset/controller.go: the role switch of the replica-set reconciler, a method -- `r.client` is "
    "the API client handle) and ManageCanaryDeployment (strategy/canary.go: manageCanaryStatus, then the unscheduled nodes, cleanupPods and the "
    "prompt requeue on a failed label or clean-up call) are TRANSLATED AS WHOLE FUNCTIONS on every run (Generated/DecStrategy.lean, calling the "
    "translated ManageDeployment / ManageUnknown / manageCanaryStatus / cleanupPods) and proved equal to the model as reconcileErs composes it "
    "(EdsProofs/BridgeStrategy.lean): src_applyStrategy_active = the model's manageDeployment on the parameters with preConds \"active\" "
    "(deployOut), src_applyStrategy_unknown = manageUnknown with preConds \"unknown\", src_applyStrategy_canary / src_manageCanaryDeployment = "
    "manageCanaryStatus with preConds \"canary\" followed by the unscheduled nodes, the PodsCleanupDone condition and the requeue "
    "(canaryDeployResult), src_applyStrategy_other (any other role string: a nil result). API steps as universally quantified parameters: "
    "ensureCanaryPodLabels (an API loop: its error), deletePodSlice (its errors), and those of ManageDeployment")
BRIDGE_TB["EdsProofs.BridgeSetting"] = (
    "searchPossibleConflict (controllers/extendeddaemonsetsetting/controller.go: the copy of the listed settings into a slice of pointers, "
    "sort.Sort, the loops over nodes x settings with the map nodesAlreadySelected, the skip of another setting's unusable selector, the two error "
    "returns) is TRANSLATED AS A WHOLE on every run (Generated/DecSetting.lean) and proved to return the model's searchConflict "
    "(EdsProofs/BridgeSetting.lean, src_searchPossibleConflict: never panics on non-nil arguments; no conflict = (\"\", nil), a conflict = the other "
    "setting's name and an error naming a listed node, the instance's own unusable selector = (\"\", err); src_searchPossibleConflict_reconcile: "
    "the status Reconcile derives from it is the model's settingReconcile). Hypotheses, both guarantees of the API server: no two different "
    "listed settings with the same creation time AND name (NoTies; implied by unique names -- sort.Sort is not stable, the model's insertion sort "
    "is anti-stable; with no ties every sorting algorithm returns the same slice, src_sortSettings / mergeSort_eq_sortSettings) and pairwise "
    "distinct node names (needed: nodeNames_needed -- the code keeps ONE map across the nodes and leaves node.Name -> \"\" behind, the model scans "
    "each node afresh). Mapped to model functions, tied by correspondence only: sort.Sort -> Go.stableSortBy = List.mergeSort with the TRANSLATED "
    "edsNodeByCreationTimestampAndPhase.Less (DecStatus) applied to the two-element slice of the elements compared (Len / Swap checked syntactically "
    "to be the canonical slice methods); metav1.LabelSelectorAsSelector / selector.Matches -> Go.labelSelectorAsSelector / Go.selectorMatches "
    "(EdsModel/GoPreludeSetting.lean: together the model's settingMatches, the conversion error = Setting.badSelector)")
BRIDGES = {
    "C05": ["EdsProofs.BridgeCanary"],
    "C08": ["EdsProofs.BridgeCanary", "EdsProofs.BridgePodCompare", "EdsProofs.BridgeCanaryStatus", "EdsProofs.BridgeDeployment"],
    "C03": ["EdsProofs.BridgePodCompare", "EdsProofs.BridgeRolling", "EdsProofs.BridgeDeployment"],
    "C02": ["EdsProofs.BridgeDeployment"],
    "C10": ["EdsProofs.BridgePodCompare"],
    "C14": ["EdsProofs.BridgeCanary", "EdsProofs.BridgeConds", "EdsProofs.BridgeStatus", "EdsProofs.BridgePodCompare", "EdsProofs.BridgeRolling",
            "EdsProofs.BridgeDeployment", "EdsProofs.BridgeUnknown", "EdsProofs.BridgeStrategy"],
    "C04": ["EdsProofs.BridgeConds", "EdsProofs.BridgePodCompare", "EdsProofs.BridgeCanaryStatus"],
    "C06": ["EdsProofs.BridgeConds", "EdsProofs.BridgeStatus", "EdsProofs.BridgePodCompare", "EdsProofs.BridgeCanaryStatus", "EdsProofs.BridgeStrategy"],
    "C19": ["EdsProofs.BridgeCanary"],
    "C01": ["EdsProofs.BridgeStatus"],
    "C18": ["EdsProofs.BridgeStatus", "EdsProofs.BridgeSetting"],
    "C07": ["EdsProofs.BridgeCleanup", "EdsProofs.BridgeCanary", "EdsProofs.BridgeStatus"],
    "C13": ["EdsProofs.BridgeCleanup"],
    "C16": ["EdsProofs.BridgeDefaults", "EdsProofs.BridgeSlowStart"],
    "C09": ["EdsProofs.BridgeSlowStart", "EdsProofs.BridgeDeployment"],
}
SRC_THEOREMS = {
    "C06": [("EdsProps.C06s", "C06_src_"), ("EdsProps.CanaryStatusSrc", "C06_src_")],
    "C14": [("EdsProps.C14s", "C14_src_"), ("EdsProps.CanaryStatusSrc", "C14_src_")],
    "C04": [("EdsProps.CanaryStatusSrc", "C04_src_")],
    "C05": [("EdsProps.C05s", "C05_src_")],
    "C08": [("EdsProps.C08s", "C08_src_"), ("EdsProps.CanaryStatusSrc", "C08_src_"), ("EdsProps.DeploymentSrc", "C08_src_")],
    "C07": [("EdsProps.C07s", "C07_src_"), ("EdsProps.C14s", "re:^(C07_src_|C14_src_failed)")],
    "C13": [("EdsProps.C07s", "C07_src_")],
    "C16": [("EdsProps.C16s", "C16_src_")],
    "C09": [("EdsProps.C09s", "C09_src_"), ("EdsProps.DeploymentSrc", "C09_src_")],
    "C03": [("EdsProps.DeploymentSrc", "C03_src_")],
    "C02": [("EdsProps.DeploymentSrc", "C02_src_")],
}
for _p, _l in SRC_THEOREMS.items():
    PROPS[_p]["extra_theorems"] = PROPS[_p].get("extra_theorems", []) + _l
for _p, _mods in BRIDGES.items():
    PROPS[_p].setdefault("extra_theorems", [])
    PROPS[_p].setdefault("trusted_base", [])
    for _m in _mods:
        PROPS[_p]["extra_theorems"] = PROPS[_p]["extra_theorems"] + [(_m, "src_")]
        PROPS[_p]["trusted_base"] = PROPS[_p]["trusted_base"] + [BRIDGE_TB[_m]]

# scripted multi-phase histories (harness/streams/histories.go): run by every property whose statement
# speaks about state carried over several reconciles / role changes
for _p in ("C02", "C04", "C05", "C07", "C08", "C13", "C14", "C15"):
    PROPS[_p]["streams"] = PROPS[_p]["streams"] + [("scenario_histories", 18, 180)]

# "fail leads to the rollback" (C19) is the rollback of C07: its clauses count for C19 on the streams C19 runs
PROPS["C19"]["adopt"] = list(PROPS["C19"].get("adopt", [])) + ["C07"]

# ---- history / store-level / cluster-level theorems (sixth round) -------------------------------
# EdsProps/C02c: store-level convergence of the active replica set (reconcileErs + API server + kubelet)
# EdsProps/C06b, C09c, C11b: restart timeline, spacing over any run, uniqueness of the fixpoint
# EdsProps/L3 over EdsModel/Cluster.lean: ONE state machine of the cluster, invariants by induction over
# arbitrary operation sequences (with and without dropped writes)
L3M = "EdsProps.L3"
MORE = {
    "C02": [("EdsProps.C02c", "re:^(C02|calculateMaxCreation_)"), ("EdsProps.C11b", "C11_quiescent_no_write")],
    "C06": [("EdsProps.C06b", "C06_")],
    "C09": [("EdsProps.C09c", "C09_"), ("EdsProps.C02c", "calculateMaxCreation_")],
    "C11": [("EdsProps.C11b", "C11_"), (L3M, "re:_faults$"), (L3M, "re:_stepF$")],
    "C14": [("EdsProps.C11b", "C11_quiescent_counters")],
    "C13": [(L3M, "re:^L3_(hashesNodup|allHashed|annot|names|one_per_template|all_hashed|at_most_one|survives|active_never|uptodate_never|selected_uptodate|never_deletes|removed_only|active_not|uptodate_not)")],
    "C15": [(L3M, "re:^L3_canary(Nodup|_nodup)")],
    "C04": [(L3M, "re:^L3_(canary_bound|role_|roles_|role_changes)")],
    "C05": [(L3M, "re:^L3_promotion")],
    "C12": [(L3M, "re:^L3_(foreign|created_pods_owned|eds_reconcile_writes_no_pod|ers_written|status_written|eds_object_frame)")],
    "C01": [(L3M, "re:^L3_one_per_node")],
}
for _p, _l in MORE.items():
    PROPS[_p]["extra_theorems"] = PROPS[_p].get("extra_theorems", []) + _l

# ---- level texts / partial labels after the sixth round -------------------------------------------
PROPS["C06"]["partial"] = []
PROPS["C06"]["level_text"] += " History (EdsProps/C06b): C06_restart_timeline / _first_fixed / _latest (over ANY run of syncs of one replica set the PodRestarting condition's transition time is the first and its update time the latest restart a sync recorded), C06_failed_sticky_history, C06_restart_span_monotone (with the counterexample for a stored False condition proved)."
PROPS["C04"]["partial"] = []
PROPS["C04"]["level_text"] += " History (EdsProps/L3 over the cluster machine EdsModel/Cluster.lean): L3_canary_bound (along any run the controller never grows status.canary.nodes beyond max(previous length, resolved request)), L3_role_unique (at most one active and one canary replica set), by induction over arbitrary operation sequences."
PROPS["C02"]["partial"] = ["the composition with the ExtendedDaemonSet controller through canary promotion / rollback at L3, real kubelet timing and ExtendedDaemonsetSettings are not in C02_converges_store (scenario-level evidence: scenario, scenario_histories, scenario_faults_rollback)"]
PROPS["C02"]["level_text"] = PROPS["C02"]["level_text"].replace("Partial. Proved", "Proved") + " STORE LEVEL (EdsProps/C02c): C02c_refines (the real sync reconcileErs -- time gates, slow-start cap at the current clock, filterAndMap, pod construction/comparison -- followed by the API server and an instantaneous kubelet preserves the cooperative-store predicate and moves the counters exactly as the abstract round) and C02_converges_store (from ANY cooperative store, within 2*outdated + empty rounds every eligible node runs exactly one Ready pod of the replica set's template, no other daemon pod exists, and any further sync writes nothing), C02c_fixpoint; uniqueness of the fixpoint C11_fixpoint_unique (EdsProps/C11b)."
PROPS["C11"]["partial"] = ["reaching the fixpoint after a fault is proved at store level without a canary (C02_converges_store) and otherwise checked on the corpus x fault index x kind"]
PROPS["C11"]["level_text"] += " L3 (EdsProps/L3): every history invariant (one replica set per template, canary list, promotion rule, foreign pods untouched) holds along runs in which ANY subset of each reconcile's planned writes is applied (stepF / runF); C11_fixpoint_unique: two quiescent stores over the same nodes and spec have the same (node, template) assignment and the same status counters."
PROPS["C09"]["level_text"] += " C09_spacing_history (EdsProps/C09c): over any run of syncs of one replica set with the status carried forward, any two write-issuing syncs are at least reconcileFrequency apart; through a second-truncating store the spacing is > freq - 1 s (tight)."
PROPS["C13"]["level_text"] += " L3 history (EdsProps/L3): L3_one_per_template, L3_names_nodup, L3_never_deletes_in_use by induction over arbitrary operation sequences of the cluster machine."
PROPS["C05"]["level_text"] += " L3_promotion_history: in any run of the cluster machine, whenever a reconcile switches status.activeReplicaSet from an existing own replica set to another, the promotion rule held in the pre-state. Code level (EdsProps/C05s): C05_src_only_if etc. about the TRANSLATED selectCurrentReplicaSet."
PROPS["C06"]["level_text"] += " Code level (EdsProps/C06s, about the TRANSLATED manageCanaryPodFailures of Generated/DecStatus.lean via Bridge.src_manageCanaryPodFailures): C06_src_model / C06_src_panics_iff (the translated function returns exactly when the model does, with the model's flags, reasons and status), C06_src_failed_iff, C06_src_failed_sticky, C06_src_paused_iff, C06_src_conditions_written."
PROPS["C06"]["level_text"] += " Code level, the caller (EdsProps/CanaryStatusSrc, about the TRANSLATED manageCanaryStatus of Generated/DecCanaryStatus.lean -- Go maps as association lists in any order -- via Bridge.src_manageCanaryStatus): C06_src_status_model (the translated function returns exactly the model's result), C06_src_status_blocks_creation (paused or failed: PodsToCreate is empty)."
PROPS["C08"]["level_text"] += " Code level (EdsProps/CanaryStatusSrc, about the TRANSLATED manageCanaryStatus): C08_src_status_paused_no_create, C08_src_status_resumes_on_unpause."
PROPS["C04"]["level_text"] += " Code level (EdsProps/CanaryStatusSrc, about the TRANSLATED manageCanaryStatus): C04_src_status_create_only_canary_nodes (every pointer of PodsToCreate is a non-nil key of PodByNodeName with a nil pod whose node is named in CanaryNodes)."
PROPS["C03"]["level_text"] += " Code level: the classification loop of ManageDeployment that produces the counters calcLimits is applied to is TRANSLATED (statement fragment, Generated/DecRolling.lean) and equal to the model's countAll for every iteration order of the Go map (Bridge.src_manageDeploymentClassify, src_delOrder_partition)."
PROPS["C14"]["level_text"] += " Code level (EdsProps/C14s, about the TRANSLATED manageStatus / manageCanaryStatusConditions): C14_src_state_total (no panic on non-nil arguments, one of the six documented states), C14_src_failed_clears_canary, C14_src_canary_block, C14_src_canary_conditions (Canary-Failed is true iff failed, Canary-Paused iff paused and not failed). EdsProps/CanaryStatusSrc: C14_src_status_counters (the status the TRANSLATED manageCanaryStatus returns satisfies 0 <= available <= ready <= current <= desired = len(CanaryNodes))."
PROPS["C07"]["level_text"] += " Code level (EdsProps/C14s): C14_src_failed_clears_canary (the TRANSLATED manageStatus clears status.canary and reports Canary Failed for a failed canary, also with nil replica set / daemonset pointers), C07_src_annotations_cleared (the TRANSLATED clearCanaryAnnotations removes exactly the three canary annotations and reports whether one was there)."
PROPS["C01"]["level_text"] += " L3_one_per_node: at most one live daemon pod per node along runs of BOTH controllers with the ExtendedDaemonSet object evolving."
PROPS["C12"]["level_text"] += " L3_foreign_pods_untouched: along any run (with or without dropped writes) no op but the kubelet changes a pod the ExtendedDaemonSet does not own."
for _p in PROPS:
    PROPS[_p].setdefault("trusted_base", [])
for _p in ("C01", "C02", "C04", "C05", "C11", "C12", "C13", "C15"):
    PROPS[_p]["trusted_base"] = PROPS[_p]["trusted_base"] + ["EdsModel/Cluster.lean (L3): the API server's effect of each write (apply functions) is modelled by hand and validated by the transition check of every scenario run (predicted world = world the next reconcile read)"]

# the trigger of selectNodes and the stale-read cases live in eds_reconcile
PROPS["C15"]["streams"] = PROPS["C15"]["streams"] + [("eds_reconcile", 2500, 30000)]

# C17's "reflected in the error the sync reports / in the conditions" is judged on whole syncs with faults
PROPS["C17"]["streams"] = PROPS["C17"]["streams"] + [("ers_reconcile", 1500, 30000)]

# stickiness of Canary-Failed against a concurrent writer is judged on whole syncs (ers_reconcile);
# "fail leads to the rollback" (C19) needs the mark to survive, so C19 adopts the C06 clauses there
PROPS["C06"]["streams"] = PROPS["C06"]["streams"] + [("ers_reconcile", 2000, 40000)]
PROPS["C19"]["streams"] = PROPS["C19"]["streams"] + [("ers_reconcile", 1500, 30000)]
PROPS["C19"]["adopt"] = list(PROPS["C19"].get("adopt", [])) + ["C06"]

# seventh wave (C05-g): the Canary-Failed mark is the only memory of a failure; a replica-set sync that
# wipes it (in any role) re-opens promotion by elapsed time.  C05 therefore runs the replica-set
# reconcile and answers for the C07 clause "failed mark kept".
PROPS["C05"]["streams"] = list(PROPS["C05"]["streams"]) + [("ers_reconcile", 1200, 20000)]
PROPS["C05"]["adopt"] = list(PROPS["C05"].get("adopt", [])) + ["C07"]

# ---- seventh round: sync-level theorems behind the clauses added after the sixth / seventh seed waves ----
# EdsProps/C10c: no pod is replaced spuriously by a whole sync (active and canary role)
# EdsProps/C08c: pause / freeze at the level of the whole sync; replica-set annotations never pause or freeze
# EdsProps/C12c: the replica sets a written status names are the ExtendedDaemonSet's own (no adoption)
MORE7 = {
    "C10": [("EdsProps.C10c", "C10_")],
    "C02": [("EdsProps.C10c", "C10_sync_no_spurious_replace")],
    "C08": [("EdsProps.C08c", "C08_")],
    "C12": [("EdsProps.C12c", "C12_")],
}
for _p, _l in MORE7.items():
    PROPS[_p]["extra_theorems"] = PROPS[_p].get("extra_theorems", []) + _l
PROPS["C10"]["level_text"] += " Sync level (EdsProps/C10c): C10_sync_no_spurious_replace(_canary) -- every pod a whole replica-set sync deletes in order to update it is out of date for what the sync read (comparePod = false), hence C10_sync_up_to_date_kept."
PROPS["C08"]["level_text"] += " Sync level (EdsProps/C08c): C08_sync_paused_no_update_delete, C08_sync_frozen_no_create, C08_sync_resume(_frozen) (the plan equals the plan without the annotation), C08_sync_ers_annotations_irrelevant (annotations carried by the replica set object never pause or freeze), C08_sync_flags_partial (written conditions = the ExtendedDaemonSet's current annotations, for a defaulted owner; the counterexample for a non-defaulted owner is proved)."
PROPS["C12"]["level_text"] += " C12_no_adoption (EdsProps/C12c): the active / canary replica set named by a written status is a member of ownErs (namespace and name label), C12_foreign_never_named."

# EdsProps/L3Live (seventh round): liveness THROUGH the canary phases at the cluster level — one
# ExtendedDaemonSet reconcile promotes (promotion rule due) or rolls back (failed canary; also when the
# spec write was dropped and a second reconcile completes it), after which k >= 2*outdated + empty
# cooperative rounds of the now active replica set reach ClusterConverged: every eligible node runs
# exactly one Ready pod of the LIVE template, nothing else, further syncs write nothing, the other
# replica sets are inert leftovers.
L3LIVE = "EdsProps.L3Live"
for _p, _pat in (("C02", "re:^L3Live_"), ("C07", "re:^L3Live_(rollback|converges_after_rollback)"),
                 ("C11", "re:^L3Live_(rollback_pending|rollback_steps|promotion_stepF)"),
                 ("C05", "re:^L3Live_promotion_(step|writes)$"), ("C14", "re:^L3Live_converges")):
    PROPS[_p]["extra_theorems"] = PROPS[_p].get("extra_theorems", []) + [(L3LIVE, _pat)]
PROPS["C02"]["partial"] = ["C02_converges_store and its cluster-level compositions L3Live_converges_after_promotion / _after_rollback assume: instantaneous cooperative kubelet, no ExtendedDaemonsetSetting on the listed nodes, strategy parameters >= 1, not paused/frozen, no API fault during the replica-set rounds, no node or pod churn during the rounds (scenario-level evidence for those: scenario, scenario_histories, scenario_faults_rollback)"]
PROPS["C02"]["level_text"] += " CLUSTER LEVEL THROUGH A CANARY (EdsProps/L3Live): L3Live_promotion_step (promotion rule due => one ExtendedDaemonSet reconcile makes the up-to-date replica set active, canary cleared, spec unchanged), L3Live_rollback_steps (failed canary => active unchanged, canary cleared, spec.template restored to the active template; completed by the next reconcile when the spec write was dropped), L3Live_converges_after_promotion / _after_rollback (then k >= 2*outdated + empty cooperative rounds of the cluster machine reach ClusterConverged for the LIVE template; bound attained on the example)."
PROPS["C07"]["level_text"] += " L3Live_converges_after_rollback: after the rollback the former canary nodes are served again and the whole cluster converges to the previously active template (also when the spec write was dropped once)."

# C09's delete bound rests on the translated limits kernel as C03's does: the bridge is an obligation of C09 too
PROPS["C09"]["extra_theorems"] = PROPS["C09"].get("extra_theorems", []) + [("EdsProps.C03", "C03_kernel_is_source"), ("EdsProps.C03", "C03_cap")]

# EdsModel/ClusterRV + EdsProps/L3RV (seventh round): the cluster machine with the resourceVersion of the
# ExtendedDaemonSet object and STALE READS of it (informer cache lagging behind the controller's own writes).
# A stale reconcile's writes to the object are refused (409), its replica-set Create/Delete calls are not guarded.
L3RV = "EdsProps.L3RV"
for _p, _pat in (("C11", "re:^RV_(fresh_is_step|fresh_run|stale_eds_untouched|stale_status_untouched|stale_frame|stale_is_faulty_step|stale_run_eds_untouched|rv_mono|version_bookkeeping)"),
                 ("C15", "re:^RV_(canary_nodes_kept|canaryNodup_step|canary_nodup|canary_bound)"),
                 ("C04", "re:^RV_canary_bound"),
                 ("C05", "re:^RV_promotion_(step|history)"),
                 ("C13", "re:^RV_(one_per_template|at_most_one_per_hash|hashesNodup_step|names_nodup|annot_gen|recovery|stale_then_fresh|stale_never_|stale_removes_only_drained|stale_keeps_seen_in_use|stale_creates_only_missing_hash)")):
    PROPS[_p]["extra_theorems"] = PROPS[_p].get("extra_theorems", []) + [(L3RV, _pat)]
_RVNOTE = "stale reads of the ExtendedDaemonSet object ARE modelled at L3 (EdsModel/ClusterRV, EdsProps/L3RV): the stored object is never changed by a stale reconcile (RV_stale_eds_untouched), the history invariants survive; replica-set deletions / creations are not guarded by that object's version (counterexamples proved, recovery proved)"
for _p in ("C11", "C13", "C15", "C05", "C04"):
    PROPS[_p]["assumptions"] = list(PROPS[_p].get("assumptions", [])) + [_RVNOTE]
PROPS["C11"]["level_text"] += " STALE READS (EdsProps/L3RV over EdsModel/ClusterRV: resourceVersion + history of the ExtendedDaemonSet object): RV_stale_eds_untouched (a reconcile deciding from an earlier stored value never changes the stored object: status, spec, annotations, version), RV_stale_is_faulty_step (it is the L3 faulty step that drops every write to the object, taken in the world seen through the stale value), history invariants along runs with stale reconciles."
PROPS["C15"]["level_text"] += " RV_canary_nodes_kept(_history): canary nodes selected earlier are kept by reconciles that read a stale ExtendedDaemonSet (the theorem behind clause C15.selection-kept-on-stale-read)."
PROPS["C13"]["level_text"] += " With stale reads (EdsProps/L3RV): RV_one_per_template, RV_names_nodup, RV_annot_gen still hold along any run; 'never deletes the replica set matching the stored spec.template' does NOT (RV_stale_never_deletes_uptodate_false: deletions are not guarded by the object's resourceVersion; observed on the real Reconcile in eds_reconcile, category observed:stale-read-deleted-replica-set-of-stored-template); strongest true variants RV_stale_never_deletes_*_partial and the recovery RV_stale_then_fresh (the next fresh reconcile leaves exactly one replica set for the stored template)."

# EdsProps/Sync7 (seventh round): the theorems behind the newest whole-reconcile clauses
for _p, _pat in (("C15", "re:^C15_keep_reconcile"), ("C04", "re:^C04_(list_growth_reconcile|active_serves_rest_sync)"),
                 ("C10", "re:^C10_api_resources_"), ("C18", "re:^C10_api_resources_"), ("C09", "re:^C09_delete_bound_sync"),
                 ("C02", "re:^C04_active_serves_rest_sync")):
    PROPS[_p]["extra_theorems"] = PROPS[_p].get("extra_theorems", []) + [("EdsProps.Sync7", _pat)]
PROPS["C15"]["level_text"] += " C15_keep_reconcile (EdsProps/Sync7): every real-Reconcile-level status keeps the nodes selected earlier that are still valid, also when the canary is re-targeted to another replica set (hypotheses: distinct node names, the up-to-date replica set's template fits the same nodes as spec.template; both shown necessary by decide)."
PROPS["C04"]["level_text"] += " Sync7: C04_list_growth_reconcile, C04_active_serves_rest_sync (every creation of the active role is on a targeted, fit, non-canary node without pod; count <= min(candidates, slow-start budget)), C04_active_serves_rest_sync_partial (exact count and positivity when neither the LastFullSync nor the PodCreation gate fires and the strategy parses; both extra hypotheses shown necessary)."
PROPS["C10"]["level_text"] += " C10_api_resources_sync / _clause (EdsProps/Sync7): every pod a whole sync creates carries the resources resolved from the node override, else the valid setting of this ExtendedDaemonSet selecting the node, else the template."

# EdsModel/ClusterSettings + EdsProps/L3Settings (seventh round): the ExtendedDaemonsetSetting controller and user
# edits of settings inside the cluster machine; "at most one valid setting per node" as an invariant of RUNS
L3S = "EdsProps.L3Settings"
PROPS["C18"]["extra_theorems"] = PROPS["C18"].get("extra_theorems", []) + [(L3S, "re:^(C18_winner|C18_valid_iff_newest|L3S_)")]
PROPS["C18"]["level_text"] += " HISTORY (EdsProps/L3Settings over EdsModel/ClusterSettings: reconcileSetting / applySetting / updateSetting / deleteSetting ops on top of the cluster machine): L3S_settled_at_most_one_valid (in every world reached by any run, in a namespace whose settings have all been reconciled since the last edit / node change, two valid settings matching one node are equal), L3S_winner / C18_winner (the valid one is the newest, ties by greater name), L3S_losers_error, L3S_valid_was_valid (provenance of every stored 'valid'), L3S_node_gets_at_most_one (the replica-set sync attaches at most one setting per node in EVERY world, and it is valid, of the namespace, references the ExtendedDaemonSet and matches), L3S_transient_overlap (before settling two valid settings CAN match one node: proved run; the settled hypothesis cannot be dropped), frame and lifting of the L3 invariants."
PROPS["C18"]["trusted_base"] = PROPS["C18"].get("trusted_base", []) + ["EdsModel/ClusterSettings.lean: the effect of apply / update / delete of a setting and of the setting Reconcile's status write on the store is modelled by hand (status subresource: a spec update keeps the stored status)"]

# EdsProps/C11c (seventh round): RECOVERY AFTER FAULTS AS A THEOREM — faulty cooperative rounds (any subset of a sync's
# planned pod writes applied, status write applied or not, process stopped, answer lost) preserve the cooperative-store
# invariant and never increase the measure; fault-free rounds afterwards converge to the fixpoint of the fault-free run
for _p, _pat in (("C11", "re:^C11c_"), ("C02", "re:^C11c_(recovers_store|same_as_fault_free|cluster_recovers|recovers_after_)"),
                 ("C07", "re:^C11c_recovers_after_rollback")):
    PROPS[_p]["extra_theorems"] = PROPS[_p].get("extra_theorems", []) + [("EdsProps.C11c", _pat)]
PROPS["C11"]["partial"] = ["recovery is a theorem at store level and at cluster level after promotion / rollback (EdsProps/C11c) under the cooperative assumptions of C02c (instantaneous kubelet, no settings on the listed nodes, strategy parameters >= 1, rounds at least reconcileFrequency apart, no node churn); outside them (canary in progress during the faults, settings, node churn) it is checked on the corpus x fault index x kind"]
PROPS["C11"]["level_text"] += " RECOVERY (EdsProps/C11c): C11c_faulty_round_keeps_coop (a round in which ANY subset of the sync's creations / deletions is applied and the status write is applied or not preserves every component of the cooperative store; a dropped status write never gates the next round), C11c_measure_exact / _monotone, C11c_recovers_store (any finite sequence of faulty rounds followed by k >= measure fault-free rounds is converged), C11c_same_fixpoint / C11c_same_as_fault_free (same (node, template) assignment and counters as the fault-free run, via C11_fixpoint_unique), C11c_cluster_recovers, C11c_recovers_after_promotion / _after_rollback (cluster machine, incl. the dropped spec write); the literal 'same pod list' is false (timestamps) and kept visible with its counterexample."

# EdsModel/ClusterCli + EdsProps/L3Cli (seventh round): the kubectl-eds commands as ops of the cluster machine and how
# the controller's next reconciles interpret them (pause -> Canary Paused however late the clock, unpause -> Canary,
# validate promotes exactly the canary of the moment and not a later one, fail -> rollback and convergence)
PROPS["C19"]["extra_theorems"] = PROPS["C19"].get("extra_theorems", []) + [("EdsProps.L3Cli", "re:^L3C_")]
PROPS["C08"]["extra_theorems"] = PROPS["C08"].get("extra_theorems", []) + [("EdsProps.L3Cli", "re:^L3C_(pause_then_reconcile|unpause_then_reconcile)")]
PROPS["C07"]["extra_theorems"] = PROPS["C07"].get("extra_theorems", []) + [("EdsProps.L3Cli", "re:^L3C_fail_")]
PROPS["C19"]["level_text"] += " CLUSTER LEVEL (EdsProps/L3Cli over EdsModel/ClusterCli: `cli cmd` as an op of the cluster machine): L3C_frame / L3C_frame_ers / L3C_refused_noop (a command changes nothing but its documented annotations or the Canary-Failed condition of the canary replica set; refused = world unchanged), L3C_invariants_runC, L3C_pause_then_reconcile (pause, ANY tick, reconcile: state Canary Paused, active and canary block unchanged -- elapsed time never promotes), L3C_unpause_then_reconcile (back to Canary, or promoted if the duration has elapsed; the outcome of the replica-set sync is a hypothesis there, C08_canary_resumes_on_unpause is its function-level proof), L3C_validate_exact and L3C_validate_not_later (a template pushed after the command creates a newer replica set which the annotation does NOT promote), L3C_fail_rolls_back / L3C_fail_converges (also with the spec write dropped once), L3C_rupause/freeze_refused_during_canary (whatever status.state says)."
PROPS["C19"]["trusted_base"] = PROPS["C19"].get("trusted_base", []) + ["EdsModel/ClusterCli.lean: the effect of a command's patch / status update on the stored objects is modelled by hand (validated by the cli stream: object diff before/after every command)"]

# tenth wave (C19-j): "unpause back to Canary" from the AUTO-paused state is decided inside manageCanaryStatus:
# C19 runs the manage_canary stream and answers for the C08 / C06 clauses there (already adopted)
PROPS["C19"]["streams"] = list(PROPS["C19"]["streams"]) + [("manage_canary", 2000, 30000)]

# eleventh wave (C02-k): what a fault-free sync owes (creations of its proven plan) is judged on whole syncs
PROPS["C02"]["streams"] = list(PROPS["C02"]["streams"]) + [("ers_reconcile", 4000, 30000)]
