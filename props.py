"""Per-property configuration of ./check: correspondence streams (name, quick cases, thorough cases),
partial labels, assumptions.  The theorems of property Cxx are exactly the `theorem`s of
lean/EdsProps/Cxx.lean."""

COMMON_ASSUME = [
    "Go int/int32 modelled as unbounded Int (values in the streams stay far below 2^31)",
    "reads are consistent snapshots (controller-runtime fake client); informer cache staleness is not modelled",
]

PROPS = {
    "C03": {
        "streams": [("limits", 3000, 60000), ("manage_deployment", 1500, 30000)],
        "replay_attempts": 40,
        "trusted_base": [
            "model of ManageDeployment (lean/EdsModel/Rolling.lean) written by hand from rollingupdate.go; tied by the manage_deployment stream",
            "limits.go is translated (Generated/Limits.lean) and proved equal to the clamp form (C03_kernel_is_source)",
            "float64 Ceil(v*total/100) equals the integer ceiling for |v*total| < 2^45",
        ],
        "assumptions": COMMON_ASSUME + ["minReadySeconds is 0 at every call site, so availability = Ready condition"],
    },
    "C05": {
        "streams": [("select_current", 4000, 80000)],
        "trusted_base": [
            "model of selectCurrentReplicaSet / IsCanaryDeployment{Ended,Paused,Valid,Failed} (lean/EdsModel/EdsCtl.lean, CanaryPred.lean) written by hand from controller.go / utils.go; tied by the select_current stream (exact instants: duration and noRestartsDuration at -1ns/0/+1ns)",
            "time.Time.Sub saturation is not modelled (differences stay far below 2^63 ns)",
        ],
        "assumptions": COMMON_ASSUME + ["spec passed the CRD schema (validationMode is auto or manual) and ValidateExtendedDaemonSetSpec (no duration in manual mode), as Reconcile guarantees before selecting"],
    },
}
