module verifharness

go 1.22.0

require (
	github.com/DataDog/extendeddaemonset v0.0.0
	github.com/DataDog/extendeddaemonset/api v0.0.0
	github.com/go-logr/logr v1.4.2
	k8s.io/api v0.31.1
	k8s.io/apimachinery v0.31.1
	k8s.io/cli-runtime v0.31.1
	k8s.io/client-go v0.31.1
	k8s.io/kube-state-metrics/v2 v2.13.0
	k8s.io/utils v0.0.0-20240711033017-18e509b52bc8
	sigs.k8s.io/controller-runtime v0.19.0
)

require (
	github.com/beorn7/perks v1.0.1 // indirect
	github.com/blang/semver/v4 v4.0.0 // indirect
	github.com/cespare/xxhash/v2 v2.3.0 // indirect
	github.com/davecgh/go-spew v1.1.2-0.20180830191138-d8f796af33cc // indirect
	github.com/emicklei/go-restful/v3 v3.11.0 // indirect
	github.com/evanphx/json-patch/v5 v5.9.0 // indirect
	github.com/fsnotify/fsnotify v1.7.0 // indirect
	github.com/fxamacker/cbor/v2 v2.7.0 // indirect
	github.com/go-errors/errors v1.4.2 // indirect
	github.com/go-openapi/jsonpointer v0.21.0 // indirect
	github.com/go-openapi/jsonreference v0.20.2 // indirect
	github.com/go-openapi/swag v0.23.0 // indirect
	github.com/gogo/protobuf v1.3.2 // indirect
	github.com/golang/groupcache v0.0.0-20210331224755-41bb18bfe9da // indirect
	github.com/golang/protobuf v1.5.4 // indirect
	github.com/google/btree v1.0.1 // indirect
	github.com/google/gnostic-models v0.6.9 // indirect
	github.com/google/go-cmp v0.6.0 // indirect
	github.com/google/gofuzz v1.2.0 // indirect
	github.com/google/shlex v0.0.0-20191202100458-e7afc7fbc510 // indirect
	github.com/google/uuid v1.6.0 // indirect
	github.com/gregjones/httpcache v0.0.0-20180305231024-9cad4c3443a7 // indirect
	github.com/hako/durafmt v0.0.0-20210608085754-5c1018a4e16b // indirect
	github.com/imdario/mergo v0.3.12 // indirect
	github.com/josharian/intern v1.0.0 // indirect
	github.com/json-iterator/go v1.1.12 // indirect
	github.com/liggitt/tabwriter v0.0.0-20181228230101-89fcab3d43de // indirect
	github.com/mailru/easyjson v0.7.7 // indirect
	github.com/mattn/go-runewidth v0.0.15 // indirect
	github.com/moby/term v0.5.0 // indirect
	github.com/modern-go/concurrent v0.0.0-20180306012644-bacd9c7ef1dd // indirect
	github.com/modern-go/reflect2 v1.0.2 // indirect
	github.com/monochromegane/go-gitignore v0.0.0-20200626010858-205db1a8cc00 // indirect
	github.com/munnerz/goautoneg v0.0.0-20191010083416-a7dc8b61c822 // indirect
	github.com/olekukonko/tablewriter v0.0.0-20170122224234-a0225b3f23b5 // indirect
	github.com/peterbourgon/diskv v2.0.1+incompatible // indirect
	github.com/pkg/errors v0.9.1 // indirect
	github.com/prometheus/client_golang v1.19.1 // indirect
	github.com/prometheus/client_model v0.6.1 // indirect
	github.com/prometheus/common v0.55.0 // indirect
	github.com/prometheus/procfs v0.15.1 // indirect
	github.com/rivo/uniseg v0.4.4 // indirect
	github.com/spf13/cobra v1.8.1 // indirect
	github.com/spf13/pflag v1.0.5 // indirect
	github.com/x448/float16 v0.8.4 // indirect
	github.com/xlab/treeprint v1.2.0 // indirect
	go.starlark.net v0.0.0-20230525235612-a134d8f9ddca // indirect
	golang.org/x/exp v0.0.0-20230905200255-921286631fa9 // indirect
	golang.org/x/net v0.28.0 // indirect
	golang.org/x/oauth2 v0.21.0 // indirect
	golang.org/x/sync v0.8.0 // indirect
	golang.org/x/sys v0.23.0 // indirect
	golang.org/x/term v0.23.0 // indirect
	golang.org/x/text v0.17.0 // indirect
	golang.org/x/time v0.5.0 // indirect
	gomodules.xyz/jsonpatch/v2 v2.4.0 // indirect
	google.golang.org/protobuf v1.35.1 // indirect
	gopkg.in/evanphx/json-patch.v4 v4.12.0 // indirect
	gopkg.in/inf.v0 v0.9.1 // indirect
	gopkg.in/yaml.v2 v2.4.0 // indirect
	gopkg.in/yaml.v3 v3.0.1 // indirect
	k8s.io/apiextensions-apiserver v0.31.1 // indirect
	k8s.io/component-base v0.31.1 // indirect
	k8s.io/klog/v2 v2.130.1 // indirect
	k8s.io/kube-openapi v0.0.0-20240228011516-70dd3763d340 // indirect
	sigs.k8s.io/json v0.0.0-20221116044647-bc3834ca7abd // indirect
	sigs.k8s.io/kustomize/api v0.17.2 // indirect
	sigs.k8s.io/kustomize/kyaml v0.17.1 // indirect
	sigs.k8s.io/structured-merge-diff/v4 v4.4.1 // indirect
	sigs.k8s.io/yaml v1.4.0 // indirect
)

replace github.com/DataDog/extendeddaemonset => /repo

replace github.com/DataDog/extendeddaemonset/api => /repo/api
