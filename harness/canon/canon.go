// Package canon converts the real API objects into the canonical wire records decoded by the Lean
// driver (lean/EdsModel/Objects.lean). Field names are the Lean structure field names.
package canon

import (
	"encoding/json"
	"fmt"
	"regexp"
	"sort"
	"strconv"
	"strings"
	"time"

	corev1 "k8s.io/api/core/v1"
	metav1 "k8s.io/apimachinery/pkg/apis/meta/v1"
	"k8s.io/apimachinery/pkg/util/intstr"

	edsv1 "github.com/DataDog/extendeddaemonset/api/v1alpha1"
	"github.com/DataDog/extendeddaemonset/pkg/controller/utils/comparison"
)

// Epoch is the logical origin of all canonical times.
var Epoch = time.Date(2026, 1, 1, 0, 0, 0, 0, time.UTC)

// ZeroTime is the wire value of Go's zero time.Time (Lean: Eds.zeroTime).
const ZeroTime int64 = -4000000000000000000

// T converts a time to canonical nanoseconds.
func T(t time.Time) int64 {
	if t.IsZero() {
		return ZeroTime
	}
	return t.Sub(Epoch).Nanoseconds()
}

// At is the inverse of T for non-zero values.
func At(ns int64) time.Time {
	if ns == ZeroTime {
		return time.Time{}
	}
	return Epoch.Add(time.Duration(ns))
}

func MT(t metav1.Time) int64 { return T(t.Time) }

func optMT(t *metav1.Time) *int64 {
	if t == nil {
		return nil
	}
	v := T(t.Time)
	return &v
}

type KV struct {
	K string `json:"k"`
	V string `json:"v"`
}

// SM canonicalises a string map (sorted by key).
func SM(m map[string]string) []KV {
	out := make([]KV, 0, len(m))
	for k, v := range m {
		out = append(out, KV{k, v})
	}
	sort.Slice(out, func(i, j int) bool { return out[i].K < out[j].K })
	return out
}

type IntOrStr struct {
	Kind string `json:"kind"`
	Val  int64  `json:"val"`
}

var intRE = regexp.MustCompile(`^[+-]?[0-9]+$`)

// IOS canonicalises an IntOrString the way the legacy GetValueFromIntOrPercent reads it; the
// parse is done here independently (regexp + ParseInt), not with the intstr helper under test.
func IOS(v *intstr.IntOrString) *IntOrStr {
	if v == nil {
		return nil
	}
	if v.Type == intstr.Int {
		return &IntOrStr{"int", int64(v.IntVal)}
	}
	s := strings.ReplaceAll(v.StrVal, "%", "")
	if intRE.MatchString(s) {
		if n, err := strconv.ParseInt(s, 10, 64); err == nil {
			return &IntOrStr{"pct", n}
		}
	}
	return &IntOrStr{"bad", 0}
}

type Taint struct {
	Key    string `json:"key"`
	Value  string `json:"value"`
	Effect string `json:"effect"`
}

type Toleration struct {
	Key    string `json:"key"`
	Op     string `json:"op"`
	Value  string `json:"value"`
	Effect string `json:"effect"`
}

type Req struct {
	Key    string   `json:"key"`
	Op     string   `json:"op"`
	Values []string `json:"values"`
}

type Term struct {
	Exprs  []Req `json:"exprs"`
	Fields []Req `json:"fields"`
}

type LabelSelector struct {
	MatchLabels []KV  `json:"matchLabels"`
	Exprs       []Req `json:"exprs"`
}

type Resources struct {
	Limits   []KV `json:"limits"`
	Requests []KV `json:"requests"`
}

type Container struct {
	Name string    `json:"name"`
	Res  Resources `json:"res"`
}

type Override struct {
	Container string    `json:"container"`
	Ok        bool      `json:"ok"`
	Res       Resources `json:"res"`
}

type Node struct {
	Name        string     `json:"name"`
	Labels      []KV       `json:"labels"`
	Annotations []KV       `json:"annotations"`
	Taints      []Taint    `json:"taints"`
	ResHash     string     `json:"resHash"`
	Overrides   []Override `json:"overrides"`
}

type Template struct {
	Labels       []KV         `json:"labels"`
	Annotations  []KV         `json:"annotations"`
	NodeSelector []KV         `json:"nodeSelector"`
	AffOther     string       `json:"affOther"`
	AffRequired  *[]Term      `json:"affRequired,omitempty"`
	Tolerations  []Toleration `json:"tolerations"`
	Containers   []Container  `json:"containers"`
}

type LastTerm struct {
	Reason     string `json:"reason"`
	FinishedAt int64  `json:"finishedAt"`
	Empty      bool   `json:"empty"`
}

type ContainerStatus struct {
	Name     string    `json:"name"`
	Restarts int64     `json:"restarts"`
	Waiting  *string   `json:"waiting,omitempty"`
	LastTerm *LastTerm `json:"lastTerm,omitempty"`
}

type PodCond struct {
	Type           string `json:"type"`
	Status         string `json:"status"`
	Reason         string `json:"reason"`
	LastTransition int64  `json:"lastTransition"`
}

type OwnerRef struct {
	Kind string `json:"kind"`
	Name string `json:"name"`
}

type Pod struct {
	Name        string            `json:"name"`
	Ns          string            `json:"ns"`
	Labels      []KV              `json:"labels"`
	HasLabels   bool              `json:"hasLabels"`
	Annotations []KV              `json:"annotations"`
	Owners      []OwnerRef        `json:"owners"`
	Creation    int64             `json:"creation"`
	Deletion    *int64            `json:"deletion,omitempty"`
	GracePeriod *int64            `json:"gracePeriod,omitempty"`
	NodeName    string            `json:"nodeName"`
	AffOther    string            `json:"affOther"`
	AffRequired *[]Term           `json:"affRequired,omitempty"`
	Tolerations []Toleration      `json:"tolerations"`
	Containers  []Container       `json:"containers"`
	Phase       string            `json:"phase"`
	StartTime   *int64            `json:"startTime,omitempty"`
	Conds       []PodCond         `json:"conds"`
	Cstats      []ContainerStatus `json:"cstats"`
	MainCstats  int               `json:"mainCstats"`
}

type Cond struct {
	Type           string `json:"type"`
	Status         string `json:"status"`
	LastTransition int64  `json:"lastTransition"`
	LastUpdate     int64  `json:"lastUpdate"`
	Reason         string `json:"reason"`
	Message        string `json:"message"`
}

type ERSStatus struct {
	Status    string `json:"status"`
	Desired   int64  `json:"desired"`
	Current   int64  `json:"current"`
	Ready     int64  `json:"ready"`
	Available int64  `json:"available"`
	Ignored   int64  `json:"ignored"`
	Conds     []Cond `json:"conds"`
}

type ERS struct {
	Name               string         `json:"name"`
	Ns                 string         `json:"ns"`
	UID                string         `json:"uid"`
	Labels             []KV           `json:"labels"`
	Annotations        []KV           `json:"annotations"`
	Creation           int64          `json:"creation"`
	Deleted            bool           `json:"deleted"`
	OwnerEds           *string        `json:"ownerEds,omitempty"`
	Selector           *LabelSelector `json:"selector,omitempty"`
	TemplateGeneration string         `json:"templateGeneration"`
	Template           Template       `json:"template"`
	Status             ERSStatus      `json:"status"`
}

type RollingUpdate struct {
	MaxUnavailable            *IntOrStr `json:"maxUnavailable,omitempty"`
	MaxPodSchedulerFailure    *IntOrStr `json:"maxPodSchedulerFailure,omitempty"`
	MaxParallelPodCreation    *int64    `json:"maxParallelPodCreation,omitempty"`
	SlowStartInterval         *int64    `json:"slowStartInterval,omitempty"`
	SlowStartAdditiveIncrease *IntOrStr `json:"slowStartAdditiveIncrease,omitempty"`
}

type AutoPause struct {
	Enabled              *bool  `json:"enabled,omitempty"`
	MaxRestarts          *int64 `json:"maxRestarts,omitempty"`
	MaxSlowStartDuration *int64 `json:"maxSlowStartDuration,omitempty"`
}

type AutoFail struct {
	Enabled             *bool  `json:"enabled,omitempty"`
	MaxRestarts         *int64 `json:"maxRestarts,omitempty"`
	MaxRestartsDuration *int64 `json:"maxRestartsDuration,omitempty"`
	CanaryTimeout       *int64 `json:"canaryTimeout,omitempty"`
}

type Canary struct {
	Replicas           *IntOrStr      `json:"replicas,omitempty"`
	Duration           *int64         `json:"duration,omitempty"`
	NodeSelector       *LabelSelector `json:"nodeSelector,omitempty"`
	AntiAffinityKeys   []string       `json:"antiAffinityKeys"`
	AutoPause          *AutoPause     `json:"autoPause,omitempty"`
	AutoFail           *AutoFail      `json:"autoFail,omitempty"`
	NoRestartsDuration *int64         `json:"noRestartsDuration,omitempty"`
	ValidationMode     string         `json:"validationMode"`
}

type Strategy struct {
	RollingUpdate      RollingUpdate `json:"rollingUpdate"`
	Canary             *Canary       `json:"canary,omitempty"`
	ReconcileFrequency *int64        `json:"reconcileFrequency,omitempty"`
}

type CanaryStatus struct {
	ReplicaSet string   `json:"replicaSet"`
	Nodes      []string `json:"nodes"`
}

type EDSStatus struct {
	Desired          int64         `json:"desired"`
	Current          int64         `json:"current"`
	Ready            int64         `json:"ready"`
	Available        int64         `json:"available"`
	UpToDate         int64         `json:"upToDate"`
	Ignored          int64         `json:"ignored"`
	State            string        `json:"state"`
	ActiveReplicaSet string        `json:"activeReplicaSet"`
	Reason           string        `json:"reason"`
	Canary           *CanaryStatus `json:"canary,omitempty"`
	Conds            []Cond        `json:"conds"`
}

type EDS struct {
	Name         string    `json:"name"`
	Ns           string    `json:"ns"`
	Labels       []KV      `json:"labels"`
	Annotations  []KV      `json:"annotations"`
	TemplateHash string    `json:"templateHash"`
	TemplateName string    `json:"templateName"`
	Template     Template  `json:"template"`
	Strategy     Strategy  `json:"strategy"`
	Status       EDSStatus `json:"status"`
}

type Setting struct {
	Name         string        `json:"name"`
	Ns           string        `json:"ns"`
	Creation     int64         `json:"creation"`
	Reference    *string       `json:"reference,omitempty"`
	NodeSelector LabelSelector `json:"nodeSelector"`
	BadSelector  bool          `json:"badSelector"`
	Containers   []Container   `json:"containers"`
	Status       string        `json:"status"`
	Error        string        `json:"error"`
}

type NodeItem struct {
	Node    Node     `json:"node"`
	Setting *Setting `json:"setting,omitempty"`
}

// ---------------------------------------------------------------------------------------------

func strs(in []string) []string {
	if in == nil {
		return []string{}
	}
	return in
}

func reqsNS(in []corev1.NodeSelectorRequirement) []Req {
	out := make([]Req, 0, len(in))
	for _, r := range in {
		out = append(out, Req{r.Key, string(r.Operator), strs(r.Values)})
	}
	return out
}

func reqsLS(in []metav1.LabelSelectorRequirement) []Req {
	out := make([]Req, 0, len(in))
	for _, r := range in {
		out = append(out, Req{r.Key, string(r.Operator), strs(r.Values)})
	}
	return out
}

func LS(s *metav1.LabelSelector) *LabelSelector {
	if s == nil {
		return nil
	}
	return &LabelSelector{SM(s.MatchLabels), reqsLS(s.MatchExpressions)}
}

// Aff splits an affinity into (opaque rest, required node-selector terms).
func Aff(a *corev1.Affinity) (string, *[]Term) {
	if a == nil {
		return "", nil
	}
	other := ""
	if a.PodAffinity != nil {
		other += fmt.Sprintf("podAffinity:%v;", a.PodAffinity)
	}
	if a.PodAntiAffinity != nil {
		other += fmt.Sprintf("podAntiAffinity:%v;", a.PodAntiAffinity)
	}
	if a.NodeAffinity == nil {
		return other, nil
	}
	if len(a.NodeAffinity.PreferredDuringSchedulingIgnoredDuringExecution) > 0 {
		other += fmt.Sprintf("preferred:%v;", a.NodeAffinity.PreferredDuringSchedulingIgnoredDuringExecution)
	}
	req := a.NodeAffinity.RequiredDuringSchedulingIgnoredDuringExecution
	if req == nil {
		return other, nil
	}
	terms := make([]Term, 0, len(req.NodeSelectorTerms))
	for _, t := range req.NodeSelectorTerms {
		terms = append(terms, Term{reqsNS(t.MatchExpressions), reqsNS(t.MatchFields)})
	}
	return other, &terms
}

func Tols(in []corev1.Toleration) []Toleration {
	out := make([]Toleration, 0, len(in))
	for _, t := range in {
		out = append(out, Toleration{t.Key, string(t.Operator), t.Value, string(t.Effect)})
	}
	return out
}

func resList(rl corev1.ResourceList) []KV {
	m := map[string]string{}
	for k, q := range rl {
		m[string(k)] = strconv.FormatInt(q.MilliValue(), 10)
	}
	return SM(m)
}

func Conts(in []corev1.Container) []Container {
	out := make([]Container, 0, len(in))
	for _, c := range in {
		out = append(out, Container{c.Name, Resources{resList(c.Resources.Limits), resList(c.Resources.Requests)}})
	}
	return out
}

// CNode canonicalises a node; the resource-override hash is computed for (ns, edsName).
func CNode(n *corev1.Node, ns, edsName string) Node {
	taints := make([]Taint, 0, len(n.Spec.Taints))
	for _, t := range n.Spec.Taints {
		taints = append(taints, Taint{t.Key, t.Value, string(t.Effect)})
	}
	// resource-override annotations for (ns, edsName), parsed here independently of the code under test
	prefix := fmt.Sprintf(edsv1.ExtendedDaemonSetRessourceNodeAnnotationKey, ns, edsName, "")
	overrides := []Override{}
	keys := make([]string, 0, len(n.Annotations))
	for k := range n.Annotations {
		keys = append(keys, k)
	}
	sort.Strings(keys)
	for _, k := range keys {
		if !strings.HasPrefix(k, prefix) {
			continue
		}
		o := Override{Container: strings.TrimPrefix(k, prefix), Res: Resources{Limits: []KV{}, Requests: []KV{}}}
		var rr corev1.ResourceRequirements
		if err := json.Unmarshal([]byte(n.Annotations[k]), &rr); err == nil {
			o.Ok = true
			o.Res = Resources{resList(rr.Limits), resList(rr.Requests)}
		}
		overrides = append(overrides, o)
	}
	return Node{
		Name: n.Name, Labels: SM(n.Labels), Annotations: SM(n.Annotations), Taints: taints,
		ResHash:   comparison.GenerateHashFromEDSResourceNodeAnnotation(ns, edsName, n.Annotations),
		Overrides: overrides,
	}
}

func CTemplate(t *corev1.PodTemplateSpec) Template {
	other, req := Aff(t.Spec.Affinity)
	return Template{
		Labels: SM(t.Labels), Annotations: SM(t.Annotations), NodeSelector: SM(t.Spec.NodeSelector),
		AffOther: other, AffRequired: req, Tolerations: Tols(t.Spec.Tolerations), Containers: Conts(t.Spec.Containers),
	}
}

func cstat(s corev1.ContainerStatus) ContainerStatus {
	out := ContainerStatus{Name: s.Name, Restarts: int64(s.RestartCount)}
	if s.State.Waiting != nil {
		r := s.State.Waiting.Reason
		out.Waiting = &r
	}
	if s.LastTerminationState != (corev1.ContainerState{}) && s.LastTerminationState.Terminated != nil {
		t := s.LastTerminationState.Terminated
		out.LastTerm = &LastTerm{Reason: t.Reason, FinishedAt: MT(t.FinishedAt), Empty: *t == (corev1.ContainerStateTerminated{})}
	}
	return out
}

func CPod(p *corev1.Pod) Pod {
	other, req := Aff(p.Spec.Affinity)
	out := Pod{
		Name: p.Name, Ns: p.Namespace, Labels: SM(p.Labels), HasLabels: p.Labels != nil, Annotations: SM(p.Annotations),
		Owners: []OwnerRef{}, Creation: MT(p.CreationTimestamp), Deletion: optMT(p.DeletionTimestamp),
		GracePeriod: p.DeletionGracePeriodSeconds, NodeName: p.Spec.NodeName, AffOther: other, AffRequired: req,
		Tolerations: Tols(p.Spec.Tolerations), Containers: Conts(p.Spec.Containers), Phase: string(p.Status.Phase),
		StartTime: optMT(p.Status.StartTime), Conds: []PodCond{}, Cstats: []ContainerStatus{},
		MainCstats: len(p.Status.ContainerStatuses),
	}
	for _, o := range p.OwnerReferences {
		out.Owners = append(out.Owners, OwnerRef{o.Kind, o.Name})
	}
	for _, c := range p.Status.Conditions {
		out.Conds = append(out.Conds, PodCond{string(c.Type), string(c.Status), c.Reason, MT(c.LastTransitionTime)})
	}
	for _, s := range p.Status.ContainerStatuses {
		out.Cstats = append(out.Cstats, cstat(s))
	}
	for _, s := range p.Status.InitContainerStatuses {
		out.Cstats = append(out.Cstats, cstat(s))
	}
	for _, s := range p.Status.EphemeralContainerStatuses {
		out.Cstats = append(out.Cstats, cstat(s))
	}
	return out
}

func CERSStatus(s *edsv1.ExtendedDaemonSetReplicaSetStatus) ERSStatus {
	out := ERSStatus{Status: s.Status, Desired: int64(s.Desired), Current: int64(s.Current), Ready: int64(s.Ready),
		Available: int64(s.Available), Ignored: int64(s.IgnoredUnresponsiveNodes), Conds: []Cond{}}
	for _, c := range s.Conditions {
		out.Conds = append(out.Conds, Cond{string(c.Type), string(c.Status), MT(c.LastTransitionTime), MT(c.LastUpdateTime), c.Reason, c.Message})
	}
	return out
}

func CERS(e *edsv1.ExtendedDaemonSetReplicaSet) ERS {
	out := ERS{
		Name: e.Name, Ns: e.Namespace, UID: string(e.UID), Labels: SM(e.Labels), Annotations: SM(e.Annotations),
		Creation: MT(e.CreationTimestamp), Deleted: e.DeletionTimestamp != nil, Selector: LS(e.Spec.Selector),
		TemplateGeneration: e.Spec.TemplateGeneration, Template: CTemplate(&e.Spec.Template), Status: CERSStatus(&e.Status),
	}
	for _, o := range e.OwnerReferences {
		if o.Kind == "ExtendedDaemonSet" {
			n := o.Name
			out.OwnerEds = &n
			break
		}
	}
	return out
}

func dur(d *metav1.Duration) *int64 {
	if d == nil {
		return nil
	}
	v := int64(d.Duration)
	return &v
}

func i32(p *int32) *int64 {
	if p == nil {
		return nil
	}
	v := int64(*p)
	return &v
}

func CStrategy(s *edsv1.ExtendedDaemonSetSpecStrategy) Strategy {
	out := Strategy{
		RollingUpdate: RollingUpdate{
			MaxUnavailable: IOS(s.RollingUpdate.MaxUnavailable), MaxPodSchedulerFailure: IOS(s.RollingUpdate.MaxPodSchedulerFailure),
			MaxParallelPodCreation: i32(s.RollingUpdate.MaxParallelPodCreation), SlowStartInterval: dur(s.RollingUpdate.SlowStartIntervalDuration),
			SlowStartAdditiveIncrease: IOS(s.RollingUpdate.SlowStartAdditiveIncrease),
		},
		ReconcileFrequency: dur(s.ReconcileFrequency),
	}
	if c := s.Canary; c != nil {
		cc := &Canary{
			Replicas: IOS(c.Replicas), Duration: dur(c.Duration), NodeSelector: LS(c.NodeSelector),
			AntiAffinityKeys: strs(c.NodeAntiAffinityKeys), NoRestartsDuration: dur(c.NoRestartsDuration),
			ValidationMode: string(c.ValidationMode),
		}
		if c.AutoPause != nil {
			cc.AutoPause = &AutoPause{c.AutoPause.Enabled, i32(c.AutoPause.MaxRestarts), dur(c.AutoPause.MaxSlowStartDuration)}
		}
		if c.AutoFail != nil {
			cc.AutoFail = &AutoFail{c.AutoFail.Enabled, i32(c.AutoFail.MaxRestarts), dur(c.AutoFail.MaxRestartsDuration), dur(c.AutoFail.CanaryTimeout)}
		}
		out.Canary = cc
	}
	return out
}

func CEDSStatus(s *edsv1.ExtendedDaemonSetStatus) EDSStatus {
	out := EDSStatus{Desired: int64(s.Desired), Current: int64(s.Current), Ready: int64(s.Ready), Available: int64(s.Available),
		UpToDate: int64(s.UpToDate), Ignored: int64(s.IgnoredUnresponsiveNodes), State: string(s.State),
		ActiveReplicaSet: s.ActiveReplicaSet, Reason: string(s.Reason), Conds: []Cond{}}
	if s.Canary != nil {
		out.Canary = &CanaryStatus{s.Canary.ReplicaSet, strs(s.Canary.Nodes)}
	}
	for _, c := range s.Conditions {
		out.Conds = append(out.Conds, Cond{string(c.Type), string(c.Status), MT(c.LastTransitionTime), MT(c.LastUpdateTime), c.Reason, c.Message})
	}
	return out
}

func CEDS(d *edsv1.ExtendedDaemonSet) EDS {
	h, _ := comparison.GenerateMD5PodTemplateSpec(&d.Spec.Template)
	return EDS{
		Name: d.Name, Ns: d.Namespace, Labels: SM(d.Labels), Annotations: SM(d.Annotations), TemplateHash: h,
		TemplateName: d.Spec.Template.Name, Template: CTemplate(&d.Spec.Template), Strategy: CStrategy(&d.Spec.Strategy),
		Status: CEDSStatus(&d.Status),
	}
}

func CSetting(s *edsv1.ExtendedDaemonsetSetting) Setting {
	out := Setting{
		Name: s.Name, Ns: s.Namespace, Creation: MT(s.CreationTimestamp), NodeSelector: *LS(&s.Spec.NodeSelector),
		Containers: []Container{}, Status: string(s.Status.Status), Error: s.Status.Error,
	}
	if s.Spec.Reference != nil {
		n := s.Spec.Reference.Name
		out.Reference = &n
	}
	if _, err := metav1.LabelSelectorAsSelector(&s.Spec.NodeSelector); err != nil {
		out.BadSelector = true
	}
	for _, c := range s.Spec.Containers {
		out.Containers = append(out.Containers, Container{c.Name, Resources{resList(c.Resources.Limits), resList(c.Resources.Requests)}})
	}
	return out
}
