package streams

import (
	"bytes"
	"context"
	"fmt"
	"math/rand"
	"time"

	corev1 "k8s.io/api/core/v1"
	metav1 "k8s.io/apimachinery/pkg/apis/meta/v1"
	"k8s.io/apimachinery/pkg/util/intstr"
	"k8s.io/cli-runtime/pkg/genericclioptions"
	testingclock "k8s.io/utils/clock/testing"
	"sigs.k8s.io/controller-runtime/pkg/client"

	edsv1 "github.com/DataDog/extendeddaemonset/api/v1alpha1"
	"github.com/DataDog/extendeddaemonset/pkg/plugin/canary"
)

func init() {
	Registry["scenario_histories"] = streamScenarioHistories
}

// Scripted multi-phase histories: the situations a random walk of 20 operations practically never
// reaches because they need state carried over several role changes of the same replica set
// (re-use of a replica set after it was active, a second template change during a canary, a revert
// while a rollout is held, holds stacked on each other, node churn during a percentage canary…).
// Every reconcile step is compared with the L2 models and the step clauses by the driver, and the
// history ends with the common convergence phase and the quiescence clauses.
type history struct {
	name   string
	manual bool // canary validation mode manual
	script func(s *scenario, r *rand.Rand)
}

func (s *scenario) ioStreams() genericclioptions.IOStreams {
	return genericclioptions.IOStreams{In: &bytes.Buffer{}, Out: &bytes.Buffer{}, ErrOut: &bytes.Buffer{}}
}

func (s *scenario) setTemplate(id int) {
	s.updateEDS(func(d *edsv1.ExtendedDaemonSet) { d.Spec.Template = tplOf(id) })
	s.ops = append(s.ops, fmt.Sprintf("template := %d", id))
}

func (s *scenario) annotate(key, val string) {
	s.updateEDS(func(d *edsv1.ExtendedDaemonSet) {
		if d.Annotations == nil {
			d.Annotations = map[string]string{}
		}
		if val == "" {
			delete(d.Annotations, key)
		} else {
			d.Annotations[key] = val
		}
	})
	s.ops = append(s.ops, fmt.Sprintf("annotation %s=%q", key, val))
}

func (s *scenario) validate() {
	s.w.quiet(func() { _ = canary.VerifRunValidate(s.w.cl, s.ioStreams(), s.ns, s.name) })
	s.ops = append(s.ops, "kubectl-eds canary validate")
}

func (s *scenario) failCanary() {
	s.w.quiet(func() { _ = canary.VerifRunFail(s.w.cl, s.ioStreams(), s.ns, s.name) })
	s.ops = append(s.ops, "kubectl-eds canary fail")
}

func (s *scenario) pauseCanary(p bool) {
	s.w.quiet(func() { _ = canary.VerifRunPause(s.w.cl, s.ioStreams(), s.ns, s.name, p) })
	s.ops = append(s.ops, fmt.Sprintf("kubectl-eds canary pause=%v", p))
}

func (s *scenario) rounds(n int) {
	for k := 0; k < n; k++ {
		s.round(true)
	}
}

func (s *scenario) addNode(labels map[string]string) {
	name := fmt.Sprintf("n%d", s.nextNode)
	s.nextNode++
	s.w.quiet(func() { _ = s.w.cl.Create(context.TODO(), &corev1.Node{ObjectMeta: metav1.ObjectMeta{Name: name, Labels: labels}}) })
	s.ops = append(s.ops, "node joins: "+name)
}

func (s *scenario) delNode(name string) {
	s.w.quiet(func() { _ = s.w.cl.Delete(context.TODO(), &corev1.Node{ObjectMeta: metav1.ObjectMeta{Name: name}}) })
	s.ops = append(s.ops, "node removed: "+name)
}

var histories = []history{
	// a replica set that was active long ago is re-used as the canary and promoted again
	{"revert-through-canary", true, func(s *scenario, r *rand.Rand) {
		s.settle(12)
		s.tick(time.Duration(6+r.Intn(5)) * time.Minute)
		s.setTemplate(2)
		s.rounds(2)
		s.validate()
		s.rounds(1)
		// the rollout of the second template has only started: the first replica set still owns pods
		// when its template comes back (sometimes held by a pause, which also opens the label window)
		hold := r.Intn(3) == 0
		if hold {
			s.annotate(edsv1.ExtendedDaemonSetRollingUpdatePausedAnnotationKey, "true")
		}
		s.setTemplate(1)
		s.rounds(4) // the old pod on the canary node goes, the canary pod comes and gets its label
		s.validate()
		s.rounds(1)
		if hold {
			s.annotate(edsv1.ExtendedDaemonSetRollingUpdatePausedAnnotationKey, "")
		}
	}},
	// A -> B -> A before B was ever promoted: the replica set of A is found again, B's is collected
	{"quick-revert-during-canary", false, func(s *scenario, r *rand.Rand) {
		s.settle(12)
		s.setTemplate(2)
		s.rounds(1 + r.Intn(2))
		s.setTemplate(1)
		s.rounds(2)
		if r.Intn(2) == 0 {
			s.setTemplate(2) // and B once more: its replica set is re-used if it still exists
			s.rounds(1)
		}
	}},
	// a second template change while a canary is running: the canary is re-targeted on the same nodes
	{"second-template-during-canary", false, func(s *scenario, r *rand.Rand) {
		s.settle(12)
		s.setTemplate(2)
		s.rounds(2)
		s.setTemplate(3)
		s.rounds(2)
		if r.Intn(2) == 0 {
			s.validate()
		}
	}},
	// a failed canary, rolled back, then the failed template is applied again
	{"reapply-failed-template", false, func(s *scenario, r *rand.Rand) {
		s.settle(12)
		s.setTemplate(2)
		s.rounds(2)
		s.failCanary()
		s.rounds(1 + r.Intn(3))
		if r.Intn(2) == 0 {
			s.tick(3 * time.Minute)
		}
		s.setTemplate(2)
		s.rounds(2)
	}},
	// the failure is only seen by the ExtendedDaemonSet controller after the canary duration elapsed
	{"failure-observed-late", false, func(s *scenario, r *rand.Rand) {
		s.settle(12)
		s.setTemplate(2)
		s.round(true)
		// the replica-set controller marks the failure; the ExtendedDaemonSet controller is away
		s.failCanary()
		for _, n := range s.ersNames(s.ns, s.name) {
			s.recERS(s.ns, s.name, n, nil)
		}
		s.tick(time.Duration(4+r.Intn(4)) * time.Minute)
		s.rounds(2)
	}},
	// nodes join, leave and are relabelled while a percentage canary runs
	{"node-churn-during-percent-canary", false, func(s *scenario, r *rand.Rand) {
		s.updateEDS(func(d *edsv1.ExtendedDaemonSet) {
			d.Spec.Strategy.Canary.Replicas = ios(intstr.FromString(pick(r, "50%", "34%", "100%")))
		})
		s.settle(12)
		s.setTemplate(2)
		s.rounds(2)
		for k := 0; k < 2+r.Intn(3); k++ {
			s.addNode(nil)
		}
		s.rounds(2)
		if r.Intn(2) == 0 {
			s.delNode(fmt.Sprintf("n%d", s.nextNode-1))
			s.rounds(1)
		}
	}},
	// holds stacked on each other while a node without pod exists
	{"pause-then-freeze", false, func(s *scenario, r *rand.Rand) {
		s.updateEDS(func(d *edsv1.ExtendedDaemonSet) { d.Spec.Strategy.Canary = nil })
		s.settle(12)
		first, second := edsv1.ExtendedDaemonSetRollingUpdatePausedAnnotationKey, edsv1.ExtendedDaemonSetRolloutFrozenAnnotationKey
		if r.Intn(2) == 0 {
			first, second = second, first
		}
		s.annotate(first, "true")
		s.rounds(1)
		s.setTemplate(2)
		s.annotate(second, "true")
		s.addNode(nil)
		s.rounds(2)
		s.annotate(first, pick(r, "", "false"))
		s.addNode(nil)
		s.rounds(2)
	}},
	// a paused canary is validated; a failed one is reverted: the EDS conditions must be reset
	{"validate-while-paused", true, func(s *scenario, r *rand.Rand) {
		s.settle(12)
		s.setTemplate(2)
		s.rounds(2)
		s.pauseCanary(true)
		s.rounds(1 + r.Intn(2))
		s.validate()
		s.rounds(2)
	}},
	// the active replica set reports no pod (no eligible node yet) while a canary is in progress
	{"canary-with-empty-active", false, func(s *scenario, r *rand.Rand) {
		s.w.quiet(func() {
			nl := &corev1.NodeList{}
			_ = s.w.cl.List(context.TODO(), nl)
			for i := range nl.Items {
				n := &nl.Items[i]
				n.Spec.Taints = []corev1.Taint{{Key: "maintenance", Effect: corev1.TaintEffectNoSchedule}}
				_ = s.w.cl.Update(context.TODO(), n)
			}
		})
		s.ops = append(s.ops, "every node tainted NoSchedule")
		s.rounds(3)
		s.setTemplate(2)
		s.rounds(2)
		s.setTemplate(1)
		s.rounds(2)
		s.w.quiet(func() {
			nl := &corev1.NodeList{}
			_ = s.w.cl.List(context.TODO(), nl)
			for i := range nl.Items {
				n := &nl.Items[i]
				n.Spec.Taints = nil
				_ = s.w.cl.Update(context.TODO(), n)
			}
		})
		s.ops = append(s.ops, "taints removed")
	}},
}

func streamScenarioHistories(r *rand.Rand, i int, tier string) *Case {
	h := histories[i%len(histories)]
	now := time.Now().Truncate(time.Second).Add(-2 * time.Second)
	nn := 3 + r.Intn(2)
	var objs []client.Object
	for k := 0; k < nn; k++ {
		objs = append(objs, &corev1.Node{ObjectMeta: metav1.ObjectMeta{Name: fmt.Sprintf("n%d", k)}})
	}
	eds := &edsv1.ExtendedDaemonSet{ObjectMeta: metav1.ObjectMeta{Name: testEDS, Namespace: testNS, UID: "uid-eds", CreationTimestamp: mt(now.Add(-time.Hour))}}
	eds.Spec.Template = tplOf(1)
	eds.Spec.Strategy.RollingUpdate.MaxUnavailable = ios(intstr.FromInt(1))
	eds.Spec.Strategy.RollingUpdate.SlowStartAdditiveIncrease = ios(intstr.FromInt(nn + 2))
	c := &edsv1.ExtendedDaemonSetSpecStrategyCanary{Replicas: ios(intstr.FromInt(1))}
	if h.manual {
		c.ValidationMode = edsv1.ExtendedDaemonSetSpecStrategyCanaryValidationModeManual
	} else {
		c.ValidationMode = edsv1.ExtendedDaemonSetSpecStrategyCanaryValidationModeAuto
		c.Duration = &metav1.Duration{Duration: time.Duration(150+r.Intn(100)) * time.Second}
		c.NoRestartsDuration = &metav1.Duration{Duration: 60 * time.Second}
	}
	eds.Spec.Strategy.Canary = c
	objs = append(objs, eds)
	sc := &scenario{r: r, ns: testNS, name: testEDS, nextNode: nn, tplID: 1, clock: testingclock.NewFakeClock(time.Now())}
	sc.w = newSimWorld(objs, r.Intn(2) == 0, edsv1.ExtendedDaemonSetSpecStrategyCanaryValidationModeAuto)
	sc.installClock()
	h.script(sc, r)
	scripted := len(sc.steps)
	rounds, quietRounds := sc.converge()
	cat := []string{"history:" + h.name, fmt.Sprintf("converged:%v", quietRounds >= 3)}
	if rounds > 10 {
		cat = append(cat, "rounds>10")
	}
	if sc.lastEdsKind != "ok" {
		cat = append(cat, "eds-reconcile-reports-error")
	}
	return &Case{Fn: "scenario", In: map[string]interface{}{"ops": sc.ops, "randomSteps": scripted, "history": h.name},
		Out: map[string]interface{}{"steps": sc.steps}, Cat: cat}
}
