package streams

import (
	"context"
	"fmt"
	"math/rand"

	"github.com/go-logr/logr"
	corev1 "k8s.io/api/core/v1"
	"k8s.io/apimachinery/pkg/types"
	"k8s.io/client-go/tools/record"
	"sigs.k8s.io/controller-runtime/pkg/client"
	"sigs.k8s.io/controller-runtime/pkg/reconcile"

	edsv1 "github.com/DataDog/extendeddaemonset/api/v1alpha1"
	settingctl "github.com/DataDog/extendeddaemonset/controllers/extendeddaemonsetsetting"

	"verifharness/canon"
)

func init() {
	Registry["setting_rounds"] = streamSettingRounds
}

type settingStatusJ struct {
	Name   string `json:"name"`
	Status string `json:"status"`
	Error  string `json:"error"`
}

// runSettingRound reconciles every setting once, in the given order, with the real Reconciler against
// a fresh store built from objs, and returns the statuses stored afterwards (by name).
func runSettingRound(objs []client.Object, order []string) ([]settingStatusJ, bool, []string) {
	wl := &writeLog{}
	cl := loggingClient(objs, wl, nil)
	rec, _ := settingctl.NewReconciler(settingctl.ReconcilerOptions{}, cl, theScheme, logr.Discard(), record.NewFakeRecorder(1000))
	panicked := false
	for _, n := range order {
		p, _ := Recovered(func() {
			_, _ = rec.Reconcile(context.TODO(), reconcile.Request{NamespacedName: types.NamespacedName{Namespace: testNS, Name: n}})
		})
		panicked = panicked || p
	}
	sl := &edsv1.ExtendedDaemonsetSettingList{}
	_ = cl.List(context.TODO(), sl, client.InNamespace(testNS))
	var out []settingStatusJ
	for k := range sl.Items {
		out = append(out, settingStatusJ{sl.Items[k].Name, string(sl.Items[k].Status.Status), sl.Items[k].Status.Error})
	}
	foreign := []string{}
	for _, o := range wl.Order {
		if len(o) < 15 || o[:15] != "status:Setting/" {
			foreign = append(foreign, o)
		}
	}
	return out, panicked, foreign
}

// setting_rounds: the settings of a namespace start with arbitrary (stale) statuses; each is
// reconciled once against the same cluster state, in two different orders. C18: afterwards at most
// one of the settings overlapping on a node is valid, and the outcome does not depend on the order.
func streamSettingRounds(r *rand.Rand, i int, tier string) *Case {
	base := canon.Epoch
	ns := 2 + r.Intn(3)
	settings := genSettings(r, base, ns)
	for k := range settings {
		// stale statuses left by earlier states of the cluster
		switch r.Intn(3) {
		case 0:
			settings[k].Status.Status, settings[k].Status.Error = edsv1.ExtendedDaemonsetSettingStatusError, pick(r, "missing reference in spec", "conflict with another ExtendedDaemonsetSetting: gone")
		case 1:
			settings[k].Status.Status, settings[k].Status.Error = edsv1.ExtendedDaemonsetSettingStatusValid, ""
		default:
			settings[k].Status.Status, settings[k].Status.Error = "", ""
		}
	}
	nn := 1 + r.Intn(4)
	var objs []client.Object
	var cn []canon.Node
	for k := 0; k < nn; k++ {
		n := genNode(r, fmt.Sprintf("n%d", k), true)
		objs = append(objs, n)
		cn = append(cn, canon.CNode(n, testNS, testEDS))
	}
	var cs []canon.Setting
	var names []string
	for k := range settings {
		objs = append(objs, settings[k].DeepCopy())
		cs = append(cs, canon.CSetting(&settings[k]))
		names = append(names, settings[k].Name)
	}
	// a setting of another namespace selecting everything: never relevant
	other := settings[0].DeepCopy()
	other.Namespace, other.Name = "ns2", "elsewhere"
	other.Spec.NodeSelector.MatchLabels, other.Spec.NodeSelector.MatchExpressions = nil, nil
	objs = append(objs, other)
	o1 := append([]string{}, names...)
	r.Shuffle(len(o1), func(a, b int) { o1[a], o1[b] = o1[b], o1[a] })
	o2 := append([]string{}, o1...)
	for a, b := 0, len(o2)-1; a < b; a, b = a+1, b-1 { // the reverse order
		o2[a], o2[b] = o2[b], o2[a]
	}
	copyObjs := func() []client.Object {
		var out []client.Object
		for _, o := range objs {
			out = append(out, o.DeepCopyObject().(client.Object))
		}
		return out
	}
	// a third run: one reconcile (of a setting whose stored status is NOT valid) meets a failed List —
	// of the nodes or of the settings; it must not conclude "valid" from what it could not read
	faultedValid := false
	{
		wl := &writeLog{}
		cl := loggingClient(copyObjs(), wl, nil)
		var victim string
		for k := range settings {
			if settings[k].Status.Status != edsv1.ExtendedDaemonsetSettingStatusValid {
				victim = settings[k].Name
			}
		}
		if victim != "" {
			lf := &listFaultClient{Client: cl, failKind: pick(r, "NodeList", "ExtendedDaemonsetSettingList")}
			rec, _ := settingctl.NewReconciler(settingctl.ReconcilerOptions{}, lf, theScheme, logr.Discard(), record.NewFakeRecorder(1000))
			Recovered(func() {
				_, _ = rec.Reconcile(context.TODO(), reconcile.Request{NamespacedName: types.NamespacedName{Namespace: testNS, Name: victim}})
			})
			after := &edsv1.ExtendedDaemonsetSetting{}
			if err := cl.Get(context.TODO(), types.NamespacedName{Namespace: testNS, Name: victim}, after); err == nil {
				faultedValid = after.Status.Status == edsv1.ExtendedDaemonsetSettingStatusValid
			}
		}
	}
	s1, p1, f1 := runSettingRound(copyObjs(), o1)
	s2, p2, f2 := runSettingRound(copyObjs(), o2)
	cat := []string{fmt.Sprintf("settings:%d", ns)}
	nvalid := 0
	for _, s := range s1 {
		if s.Status == "valid" {
			nvalid++
		}
	}
	cat = append(cat, fmt.Sprintf("valid:%d", nvalid))
	_ = corev1.NodeList{}
	return &Case{Fn: "setting_rounds", In: map[string]interface{}{"settings": cs, "nodes": cn, "order1": o1, "order2": o2},
		Out: map[string]interface{}{"after1": s1, "after2": s2, "panic": p1 || p2, "foreign": append(f1, f2...), "faultedValid": faultedValid}, Cat: cat}
}
