package streams

import (
	"fmt"
	"math/rand"
	"time"

	corev1 "k8s.io/api/core/v1"
	metav1 "k8s.io/apimachinery/pkg/apis/meta/v1"
	"k8s.io/apimachinery/pkg/util/intstr"

	edsv1 "github.com/DataDog/extendeddaemonset/api/v1alpha1"
	edsctl "github.com/DataDog/extendeddaemonset/controllers/extendeddaemonset"

	"verifharness/canon"
)

func init() {
	Registry["select_current"] = streamSelectCurrent
}

func ersCond(t edsv1.ExtendedDaemonSetReplicaSetConditionType, status corev1.ConditionStatus, tr, up time.Time, reason string) edsv1.ExtendedDaemonSetReplicaSetCondition {
	return edsv1.ExtendedDaemonSetReplicaSetCondition{Type: t, Status: status, LastTransitionTime: mt(tr), LastUpdateTime: mt(up), Reason: reason}
}

// genCanarySpec draws a (defaulted-shape) canary strategy from the C05/C06 lattice.
func genCanarySpec(r *rand.Rand) *edsv1.ExtendedDaemonSetSpecStrategyCanary {
	c := &edsv1.ExtendedDaemonSetSpecStrategyCanary{}
	mode := pick(r, edsv1.ExtendedDaemonSetSpecStrategyCanaryValidationModeAuto, edsv1.ExtendedDaemonSetSpecStrategyCanaryValidationModeAuto, edsv1.ExtendedDaemonSetSpecStrategyCanaryValidationModeManual)
	c.ValidationMode = mode
	if mode == edsv1.ExtendedDaemonSetSpecStrategyCanaryValidationModeAuto {
		c.Duration = &metav1.Duration{Duration: pick(r, 0, time.Second, 10*time.Minute, time.Duration(1+r.Intn(1200))*time.Second)}
		switch r.Intn(4) {
		case 0:
		case 1:
			c.NoRestartsDuration = &metav1.Duration{Duration: 0}
		default:
			c.NoRestartsDuration = &metav1.Duration{Duration: time.Duration(1+r.Intn(600)) * time.Second}
		}
	} else if r.Intn(6) == 0 {
		// manual with a duration set anyway (rejected by validation, but the selector must not use it)
		c.Duration = &metav1.Duration{Duration: time.Duration(1+r.Intn(600)) * time.Second}
	}
	edsv1.DefaultExtendedDaemonSetSpecStrategyCanary(c, mode)
	if mode == edsv1.ExtendedDaemonSetSpecStrategyCanaryValidationModeManual && r.Intn(6) != 0 {
		c.Duration = nil
		c.NoRestartsDuration = nil
	}
	return c
}

func streamSelectCurrent(r *rand.Rand, i int, tier string) *Case {
	now := baseNow().Add(time.Duration(r.Intn(100000)) * time.Millisecond)
	eds := &edsv1.ExtendedDaemonSet{ObjectMeta: metav1.ObjectMeta{Name: testEDS, Namespace: testNS, Annotations: map[string]string{}}}
	eds.Spec.Strategy = defaultedStrategy()
	var cat []string
	if r.Intn(6) != 0 {
		eds.Spec.Strategy.Canary = genCanarySpec(r)
		cat = append(cat, "mode:"+string(eds.Spec.Strategy.Canary.ValidationMode))
	} else {
		cat = append(cat, "no-canary")
	}
	up := newERS("foo-new", genTemplate(r, 2, false), now)
	act := newERS("foo-old", genTemplate(r, 1, false), now.Add(-time.Hour))
	// age of the up-to-date replica set relative to the canary duration
	d := 10 * time.Minute
	if c := eds.Spec.Strategy.Canary; c != nil && c.Duration != nil {
		d = c.Duration.Duration
	}
	var age time.Duration
	switch r.Intn(7) {
	case 0:
		age = d - 1
	case 1:
		age = d
	case 2:
		age = d + 1
	case 3:
		age = d + time.Duration(1+r.Intn(3600))*time.Second
	case 4:
		age = 0
	default:
		age = time.Duration(r.Int63n(int64(d) + int64(time.Minute)))
	}
	cat = append(cat, fmt.Sprintf("age-vs-duration:%d", sign(int64(age-d))))
	up.CreationTimestamp = mt(now.Add(-age))
	// last restart
	if r.Intn(2) == 0 {
		nr := 5 * time.Minute
		if c := eds.Spec.Strategy.Canary; c != nil && c.NoRestartsDuration != nil {
			nr = c.NoRestartsDuration.Duration
		}
		var since time.Duration
		switch r.Intn(5) {
		case 0:
			since = nr - 1
		case 1:
			since = nr
		case 2:
			since = nr + 1
		default:
			since = time.Duration(r.Int63n(int64(nr) + int64(time.Minute)))
		}
		last := now.Add(-since)
		up.Status.Conditions = append(up.Status.Conditions, ersCond(edsv1.ConditionTypePodRestarting, corev1.ConditionTrue, last.Add(-time.Minute), last, ""))
		cat = append(cat, fmt.Sprintf("restart-vs-noRestarts:%d", sign(int64(since-nr))))
	}
	switch r.Intn(4) {
	case 0:
		up.Status.Conditions = append(up.Status.Conditions, ersCond(edsv1.ConditionTypeCanaryPaused, corev1.ConditionTrue, now, now, pick(r, "CrashLoopBackOff", "", "Weird")))
		cat = append(cat, "paused:cond")
	case 1:
		up.Status.Conditions = append(up.Status.Conditions, ersCond(edsv1.ConditionTypeCanaryPaused, corev1.ConditionFalse, now, now, ""))
	}
	switch r.Intn(4) {
	case 0:
		up.Status.Conditions = append(up.Status.Conditions, ersCond(edsv1.ConditionTypeCanaryFailed, corev1.ConditionTrue, now.Add(-time.Minute), now, "x"))
		cat = append(cat, "failed")
	case 1:
		up.Status.Conditions = append(up.Status.Conditions, ersCond(edsv1.ConditionTypeCanaryFailed, corev1.ConditionFalse, now, now, ""))
	}
	if v, ok := genAnnotValue(r); ok {
		eds.Annotations[edsv1.ExtendedDaemonSetCanaryPausedAnnotationKey] = v
		if v == "true" {
			cat = append(cat, "paused:annotation")
		}
		if r.Intn(2) == 0 {
			eds.Annotations[edsv1.ExtendedDaemonSetCanaryPausedReasonAnnotationKey] = "because"
		}
	}
	if v, ok := genAnnotValue(r); ok {
		eds.Annotations[edsv1.ExtendedDaemonSetCanaryUnpausedAnnotationKey] = v
	}
	switch r.Intn(4) {
	case 0:
		eds.Annotations[edsv1.ExtendedDaemonSetCanaryValidAnnotationKey] = up.Name
		cat = append(cat, "valid:this")
	case 1:
		eds.Annotations[edsv1.ExtendedDaemonSetCanaryValidAnnotationKey] = pick(r, "foo-other", act.Name, "", "foo-prev")
		cat = append(cat, "valid:other")
	}
	// status.canary as the previous reconcile left it: the up-to-date replica set, or the canary that
	// a template edit has just superseded (the status is rewritten only by this reconcile)
	switch r.Intn(3) {
	case 0:
		eds.Status.Canary = &edsv1.ExtendedDaemonSetStatusCanary{ReplicaSet: up.Name, Nodes: []string{"n1"}}
	case 1:
		eds.Status.Canary = &edsv1.ExtendedDaemonSetStatusCanary{ReplicaSet: pick(r, "foo-prev", "foo-prev", act.Name), Nodes: []string{"n1"}}
		cat = append(cat, "status-canary:superseded")
	}
	var active *edsv1.ExtendedDaemonSetReplicaSet
	same := false
	switch r.Intn(8) {
	case 0:
		active = nil
		cat = append(cat, "active:nil")
	case 1:
		active = up
		same = true
		cat = append(cat, "active:same-pointer")
	case 2:
		// same name, different pointer: what Reconcile passes when the active one is up to date
		active = up.DeepCopy()
		cat = append(cat, "active:same-name")
	default:
		active = act
	}
	var got *edsv1.ExtendedDaemonSetReplicaSet
	var rq time.Duration
	panicked, _ := Recovered(func() { got, rq = edsctl.VerifSelectCurrentReplicaSet(eds, active, up, now) })
	pickS := "none"
	switch {
	case panicked:
		pickS = "panic"
	case got == up && !same:
		pickS = "upToDate"
	case got == active && got != nil:
		pickS = "active"
	case got == nil:
		pickS = "nil"
	}
	cat = append(cat, "pick:"+pickS)
	in := map[string]interface{}{
		"eds": canon.CEDS(eds), "upToDate": canon.CERS(up), "samePtr": same, "now": canon.T(now),
	}
	if active != nil {
		in["active"] = canon.CERS(active)
	}
	return &Case{Fn: "select_current", In: in, Out: map[string]interface{}{"pick": pickS, "requeueAfter": int64(rq)}, Cat: cat}
}

func sign(x int64) int {
	if x < 0 {
		return -1
	}
	if x > 0 {
		return 1
	}
	return 0
}

var _ = intstr.FromInt
