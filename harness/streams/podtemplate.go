package streams

import (
	"context"
	"math/rand"

	"github.com/go-logr/logr"
	corev1 "k8s.io/api/core/v1"
	metav1 "k8s.io/apimachinery/pkg/apis/meta/v1"
	"k8s.io/apimachinery/pkg/types"
	"k8s.io/client-go/tools/record"
	"sigs.k8s.io/controller-runtime/pkg/client"
	"sigs.k8s.io/controller-runtime/pkg/reconcile"

	edsv1 "github.com/DataDog/extendeddaemonset/api/v1alpha1"
	podtplctl "github.com/DataDog/extendeddaemonset/controllers/podtemplate"
	"github.com/DataDog/extendeddaemonset/pkg/controller/utils/comparison"

	"verifharness/canon"
)

func init() {
	Registry["podtemplate"] = streamPodTemplate
}

// podTplJ mirrors Eds.PodTpl (lean/EdsModel/PodTemplateCtl.lean).
type podTplJ struct {
	Name         string         `json:"name"`
	Ns           string         `json:"ns"`
	Labels       []canon.KV     `json:"labels"`
	Annotations  []canon.KV     `json:"annotations"`
	TemplateHash string         `json:"templateHash"`
	Template     canon.Template `json:"template"`
	OwnerEds     *string        `json:"ownerEds,omitempty"`
}

func cPodTpl(p *corev1.PodTemplate) *podTplJ {
	h, _ := comparison.GenerateMD5PodTemplateSpec(&p.Template)
	out := &podTplJ{Name: p.Name, Ns: p.Namespace, Labels: canon.SM(p.Labels), Annotations: canon.SM(p.Annotations),
		TemplateHash: h, Template: canon.CTemplate(&p.Template)}
	for _, o := range p.OwnerReferences {
		if o.Kind == "ExtendedDaemonSet" && o.Controller != nil && *o.Controller {
			n := o.Name
			out.OwnerEds = &n
		}
	}
	return out
}

// streamPodTemplate: the real PodTemplate Reconcile against a store holding the ExtendedDaemonSet, a
// PodTemplate in one of several conditions, and a same-named neighbour in another namespace.
func streamPodTemplate(r *rand.Rand, i int, tier string) *Case {
	var cat []string
	eds := &edsv1.ExtendedDaemonSet{ObjectMeta: metav1.ObjectMeta{Name: testEDS, Namespace: testNS, UID: "uid-eds"}}
	cur := 1 + r.Intn(3)
	eds.Spec.Template = tplOf(cur)
	switch r.Intn(4) {
	case 0:
		eds.Labels = map[string]string{"team": "x"}
	case 1:
		eds.Labels = map[string]string{"cluster-autoscaler.kubernetes.io/daemonset-pod": "false", "a": "b"}
		cat = append(cat, "eds-carries-autoscaler-label")
	}
	switch r.Intn(4) {
	case 0:
		eds.Annotations = map[string]string{"note": "n"}
	case 1:
		eds.Annotations = map[string]string{edsv1.MD5ExtendedDaemonSetAnnotationKey: "stale-on-eds", "note": "n"}
		cat = append(cat, "eds-carries-hash-annotation")
	}
	objs := []client.Object{eds}
	// neighbour with the same name in another namespace: never touched
	nb := &corev1.PodTemplate{ObjectMeta: metav1.ObjectMeta{Name: testEDS, Namespace: "ns2", Annotations: map[string]string{edsv1.MD5ExtendedDaemonSetAnnotationKey: "zzz"}}, Template: tplOf(3)}
	objs = append(objs, nb)
	other := &corev1.PodTemplate{ObjectMeta: metav1.ObjectMeta{Name: "bar", Namespace: testNS}, Template: tplOf(2)}
	objs = append(objs, other)
	mk := func(tpl int) *corev1.PodTemplate {
		// what the controller itself wrote for template `tpl`
		e2 := eds.DeepCopy()
		e2.Spec.Template = tplOf(tpl)
		h, _ := comparison.GenerateMD5PodTemplateSpec(&e2.Spec.Template)
		p := &corev1.PodTemplate{ObjectMeta: metav1.ObjectMeta{Name: testEDS, Namespace: testNS,
			Labels:      map[string]string{"cluster-autoscaler.kubernetes.io/daemonset-pod": "true"},
			Annotations: map[string]string{edsv1.MD5ExtendedDaemonSetAnnotationKey: h}}, Template: tplOf(tpl)}
		return p
	}
	consistent := true
	switch r.Intn(6) {
	case 0:
		cat = append(cat, "existing:none")
	case 1:
		objs = append(objs, mk(cur))
		cat = append(cat, "existing:current")
	case 2, 3:
		old := 1 + (cur % 3)
		objs = append(objs, mk(old))
		cat = append(cat, "existing:stale")
	case 4:
		p := mk(cur)
		p.Annotations = nil
		objs = append(objs, p)
		consistent = false
		cat = append(cat, "existing:no-annotations")
	case 5:
		// somebody edited the template but left the hash annotation (not the controller's doing)
		p := mk(cur)
		p.Template = tplOf(1 + (cur % 3))
		objs = append(objs, p)
		consistent = false
		cat = append(cat, "existing:foreign-edit")
	}
	wl := &writeLog{}
	cl := loggingClient(objs, wl, nil)
	key := types.NamespacedName{Namespace: testNS, Name: testEDS}
	stored := &edsv1.ExtendedDaemonSet{}
	_ = cl.Get(context.TODO(), key, stored)
	in := map[string]interface{}{"eds": canon.CEDS(stored), "consistent": consistent}
	before := &corev1.PodTemplate{}
	if err := cl.Get(context.TODO(), key, before); err == nil {
		in["cur"] = cPodTpl(before)
	}
	sw := &switchClient{Client: cl}
	rec, _ := podtplctl.NewReconciler(podtplctl.ReconcilerOptions{}, sw, theScheme, logr.Discard(), record.NewFakeRecorder(1000))
	if r.Intn(3) == 0 {
		// the same reconciler instance has already reconciled this ExtendedDaemonSet in another world:
		// one in which the PodTemplate was consistent, and (sometimes) its write failed
		cat = append(cat, "warm-reconciler")
		var wobjs []client.Object
		for _, o := range objs {
			if _, isTpl := o.(*corev1.PodTemplate); !isTpl {
				wobjs = append(wobjs, o.DeepCopyObject().(client.Object))
			}
		}
		var wfail map[int]string
		if r.Intn(2) == 0 {
			wfail = map[int]string{0: "reject"}
		}
		sw.use(loggingClient(wobjs, &writeLog{}, wfail))
		Recovered(func() { _, _ = rec.Reconcile(context.TODO(), reconcile.Request{NamespacedName: key}) })
		sw.use(cl)
	}
	var err error
	p, _ := Recovered(func() { _, err = rec.Reconcile(context.TODO(), reconcile.Request{NamespacedName: key}) })
	out := map[string]interface{}{"kind": "ok", "write": "none", "foreign": []string{}, "order": wl.Order}
	if wl.Order == nil {
		out["order"] = []string{}
	}
	if p {
		out["kind"] = "panic"
	} else if err != nil {
		out["kind"] = "err"
	}
	foreign := []string{}
	note := func(verb string, o client.Object) {
		pt, ok := o.(*corev1.PodTemplate)
		if !ok || pt.Namespace != testNS || pt.Name != testEDS {
			foreign = append(foreign, verb+":"+kindOf(o)+"/"+o.GetNamespace()+"/"+o.GetName())
			return
		}
		out["write"] = verb
		out["written"] = cPodTpl(pt)
	}
	for _, o := range wl.Created {
		note("create", o)
	}
	for _, o := range wl.Updated {
		note("update", o)
	}
	for _, o := range wl.Deleted {
		foreign = append(foreign, "delete:"+kindOf(o)+"/"+o.GetName())
	}
	for _, o := range append(append([]client.Object{}, wl.Patched...), wl.Status...) {
		foreign = append(foreign, "patch-or-status:"+kindOf(o)+"/"+o.GetName())
	}
	out["foreign"] = foreign
	after := &corev1.PodTemplate{}
	if err := cl.Get(context.TODO(), key, after); err == nil {
		out["after"] = cPodTpl(after)
	}
	// second reconcile: must write nothing
	n1 := len(wl.Order)
	_, _ = Recovered(func() { _, _ = rec.Reconcile(context.TODO(), reconcile.Request{NamespacedName: key}) })
	out["secondWrites"] = len(wl.Order) - n1
	cat = append(cat, "write:"+out["write"].(string))
	return &Case{Fn: "podtemplate", In: in, Out: out, Cat: dedup(cat)}
}
