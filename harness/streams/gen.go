package streams

import (
	"fmt"
	"math/rand"
	"time"

	corev1 "k8s.io/api/core/v1"
	"k8s.io/apimachinery/pkg/api/resource"
	metav1 "k8s.io/apimachinery/pkg/apis/meta/v1"
	"k8s.io/apimachinery/pkg/types"
	"k8s.io/apimachinery/pkg/util/intstr"

	edsv1 "github.com/DataDog/extendeddaemonset/api/v1alpha1"
	"github.com/DataDog/extendeddaemonset/pkg/controller/utils/comparison"

	"verifharness/canon"
)

const (
	testNS  = "ns1"
	testEDS = "foo"
)

// Now returns the logical "now" of generated cases: harness epoch + 1 day + offset.
func baseNow() time.Time { return canon.Epoch.Add(24 * time.Hour) }

func mt(t time.Time) metav1.Time { return metav1.NewTime(t) }

// template i over a small alphabet; all templates share selectors unless asked otherwise.
func genTemplate(r *rand.Rand, id int, rich bool) corev1.PodTemplateSpec {
	t := corev1.PodTemplateSpec{
		ObjectMeta: metav1.ObjectMeta{Labels: map[string]string{"app": "agent"}},
		Spec: corev1.PodSpec{
			Containers: []corev1.Container{{Name: "main", Image: fmt.Sprintf("img:%d", id)}},
		},
	}
	if rich {
		if r.Intn(3) == 0 {
			t.Spec.Containers = append(t.Spec.Containers, corev1.Container{Name: "side", Image: "side:1"})
		}
		if r.Intn(2) == 0 {
			t.Spec.Containers[0].Resources = genResources(r)
		}
		switch r.Intn(4) {
		case 0:
			t.Spec.NodeSelector = map[string]string{"zone": pick(r, "a", "b")}
		case 1:
			t.Spec.NodeSelector = map[string]string{"zone": "a", "disk": "ssd"}
		}
		if r.Intn(2) == 0 {
			t.Spec.Affinity = genAffinity(r)
		}
		t.Spec.Tolerations = genTolerations(r)
		if r.Intn(4) == 0 {
			t.Annotations = map[string]string{"note": "x"}
		}
		// a template pasted from a running pod: it already carries the controller's own stamps
		if r.Intn(6) == 0 {
			if t.Annotations == nil {
				t.Annotations = map[string]string{}
			}
			t.Annotations[edsv1.MD5ExtendedDaemonSetAnnotationKey] = "stale-hash-from-another-pod"
			if r.Intn(2) == 0 {
				t.Annotations["cluster-autoscaler.kubernetes.io/daemonset-pod"] = "false"
			}
		}
		if r.Intn(8) == 0 {
			t.Namespace, t.GenerateName = "ns2", pick(r, "", "pasted-")
		}
		if r.Intn(8) == 0 {
			t.Labels[edsv1.ExtendedDaemonSetReplicaSetNameLabelKey] = "pasted-rs"
			t.Labels[edsv1.ExtendedDaemonSetNameLabelKey] = "pasted-eds"
		}
	}
	return t
}

var resKeys = []corev1.ResourceName{corev1.ResourceCPU, corev1.ResourceMemory}

func genQuantity(r *rand.Rand) resource.Quantity {
	return resource.MustParse(pick(r, "100m", "200m", "0.1", "1", "1000m", "128Mi", "256Mi", "1Gi", "1024Mi", "2"))
}

func genResourceList(r *rand.Rand) corev1.ResourceList {
	switch r.Intn(4) {
	case 0:
		return nil
	case 1:
		return corev1.ResourceList{}
	}
	rl := corev1.ResourceList{}
	for _, k := range resKeys {
		if r.Intn(2) == 0 {
			rl[k] = genQuantity(r)
		}
	}
	return rl
}

func genResources(r *rand.Rand) corev1.ResourceRequirements {
	return corev1.ResourceRequirements{Limits: genResourceList(r), Requests: genResourceList(r)}
}

var labelKeys = []string{"zone", "disk", "gen", "num"}
var labelVals = map[string][]string{"zone": {"a", "b", "c"}, "disk": {"ssd", "hdd"}, "gen": {"1", "2"}, "num": {"1", "5", "10", "x"}}

func genNodeLabels(r *rand.Rand) map[string]string {
	m := map[string]string{}
	for _, k := range labelKeys {
		if r.Intn(3) != 0 {
			m[k] = pick(r, labelVals[k]...)
		}
	}
	return m
}

func genNSReq(r *rand.Rand) corev1.NodeSelectorRequirement {
	k := pick(r, labelKeys...)
	switch r.Intn(8) {
	case 0:
		return corev1.NodeSelectorRequirement{Key: k, Operator: corev1.NodeSelectorOpIn, Values: []string{pick(r, labelVals[k]...)}}
	case 1:
		return corev1.NodeSelectorRequirement{Key: k, Operator: corev1.NodeSelectorOpIn, Values: []string{labelVals[k][0], labelVals[k][1]}}
	case 2:
		return corev1.NodeSelectorRequirement{Key: k, Operator: corev1.NodeSelectorOpNotIn, Values: []string{pick(r, labelVals[k]...)}}
	case 3:
		return corev1.NodeSelectorRequirement{Key: k, Operator: corev1.NodeSelectorOpExists}
	case 4:
		return corev1.NodeSelectorRequirement{Key: k, Operator: corev1.NodeSelectorOpDoesNotExist}
	case 5:
		return corev1.NodeSelectorRequirement{Key: "num", Operator: corev1.NodeSelectorOpGt, Values: []string{pick(r, "0", "4", "5", "9")}}
	case 6:
		return corev1.NodeSelectorRequirement{Key: "num", Operator: corev1.NodeSelectorOpLt, Values: []string{pick(r, "2", "5", "6", "11")}}
	default:
		// malformed: In without values / Exists with values / Gt with a non-number / unknown operator
		switch r.Intn(4) {
		case 0:
			return corev1.NodeSelectorRequirement{Key: k, Operator: corev1.NodeSelectorOpIn}
		case 1:
			return corev1.NodeSelectorRequirement{Key: k, Operator: corev1.NodeSelectorOpExists, Values: []string{"a"}}
		case 2:
			return corev1.NodeSelectorRequirement{Key: "num", Operator: corev1.NodeSelectorOpGt, Values: []string{"x"}}
		default:
			return corev1.NodeSelectorRequirement{Key: k, Operator: "Bogus", Values: []string{"a"}}
		}
	}
}

func genFieldReq(r *rand.Rand, nodeNames []string) corev1.NodeSelectorRequirement {
	name := pick(r, nodeNames...)
	switch r.Intn(6) {
	case 0, 1:
		return corev1.NodeSelectorRequirement{Key: "metadata.name", Operator: corev1.NodeSelectorOpIn, Values: []string{name}}
	case 2:
		return corev1.NodeSelectorRequirement{Key: "metadata.name", Operator: corev1.NodeSelectorOpNotIn, Values: []string{name}}
	case 3:
		return corev1.NodeSelectorRequirement{Key: "metadata.name", Operator: corev1.NodeSelectorOpIn, Values: []string{name, "other"}}
	case 4:
		return corev1.NodeSelectorRequirement{Key: "metadata.other", Operator: corev1.NodeSelectorOpIn, Values: []string{name}}
	default:
		return corev1.NodeSelectorRequirement{Key: "metadata.name", Operator: corev1.NodeSelectorOpExists}
	}
}

var genNodeNames = []string{"n0", "n1", "n2", "n3", "n4", "n5"}

func genAffinity(r *rand.Rand) *corev1.Affinity {
	a := &corev1.Affinity{}
	switch r.Intn(8) {
	case 0:
		return a // NodeAffinity nil
	case 1:
		a.NodeAffinity = &corev1.NodeAffinity{} // required nil
		return a
	case 2:
		a.NodeAffinity = &corev1.NodeAffinity{PreferredDuringSchedulingIgnoredDuringExecution: []corev1.PreferredSchedulingTerm{{Weight: 1,
			Preference: corev1.NodeSelectorTerm{MatchExpressions: []corev1.NodeSelectorRequirement{{Key: "zone", Operator: corev1.NodeSelectorOpIn, Values: []string{"zzz"}}}}}}}
		return a
	}
	if r.Intn(5) == 0 {
		a.PodAntiAffinity = &corev1.PodAntiAffinity{}
	}
	nterms := r.Intn(3) // 0 terms: matches nothing
	terms := []corev1.NodeSelectorTerm{}
	for i := 0; i < nterms; i++ {
		t := corev1.NodeSelectorTerm{}
		for j := r.Intn(3); j > 0; j-- {
			t.MatchExpressions = append(t.MatchExpressions, genNSReq(r))
		}
		for j := r.Intn(3) - 1; j > 0; j-- {
			t.MatchFields = append(t.MatchFields, genFieldReq(r, genNodeNames))
		}
		terms = append(terms, t)
	}
	a.NodeAffinity = &corev1.NodeAffinity{RequiredDuringSchedulingIgnoredDuringExecution: &corev1.NodeSelector{NodeSelectorTerms: terms}}
	return a
}

var taintKeys = []string{"dedicated", "node.kubernetes.io/not-ready", "node.kubernetes.io/unschedulable", "gpu"}

func genTaints(r *rand.Rand) []corev1.Taint {
	var out []corev1.Taint
	for n := r.Intn(3); n > 0 && r.Intn(2) == 0; n-- {
		out = append(out, corev1.Taint{
			Key: pick(r, taintKeys...), Value: pick(r, "", "x", "y"),
			Effect: pick(r, corev1.TaintEffectNoSchedule, corev1.TaintEffectNoExecute, corev1.TaintEffectPreferNoSchedule),
		})
	}
	return out
}

func genTolerations(r *rand.Rand) []corev1.Toleration {
	var out []corev1.Toleration
	for n := r.Intn(3); n > 0; n-- {
		// keys of the template's own tolerations include keys of the default DaemonSet tolerations (with
		// another operator / effect / value): the defaults must still all be added
		t := corev1.Toleration{Key: pick(r, "dedicated", "gpu", "", "node.kubernetes.io/not-ready", "node.kubernetes.io/unschedulable",
			"node.kubernetes.io/memory-pressure"), Value: pick(r, "", "x", "y")}
		t.Operator = pick(r, corev1.TolerationOpExists, corev1.TolerationOpEqual, "")
		if t.Key == "" {
			t.Operator = corev1.TolerationOpExists
		}
		t.Effect = pick(r, "", corev1.TaintEffectNoSchedule, corev1.TaintEffectNoExecute)
		out = append(out, t)
	}
	return out
}

func genNode(r *rand.Rand, name string, rich bool) *corev1.Node {
	n := &corev1.Node{ObjectMeta: metav1.ObjectMeta{Name: name}}
	if rich {
		n.Labels = genNodeLabels(r)
		n.Spec.Taints = genTaints(r)
	}
	return n
}

// newERS builds a replica set for template t of EDS testEDS.
func newERS(name string, t corev1.PodTemplateSpec, created time.Time) *edsv1.ExtendedDaemonSetReplicaSet {
	h, _ := comparison.GenerateMD5PodTemplateSpec(&t)
	tr := true
	return &edsv1.ExtendedDaemonSetReplicaSet{
		ObjectMeta: metav1.ObjectMeta{
			Name: name, Namespace: testNS, UID: types.UID("uid-" + name), CreationTimestamp: mt(created),
			Labels:      map[string]string{edsv1.ExtendedDaemonSetNameLabelKey: testEDS},
			Annotations: map[string]string{edsv1.MD5ExtendedDaemonSetAnnotationKey: h},
			OwnerReferences: []metav1.OwnerReference{{APIVersion: "datadoghq.com/v1alpha1", Kind: "ExtendedDaemonSet", Name: testEDS, Controller: &tr}},
		},
		Spec: edsv1.ExtendedDaemonSetReplicaSetSpec{Template: t, TemplateGeneration: h},
	}
}

func defaultedStrategy() edsv1.ExtendedDaemonSetSpecStrategy {
	s := edsv1.ExtendedDaemonSetSpecStrategy{}
	edsv1.DefaultExtendedDaemonSetSpecStrategyRollingUpdate(&s.RollingUpdate)
	s.ReconcileFrequency = &metav1.Duration{Duration: 10 * time.Second}
	return s
}

func ios(v intstr.IntOrString) *intstr.IntOrString { return &v }

func readyCond(ready bool, at time.Time) corev1.PodCondition {
	st := corev1.ConditionFalse
	if ready {
		st = corev1.ConditionTrue
	}
	return corev1.PodCondition{Type: corev1.PodReady, Status: st, LastTransitionTime: mt(at)}
}
