package streams

import (
	"bytes"
	"context"
	"fmt"
	"math/rand"
	"sort"
	"time"

	corev1 "k8s.io/api/core/v1"
	metav1 "k8s.io/apimachinery/pkg/apis/meta/v1"
	"k8s.io/apimachinery/pkg/types"
	"k8s.io/apimachinery/pkg/util/intstr"
	"k8s.io/cli-runtime/pkg/genericclioptions"
	testingclock "k8s.io/utils/clock/testing"
	"sigs.k8s.io/controller-runtime/pkg/client"
	"sigs.k8s.io/controller-runtime/pkg/reconcile"

	edsv1 "github.com/DataDog/extendeddaemonset/api/v1alpha1"
	"github.com/DataDog/extendeddaemonset/pkg/plugin/canary"
	"github.com/DataDog/extendeddaemonset/pkg/plugin/freeze"
	"github.com/DataDog/extendeddaemonset/pkg/plugin/pause"

	"verifharness/canon"
)

func init() {
	Registry["scenario"] = streamScenario
}

type stepJ struct {
	Fn  string      `json:"fn"`
	Op  string      `json:"op"`
	In  interface{} `json:"in"`
	Out interface{} `json:"out"`
	// Env counts the harness-side mutations of the store (kubelet, users, commands) so far: two steps
	// with the same value have only controller writes between them (the L3 transition check)
	Env int `json:"env"`
}

// scenario is a running simulation of one ExtendedDaemonSet (plus optional neighbours).
type scenario struct {
	// badHash: pods of this template crash-loop on every node, whenever they are (re)created — a property of
	// the template, not a one-off event, so that a faulted run meets the same environment as the fault-free one
	badHash string
	// badOnce: only the FIRST pod of that template that ever shows up crash-loops (whenever it shows up); its
	// restart count is then the only evidence of the failure. badDone: that pod has been seen.
	badOnce, badDone bool
	// faultLog: "verb:Kind" per global write index of the last corpus run
	faultLog []string
	w     *simWorld
	r     *rand.Rand
	clock *testingclock.FakeClock
	steps []stepJ
	ops   []string
	ns    string
	name  string
	nextNode int
	tplID int
	// neighbours whose reconcilers also run (C12)
	others []types.NamespacedName
	podWrites int // pod creates/deletes + ers creates/deletes in the current round
	lastEdsKind string // outcome of the last reconcile of the scenario's own EDS
}

func (s *scenario) installClock() {
	s.w.ersRec.VerifBackoff().Clock = s.clock
}

func (s *scenario) tick(d time.Duration) {
	s.w.age(d)
	s.clock.Step(d)
	s.ops = append(s.ops, fmt.Sprintf("tick %s", d))
}

func edsInput(cl client.Client, ns, name string, mode edsv1.ExtendedDaemonSetSpecStrategyCanaryValidationMode) map[string]interface{} {
	ctx := context.TODO()
	stored := &edsv1.ExtendedDaemonSet{}
	_ = cl.Get(ctx, types.NamespacedName{Namespace: ns, Name: name}, stored)
	lst := &edsv1.ExtendedDaemonSetReplicaSetList{}
	_ = cl.List(ctx, lst)
	cers := []canon.ERS{}
	for k := range lst.Items {
		cers = append(cers, canon.CERS(&lst.Items[k]))
	}
	pl := &corev1.PodList{}
	_ = cl.List(ctx, pl)
	cpods := []canon.Pod{}
	for k := range pl.Items {
		if pl.Items[k].Labels[edsv1.ExtendedDaemonSetNameLabelKey] == name {
			cpods = append(cpods, canon.CPod(&pl.Items[k]))
		}
	}
	nl := &corev1.NodeList{}
	_ = cl.List(ctx, nl)
	cnodes := []canon.Node{}
	for k := range nl.Items {
		cnodes = append(cnodes, canon.CNode(&nl.Items[k], ns, name))
	}
	return map[string]interface{}{"eds": canon.CEDS(stored), "ers": cers, "pods": cpods, "nodes": cnodes, "defaultMode": string(mode)}
}

// recEDS runs the EDS reconcile (and records it as a step for the driver).
func (s *scenario) recEDS(ns, name string, faults map[int]string) {
	w := s.w
	exists := &edsv1.ExtendedDaemonSet{}
	if err := w.cl.Get(context.TODO(), types.NamespacedName{Namespace: ns, Name: name}, exists); err != nil {
		return
	}
	in := edsInput(w.cl, ns, name, w.mode)
	in["inScenario"] = true
	w.wl, w.faults, w.writeCount, w.faultFired = &writeLog{}, faults, 0, false
	out, nowC := runEdsReconcile(w.edsRec, w.wl, ns, name)
	crashed := w.dead
	w.dead = false
	w.faults = nil
	in["now"] = nowC
	faulted := len(faults) > 0 || w.faultFired
	in["faulted"] = faulted
	if crashed {
		// the process stopped: a fresh controller instance takes over (in-memory state lost)
		w.freshReconcilers()
		s.installClock()
		in["faulted"] = true
		s.ops = append(s.ops, fmt.Sprintf("recEDS %s/%s: process stopped during this reconcile", ns, name))
	}
	if ns == s.ns && name == s.name {
		s.lastEdsKind = out.Kind
	}
	s.steps = append(s.steps, stepJ{"eds_reconcile", fmt.Sprintf("recEDS %s/%s", ns, name), in, out, w.envOps})
	s.ops = append(s.ops, fmt.Sprintf("recEDS %s/%s -> %v", ns, name, out.Order))
	s.countWrites()
}

func (s *scenario) countWrites() {
	for _, o := range s.w.wl.Order {
		if len(o) > 7 && (o[:7] == "create:" || o[:7] == "delete:") {
			s.podWrites++
		}
	}
}

func (s *scenario) recERS(ns, edsName, rsName string, faults map[int]string) {
	w := s.w
	in := ersInput(w.cl, ns, edsName, rsName, w.aff, w.ersRec)
	dupBefore := w.doubledNodes(ns, edsName)
	w.wl, w.faults, w.writeCount, w.faultFired = &writeLog{}, faults, 0, false
	out, nowC := runErsReconcile(w.ersRec, w.cl, w.wl, ns, edsName, rsName)
	in["doubledBefore"] = dupBefore
	in["doubledAfter"] = w.doubledNodes(ns, edsName)
	crashed := w.dead
	w.dead = false
	w.faults = nil
	in["now"] = nowC
	in["faulted"] = len(faults) > 0 || w.faultFired
	if crashed {
		w.freshReconcilers()
		s.installClock()
		in["faulted"] = true
		in["crashed"] = true
		s.ops = append(s.ops, fmt.Sprintf("recERS %s/%s: process stopped during this reconcile", ns, rsName))
	}
	s.steps = append(s.steps, stepJ{"ers_reconcile", fmt.Sprintf("recERS %s/%s", ns, rsName), in, out, w.envOps})
	s.ops = append(s.ops, fmt.Sprintf("recERS %s/%s -> %d creates %d deletes", ns, rsName, len(out.Creates), len(out.Deleted)))
	s.countWrites()
}

func (s *scenario) ersNames(ns, edsName string) []string {
	rl := &edsv1.ExtendedDaemonSetReplicaSetList{}
	_ = s.w.cl.List(context.TODO(), rl, client.InNamespace(ns))
	var out []string
	for _, e := range rl.Items {
		if e.Labels[edsv1.ExtendedDaemonSetNameLabelKey] == edsName {
			out = append(out, e.Name)
		}
	}
	sort.Strings(out)
	return out
}

func (s *scenario) getEDS() *edsv1.ExtendedDaemonSet {
	d := &edsv1.ExtendedDaemonSet{}
	_ = s.w.cl.Get(context.TODO(), types.NamespacedName{Namespace: s.ns, Name: s.name}, d)
	return d
}

func (s *scenario) updateEDS(f func(d *edsv1.ExtendedDaemonSet)) {
	s.w.quiet(func() {
		d := s.getEDS()
		f(d)
		_ = s.w.cl.Update(context.TODO(), d)
	})
}

// one cooperative round: every reconciler runs once, the kubelet catches up, the clock advances.
func (s *scenario) round(finish bool) {
	s.podWrites = 0
	s.recEDS(s.ns, s.name, nil)
	for _, o := range s.others {
		s.recEDS(o.Namespace, o.Name, nil)
	}
	for _, n := range s.ersNames(s.ns, s.name) {
		s.recERS(s.ns, s.name, n, nil)
	}
	for _, o := range s.others {
		for _, n := range s.ersNames(o.Namespace, o.Name) {
			s.recERS(o.Namespace, o.Name, n, nil)
		}
	}
	s.w.kubeletSync(s.ns, finish)
	s.crashLoopBadTemplate()
	for _, o := range s.others {
		s.w.kubeletSync(o.Namespace, finish)
	}
	s.recEDS(s.ns, s.name, nil)
	s.tick(61 * time.Second)
}

func (s *scenario) randomOp() {
	r, w := s.r, s.w
	streams := genericclioptions.IOStreams{In: &bytes.Buffer{}, Out: &bytes.Buffer{}, ErrOut: &bytes.Buffer{}}
	pods := w.pods(s.ns)
	switch r.Intn(22) {
	case 0, 1, 2:
		s.recEDS(s.ns, s.name, nil)
	case 3, 4, 5, 6:
		names := s.ersNames(s.ns, s.name)
		if len(names) > 0 {
			s.recERS(s.ns, s.name, pick(r, names...), nil)
		}
	case 7, 8:
		w.kubeletSync(s.ns, r.Intn(2) == 0)
		s.ops = append(s.ops, "kubelet sync")
	case 9:
		s.tick(pick(r, 11*time.Second, 61*time.Second, 5*time.Minute))
	case 10: // template change
		s.tplID = s.tplID%3 + 1
		id := s.tplID
		s.updateEDS(func(d *edsv1.ExtendedDaemonSet) { d.Spec.Template = tplOf(id) })
		s.ops = append(s.ops, fmt.Sprintf("user: template := %d", id))
	case 11: // annotations
		k := pick(r, edsv1.ExtendedDaemonSetRollingUpdatePausedAnnotationKey, edsv1.ExtendedDaemonSetRolloutFrozenAnnotationKey)
		v := pick(r, "true", "false", "")
		s.updateEDS(func(d *edsv1.ExtendedDaemonSet) {
			if d.Annotations == nil {
				d.Annotations = map[string]string{}
			}
			if v == "" {
				delete(d.Annotations, k)
			} else {
				d.Annotations[k] = v
			}
		})
		s.ops = append(s.ops, "user: "+k+"="+v)
	case 12: // kubectl-eds canary commands
		var err error
		cmd := pick(r, "pause", "unpause", "validate", "fail")
		w.quiet(func() {
			switch cmd {
			case "pause":
				err = canary.VerifRunPause(w.cl, streams, s.ns, s.name, true)
			case "unpause":
				err = canary.VerifRunPause(w.cl, streams, s.ns, s.name, false)
			case "validate":
				err = canary.VerifRunValidate(w.cl, streams, s.ns, s.name)
			default:
				err = canary.VerifRunFail(w.cl, streams, s.ns, s.name)
			}
		})
		s.ops = append(s.ops, fmt.Sprintf("cli canary %s (refused=%v)", cmd, err != nil))
	case 13:
		var err error
		cmd := pick(r, "ru-pause", "ru-unpause", "freeze", "unfreeze")
		w.quiet(func() {
			switch cmd {
			case "ru-pause":
				err = pause.VerifRun(w.cl, streams, s.ns, s.name, true)
			case "ru-unpause":
				err = pause.VerifRun(w.cl, streams, s.ns, s.name, false)
			case "freeze":
				err = freeze.VerifRun(w.cl, streams, s.ns, s.name, true)
			default:
				err = freeze.VerifRun(w.cl, streams, s.ns, s.name, false)
			}
		})
		s.ops = append(s.ops, fmt.Sprintf("cli %s (refused=%v)", cmd, err != nil))
	case 14: // node joins
		n := &corev1.Node{ObjectMeta: metav1.ObjectMeta{Name: fmt.Sprintf("n%d", s.nextNode)}}
		s.nextNode++
		w.quiet(func() { _ = w.cl.Create(context.TODO(), n) })
		s.ops = append(s.ops, "node joins "+n.Name)
	case 15: // node leaves / gets tainted / untainted
		nl := &corev1.NodeList{}
		_ = w.cl.List(context.TODO(), nl)
		if len(nl.Items) > 1 {
			n := nl.Items[r.Intn(len(nl.Items))].DeepCopy()
			switch r.Intn(3) {
			case 0:
				w.quiet(func() { _ = w.cl.Delete(context.TODO(), n) })
				s.ops = append(s.ops, "node leaves "+n.Name)
			case 1:
				n.Spec.Taints = []corev1.Taint{{Key: "dedicated", Value: "x", Effect: corev1.TaintEffectNoSchedule}}
				w.quiet(func() { _ = w.cl.Update(context.TODO(), n) })
				s.ops = append(s.ops, "node tainted "+n.Name)
			default:
				n.Spec.Taints = nil
				w.quiet(func() { _ = w.cl.Update(context.TODO(), n) })
				s.ops = append(s.ops, "node untainted "+n.Name)
			}
		}
	case 16, 17: // a pod misbehaves
		if len(pods) > 0 {
			p := pods[r.Intn(len(pods))]
			kind := pick(r, "unready", "restart", "waiting", "failed", "restart")
			w.podStatus(s.ns, p.Name, func(pd *corev1.Pod) {
				switch kind {
				case "unready":
					pd.Status.Conditions = []corev1.PodCondition{readyCond(false, time.Now().Truncate(time.Second))}
				case "restart":
					if len(pd.Status.ContainerStatuses) == 0 {
						pd.Status.ContainerStatuses = []corev1.ContainerStatus{{Name: "main"}}
					}
					cs := &pd.Status.ContainerStatuses[0]
					cs.RestartCount += int32(1 + r.Intn(4))
					cs.LastTerminationState = corev1.ContainerState{Terminated: &corev1.ContainerStateTerminated{Reason: pick(r, "OOMKilled", "Error", ""),
						FinishedAt: metav1.NewTime(time.Now().Truncate(time.Second)), ExitCode: 1}}
				case "waiting":
					if pd.Status.StartTime == nil {
						st := metav1.NewTime(time.Now().Truncate(time.Second))
						pd.Status.StartTime = &st
					}
					pd.Status.ContainerStatuses = []corev1.ContainerStatus{{Name: "main", State: corev1.ContainerState{Waiting: &corev1.ContainerStateWaiting{
						Reason: pick(r, "ImagePullBackOff", "ContainerCreating", "CrashLoopBackOff")}}}}
					pd.Status.Conditions = []corev1.PodCondition{readyCond(false, time.Now().Truncate(time.Second))}
				case "failed":
					pd.Status.Phase = corev1.PodFailed
					pd.Status.Conditions = []corev1.PodCondition{readyCond(false, time.Now().Truncate(time.Second))}
				}
			})
			s.ops = append(s.ops, fmt.Sprintf("pod %s: %s", p.Name, kind))
		}
	case 18: // user deletes a pod
		if len(pods) > 0 {
			p := pods[r.Intn(len(pods))]
			w.quiet(func() { _ = w.cl.Delete(context.TODO(), &p) })
			s.ops = append(s.ops, "user deletes pod "+p.Name)
		}
	case 19:
		for _, o := range s.others {
			s.recEDS(o.Namespace, o.Name, nil)
			for _, n := range s.ersNames(o.Namespace, o.Name) {
				s.recERS(o.Namespace, o.Name, n, nil)
			}
		}
	default:
		_, _ = w.tplRec.Reconcile(context.TODO(), reconcile.Request{NamespacedName: types.NamespacedName{Namespace: s.ns, Name: s.name}})
	}
}

func newScenarioEDS(r *rand.Rand, ns, name string, tpl int, nNodes int, now time.Time, withCanary bool) *edsv1.ExtendedDaemonSet {
	eds := &edsv1.ExtendedDaemonSet{ObjectMeta: metav1.ObjectMeta{Name: name, Namespace: ns, UID: types.UID("uid-" + ns + "-" + name),
		CreationTimestamp: mt(now.Add(-time.Hour))}}
	eds.Spec.Template = tplOf(tpl)
	s := &eds.Spec.Strategy
	s.RollingUpdate.MaxUnavailable = ios(pick(r, intstr.FromInt(1), intstr.FromInt(2), intstr.FromString("50%"), intstr.FromInt(nNodes)))
	s.RollingUpdate.SlowStartAdditiveIncrease = ios(pick(r, intstr.FromInt(1), intstr.FromInt(nNodes+2), intstr.FromString("50%")))
	if r.Intn(4) == 0 {
		s.RollingUpdate.MaxPodSchedulerFailure = ios(intstr.FromInt(1))
	}
	if withCanary {
		c := &edsv1.ExtendedDaemonSetSpecStrategyCanary{}
		c.Replicas = ios(pick(r, intstr.FromInt(1), intstr.FromInt(2), intstr.FromString("50%")))
		if r.Intn(4) == 0 {
			c.ValidationMode = edsv1.ExtendedDaemonSetSpecStrategyCanaryValidationModeManual
		} else {
			c.ValidationMode = edsv1.ExtendedDaemonSetSpecStrategyCanaryValidationModeAuto
			c.Duration = &metav1.Duration{Duration: time.Duration(90+r.Intn(200)) * time.Second}
			c.NoRestartsDuration = &metav1.Duration{Duration: time.Duration(60+r.Intn(120)) * time.Second}
		}
		if r.Intn(3) == 0 {
			c.AutoFail = &edsv1.ExtendedDaemonSetSpecStrategyCanaryAutoFail{MaxRestarts: edsv1.NewInt32(int32(3 + r.Intn(3)))}
		}
		s.Canary = c
	}
	return eds // not defaulted: the first reconcile defaults it
}

func streamScenario(r *rand.Rand, i int, tier string) *Case {
	now := time.Now().Truncate(time.Second).Add(-2 * time.Second)
	nn := 2 + r.Intn(3)
	var objs []client.Object
	nb := r.Intn(3) // the neighbour: 0 same name in another namespace, 1 another name in the same namespace, 2 none
	for k := 0; k < nn; k++ {
		n := &corev1.Node{ObjectMeta: metav1.ObjectMeta{Name: fmt.Sprintf("n%d", k)}}
		if r.Intn(3) == 0 {
			// per-node resource overrides, for one or for two containers (the pod's node hash covers both)
			n.Annotations = map[string]string{overrideKey(testNS, testEDS, "main"): `{"limits":{"cpu":"1"}}`}
			if r.Intn(2) == 0 {
				n.Annotations[overrideKey(testNS, testEDS, "side")] = `{"requests":{"memory":"64Mi"}}`
			}
			// the neighbour has its own, different override on the same node: what one
			// ExtendedDaemonSet computed for a node must never be served to the other
			switch nb {
			case 0:
				n.Annotations[overrideKey("ns2", testEDS, "main")] = `{"limits":{"cpu":"3"}}`
			case 1:
				n.Annotations[overrideKey(testNS, "bar", "main")] = `{"limits":{"cpu":"2"}}`
			}
		}
		objs = append(objs, n)
	}
	withCanary := r.Intn(3) != 0
	eds := newScenarioEDS(r, testNS, testEDS, 1, nn, now, withCanary)
	objs = append(objs, eds)
	sc := &scenario{r: r, ns: testNS, name: testEDS, nextNode: nn, tplID: 1, clock: testingclock.NewFakeClock(time.Now())}
	// a neighbour: same name in another namespace, or another name in the same namespace
	switch nb {
	case 0:
		objs = append(objs, newScenarioEDS(r, "ns2", testEDS, 2, nn, now, false))
		sc.others = append(sc.others, types.NamespacedName{Namespace: "ns2", Name: testEDS})
	case 1:
		objs = append(objs, newScenarioEDS(r, testNS, "bar", 2, nn, now, false))
		sc.others = append(sc.others, types.NamespacedName{Namespace: testNS, Name: "bar"})
	}
	mode := pick(r, edsv1.ExtendedDaemonSetSpecStrategyCanaryValidationModeAuto, edsv1.ExtendedDaemonSetSpecStrategyCanaryValidationModeAuto, edsv1.ExtendedDaemonSetSpecStrategyCanaryValidationModeManual)
	sc.w = newSimWorld(objs, r.Intn(2) == 0, mode)
	sc.installClock()
	// bring the first deployment up part of the way, then the random phase
	for k := r.Intn(4); k > 0; k-- {
		sc.round(true)
	}
	L := 12 + r.Intn(14)
	if tier == "thorough" {
		L = 25 + r.Intn(30)
	}
	for k := 0; k < L; k++ {
		sc.randomOp()
	}
	randomSteps := len(sc.steps)
	rounds, quietRounds := sc.converge()
	cat := []string{fmt.Sprintf("canary:%v", withCanary), fmt.Sprintf("neighbours:%d", len(sc.others)), fmt.Sprintf("converged:%v", quietRounds >= 3)}
	if rounds > 10 {
		cat = append(cat, "rounds>10")
	}
	if sc.lastEdsKind != "ok" {
		cat = append(cat, "eds-reconcile-reports-error")
	}
	return &Case{Fn: "scenario", In: map[string]interface{}{"ops": sc.ops, "randomSteps": randomSteps},
		Out: map[string]interface{}{"steps": sc.steps}, Cat: cat}
}

// converge is the convergence phase shared by the random and the scripted scenarios: lift every hold,
// let canaries resolve, cooperate until three quiet rounds; the final store is appended as the
// "quiescent" step.
func (sc *scenario) converge() (rounds, quietRounds int) {
	// ---- convergence phase: lift every hold, let canaries resolve, cooperate until quiescent
	sc.w.quiet(func() {
		for _, p := range sc.w.pods(sc.ns) { // the pod garbage collector removes Unknown pods; failed ones are the controller's job
			if p.Status.Phase == corev1.PodUnknown {
				p.Finalizers = nil
				_ = sc.w.cl.Update(context.TODO(), &p)
				_ = sc.w.cl.Delete(context.TODO(), &p)
			}
		}
	})
	sc.updateEDS(func(d *edsv1.ExtendedDaemonSet) {
		delete(d.Annotations, edsv1.ExtendedDaemonSetRollingUpdatePausedAnnotationKey)
		delete(d.Annotations, edsv1.ExtendedDaemonSetRolloutFrozenAnnotationKey)
		if v, ok := d.Annotations[edsv1.ExtendedDaemonSetCanaryPausedAnnotationKey]; ok && v == "true" {
			d.Annotations[edsv1.ExtendedDaemonSetCanaryPausedAnnotationKey] = "false"
			d.Annotations[edsv1.ExtendedDaemonSetCanaryUnpausedAnnotationKey] = "true"
		}
	})
	sc.ops = append(sc.ops, "--- convergence phase")
	quietRounds, rounds = 0, 0
	maxRounds := 60
	streams := genericclioptions.IOStreams{In: &bytes.Buffer{}, Out: &bytes.Buffer{}, ErrOut: &bytes.Buffer{}}
	for rounds < maxRounds && quietRounds < 3 {
		rounds++
		// a manual or auto-paused canary is resolved by the operator: unpause / validate
		d := sc.getEDS()
		if d.Status.Canary != nil && rounds%4 == 0 {
			sc.w.quiet(func() {
				_ = canary.VerifRunPause(sc.w.cl, streams, sc.ns, sc.name, false)
				if d.Spec.Strategy.Canary != nil && (d.Spec.Strategy.Canary.ValidationMode == edsv1.ExtendedDaemonSetSpecStrategyCanaryValidationModeManual || rounds > 20) {
					_ = canary.VerifRunValidate(sc.w.cl, streams, sc.ns, sc.name)
				}
			})
		}
		before := sc.w.view(sc.ns, sc.name)
		sc.round(true)
		after := sc.w.view(sc.ns, sc.name)
		// while a canary is in progress the system is waiting for its duration (or the operator), not quiescent
		if sc.podWrites == 0 && canonEq(before.Pods, after.Pods) && canonEq(before.Eds.Status, after.Eds.Status) && after.Eds.Status.Canary == nil {
			quietRounds++
		} else {
			quietRounds = 0
		}
	}
	v := sc.w.view(sc.ns, sc.name)
	sc.steps = append(sc.steps, stepJ{"quiescent", "final", map[string]interface{}{"view": v, "ns": sc.ns, "eds": sc.name},
		map[string]interface{}{"rounds": rounds, "converged": quietRounds >= 3, "maxRounds": maxRounds, "lastEdsKind": sc.lastEdsKind}, sc.w.envOps})
	return rounds, quietRounds
}

// crashLoopBadTemplate: every live pod stamped with s.badHash is (again) not Ready with a high restart count.
func (s *scenario) crashLoopBadTemplate() {
	if s.badHash == "" || (s.badOnce && s.badDone) {
		return
	}
	for _, p := range s.w.pods(s.ns) {
		if p.Annotations[edsv1.MD5ExtendedDaemonSetAnnotationKey] != s.badHash || p.DeletionTimestamp != nil {
			continue
		}
		if s.badOnce && s.badDone {
			break
		}
		if len(p.Status.ContainerStatuses) > 0 && p.Status.ContainerStatuses[0].RestartCount >= 9 {
			continue
		}
		s.badDone = true
		s.w.podStatus(s.ns, p.Name, func(pd *corev1.Pod) {
			pd.Status.Conditions = []corev1.PodCondition{readyCond(false, time.Now().Truncate(time.Second))}
			pd.Status.ContainerStatuses = []corev1.ContainerStatus{{Name: "main", RestartCount: 9,
				LastTerminationState: corev1.ContainerState{Terminated: &corev1.ContainerStateTerminated{Reason: "Error",
					FinishedAt: metav1.NewTime(time.Now().Truncate(time.Second)), ExitCode: 1}}}}
		})
	}
}
