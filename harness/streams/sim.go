package streams

import (
	"context"
	"fmt"
	"math/rand"
	"sort"
	"time"

	"github.com/go-logr/logr"
	appsv1 "k8s.io/api/apps/v1"
	corev1 "k8s.io/api/core/v1"
	metav1 "k8s.io/apimachinery/pkg/apis/meta/v1"
	"k8s.io/apimachinery/pkg/types"
	"k8s.io/client-go/tools/record"
	"sigs.k8s.io/controller-runtime/pkg/client"
	"sigs.k8s.io/controller-runtime/pkg/client/fake"
	"sigs.k8s.io/controller-runtime/pkg/client/interceptor"

	edsv1 "github.com/DataDog/extendeddaemonset/api/v1alpha1"
	edsctl "github.com/DataDog/extendeddaemonset/controllers/extendeddaemonset"
	ersctl "github.com/DataDog/extendeddaemonset/controllers/extendeddaemonsetreplicaset"
	settingctl "github.com/DataDog/extendeddaemonset/controllers/extendeddaemonsetsetting"
	podtplctl "github.com/DataDog/extendeddaemonset/controllers/podtemplate"
	"github.com/DataDog/extendeddaemonset/pkg/controller/utils/comparison"
	podutils "github.com/DataDog/extendeddaemonset/pkg/controller/utils/pod"

	"verifharness/canon"
)

// simWorld is the simulated API server + kubelet the scenario streams run the real reconcilers on
// (DESIGN.md §5): creation timestamps / UIDs on create, graceful pod deletion through a kubelet
// finalizer, write recording, fault injection at the k-th write, process stop, clock by aging.
type simWorld struct {
	envOps  int  // harness-side writes so far (see stepJ.Env)
	inQuiet bool // a harness-side action is running
	cl *swapClient
	wl *writeLog
	// fault plan for the current reconcile: write index -> "reject" | "lost" | "crash"
	faults     map[int]string
	writeCount int
	edsRec     *edsctl.Reconciler
	ersRec     *ersctl.Reconciler
	setRec     *settingctl.Reconciler
	tplRec     *podtplctl.Reconciler
	aff        bool
	mode       edsv1.ExtendedDaemonSetSpecStrategyCanaryValidationMode
	seq        int
	totalWrites int
	// globalLog[g] = "verb:Kind" of global write number g (fault placement by kind of write)
	globalLog []string
	// faults by global write index (scenario_faults): index -> kind
	globalFaults map[int]string
	faultFired   bool
	// dead: the controller process has stopped; nothing it still tries to write reaches the API
	dead bool
}

type swapClient struct{ client.Client }

const kubeletFinalizer = "verif/kubelet"

type crashSignal struct{}

func (w *simWorld) build(objs []client.Object) {
	base := fake.NewClientBuilder().WithScheme(theScheme).WithObjects(objs...).
		WithStatusSubresource(&edsv1.ExtendedDaemonSet{}, &edsv1.ExtendedDaemonSetReplicaSet{}, &edsv1.ExtendedDaemonsetSetting{}).Build()
	fault := func() string {
		k := w.writeCount
		w.writeCount++
		g := w.totalWrites
		w.totalWrites++
		_ = g
		if f, ok := w.globalFaults[g]; ok {
			w.faultFired = true
			return f
		}
		if w.faults == nil {
			return ""
		}
		return w.faults[k]
	}
	do := func(kind string, obj client.Object, apply func() error) error {
		if w.inQuiet {
			w.envOps++
		}
		w.wl.mu.Lock()
		w.wl.Order = append(w.wl.Order, kind+":"+kindOf(obj)+"/"+obj.GetGenerateName()+obj.GetName())
		cp := obj.DeepCopyObject().(client.Object)
		switch kind {
		case "create":
			w.wl.Created = append(w.wl.Created, cp)
		case "delete":
			w.wl.Deleted = append(w.wl.Deleted, cp)
		case "update":
			w.wl.Updated = append(w.wl.Updated, cp)
		case "patch":
			w.wl.Patched = append(w.wl.Patched, cp)
		case "status":
			w.wl.Status = append(w.wl.Status, cp)
		}
		if w.dead {
			w.wl.mu.Unlock()
			return fmt.Errorf("injected: process stopped")
		}
		w.globalLog = append(w.globalLog, kind+":"+kindOf(obj))
		f := fault()
		if f == "crash" {
			// the process stops immediately before this write: neither it nor any later write of this
			// reconcile is applied; the caller replaces the controller instance afterwards
			w.dead = true
			w.wl.mu.Unlock()
			return fmt.Errorf("injected: process stopped")
		}
		w.wl.mu.Unlock()
		if f == "reject" {
			return fmt.Errorf("injected: rejected")
		}
		err := apply()
		if kind == "create" || kind == "delete" {
			w.wl.applied(obj, err)
		}
		if f == "lost" {
			return fmt.Errorf("injected: applied, answer lost")
		}
		if f == "crash-after" {
			w.wl.mu.Lock()
			w.dead = true
			w.wl.mu.Unlock()
		}
		return err
	}
	ic := interceptor.NewClient(base, interceptor.Funcs{
		Create: func(ctx context.Context, c client.WithWatch, obj client.Object, opts ...client.CreateOption) error {
			return do("create", obj, func() error {
				w.seq++
				if ct := obj.GetCreationTimestamp(); ct.IsZero() {
					obj.SetCreationTimestamp(metav1.NewTime(time.Now().Truncate(time.Second)))
				}
				if obj.GetUID() == "" {
					obj.SetUID(types.UID(fmt.Sprintf("uid-%d", w.seq)))
				}
				if _, ok := obj.(*corev1.Pod); ok {
					obj.SetFinalizers(append(obj.GetFinalizers(), kubeletFinalizer))
				}
				return c.Create(ctx, obj, opts...)
			})
		},
		Delete: func(ctx context.Context, c client.WithWatch, obj client.Object, opts ...client.DeleteOption) error {
			return do("delete", obj, func() error { return c.Delete(ctx, obj, opts...) })
		},
		Update: func(ctx context.Context, c client.WithWatch, obj client.Object, opts ...client.UpdateOption) error {
			return do("update", obj, func() error { return c.Update(ctx, obj, opts...) })
		},
		Patch: func(ctx context.Context, c client.WithWatch, obj client.Object, patch client.Patch, opts ...client.PatchOption) error {
			return do("patch", obj, func() error { return c.Patch(ctx, obj, patch, opts...) })
		},
		SubResourceUpdate: func(ctx context.Context, c client.Client, sub string, obj client.Object, opts ...client.SubResourceUpdateOption) error {
			return do("status", obj, func() error { return c.SubResource(sub).Update(ctx, obj, opts...) })
		},
	})
	if w.cl == nil {
		w.cl = &swapClient{}
	}
	w.cl.Client = ic
}

func (w *simWorld) freshReconcilers() {
	w.edsRec, _ = edsctl.NewReconciler(edsctl.ReconcilerOptions{DefaultValidationMode: w.mode}, w.cl, theScheme, logr.Discard(), record.NewFakeRecorder(100000))
	w.ersRec, _ = ersctl.NewReconciler(ersctl.ReconcilerOptions{IsNodeAffinitySupported: w.aff}, w.cl, theScheme, logr.Discard(), record.NewFakeRecorder(100000))
	w.setRec, _ = settingctl.NewReconciler(settingctl.ReconcilerOptions{}, w.cl, theScheme, logr.Discard(), record.NewFakeRecorder(100000))
	w.tplRec, _ = podtplctl.NewReconciler(podtplctl.ReconcilerOptions{}, w.cl, theScheme, logr.Discard(), record.NewFakeRecorder(100000))
}

func newSimWorld(objs []client.Object, aff bool, mode edsv1.ExtendedDaemonSetSpecStrategyCanaryValidationMode) *simWorld {
	w := &simWorld{wl: &writeLog{}, aff: aff, mode: mode}
	w.build(objs)
	w.freshReconcilers()
	return w
}

// quiet runs f without recording its writes and without faults (harness-side actions).
func (w *simWorld) quiet(f func()) {
	wasQuiet := w.inQuiet
	w.inQuiet = true
	defer func() { w.inQuiet = wasQuiet }()
	savedWl, savedF, savedC, savedT, savedG, savedL := w.wl, w.faults, w.writeCount, w.totalWrites, w.globalFaults, w.globalLog
	w.wl, w.faults, w.globalFaults = &writeLog{}, nil, nil
	f()
	w.wl, w.faults, w.writeCount, w.totalWrites, w.globalFaults, w.globalLog = savedWl, savedF, savedC, savedT, savedG, savedL
}

func (w *simWorld) allObjects() []client.Object {
	ctx := context.TODO()
	var out []client.Object
	el := &edsv1.ExtendedDaemonSetList{}
	_ = w.cl.List(ctx, el)
	for i := range el.Items {
		out = append(out, &el.Items[i])
	}
	rl := &edsv1.ExtendedDaemonSetReplicaSetList{}
	_ = w.cl.List(ctx, rl)
	for i := range rl.Items {
		out = append(out, &rl.Items[i])
	}
	sl := &edsv1.ExtendedDaemonsetSettingList{}
	_ = w.cl.List(ctx, sl)
	for i := range sl.Items {
		out = append(out, &sl.Items[i])
	}
	nl := &corev1.NodeList{}
	_ = w.cl.List(ctx, nl)
	for i := range nl.Items {
		out = append(out, &nl.Items[i])
	}
	pl := &corev1.PodList{}
	_ = w.cl.List(ctx, pl)
	for i := range pl.Items {
		out = append(out, &pl.Items[i])
	}
	tl := &corev1.PodTemplateList{}
	_ = w.cl.List(ctx, tl)
	for i := range tl.Items {
		out = append(out, &tl.Items[i])
	}
	dl := &appsv1.DaemonSetList{}
	_ = w.cl.List(ctx, dl)
	for i := range dl.Items {
		out = append(out, &dl.Items[i])
	}
	return out
}

func shiftMT(t *metav1.Time, d time.Duration) {
	if t != nil && !t.IsZero() {
		*t = metav1.NewTime(t.Add(-d))
	}
}

// age moves every timestamp of every object d into the past (= the clock advances by d) by
// rebuilding the API server from the shifted objects; reconcilers keep talking to w.cl.
func (w *simWorld) age(d time.Duration) {
	objs := w.allObjects()
	for _, o := range objs {
		ct := o.GetCreationTimestamp()
		shiftMT(&ct, d)
		o.SetCreationTimestamp(ct)
		if dt := o.GetDeletionTimestamp(); dt != nil {
			n := metav1.NewTime(dt.Add(-d))
			o.SetDeletionTimestamp(&n)
		}
		o.SetResourceVersion("")
		switch x := o.(type) {
		case *corev1.Pod:
			shiftMT(x.Status.StartTime, d)
			for i := range x.Status.Conditions {
				shiftMT(&x.Status.Conditions[i].LastTransitionTime, d)
			}
			for _, list := range [][]corev1.ContainerStatus{x.Status.ContainerStatuses, x.Status.InitContainerStatuses} {
				for i := range list {
					if t := list[i].LastTerminationState.Terminated; t != nil {
						shiftMT(&t.FinishedAt, d)
						shiftMT(&t.StartedAt, d)
					}
				}
			}
		case *edsv1.ExtendedDaemonSet:
			for i := range x.Status.Conditions {
				shiftMT(&x.Status.Conditions[i].LastTransitionTime, d)
				shiftMT(&x.Status.Conditions[i].LastUpdateTime, d)
			}
		case *edsv1.ExtendedDaemonSetReplicaSet:
			for i := range x.Status.Conditions {
				shiftMT(&x.Status.Conditions[i].LastTransitionTime, d)
				shiftMT(&x.Status.Conditions[i].LastUpdateTime, d)
			}
		}
	}
	w.build(objs)
}

// ---- kubelet / scheduler model

func (w *simWorld) pods(ns string) []corev1.Pod {
	pl := &corev1.PodList{}
	_ = w.cl.List(context.TODO(), pl, client.InNamespace(ns))
	sort.Slice(pl.Items, func(i, j int) bool { return pl.Items[i].Name < pl.Items[j].Name })
	return pl.Items
}

func podNodeBinding(p *corev1.Pod) string {
	if p.Spec.NodeName != "" {
		return p.Spec.NodeName
	}
	if a := p.Spec.Affinity; a != nil && a.NodeAffinity != nil && a.NodeAffinity.RequiredDuringSchedulingIgnoredDuringExecution != nil {
		for _, t := range a.NodeAffinity.RequiredDuringSchedulingIgnoredDuringExecution.NodeSelectorTerms {
			for _, f := range t.MatchFields {
				if f.Key == "metadata.name" && len(f.Values) > 0 {
					return f.Values[0]
				}
			}
		}
	}
	return ""
}

// kubeletSync: the scheduler binds every unbound pod whose node exists; the kubelet starts it and
// makes it Ready; pods being deleted finish terminating.
func (w *simWorld) kubeletSync(ns string, finishTerminations bool) {
	ctx := context.TODO()
	w.quiet(func() {
		nodes := map[string]bool{}
		nl := &corev1.NodeList{}
		_ = w.cl.List(ctx, nl)
		for _, n := range nl.Items {
			nodes[n.Name] = true
		}
		for _, p := range w.pods(ns) {
			pd := p.DeepCopy()
			if pd.DeletionTimestamp != nil {
				if finishTerminations {
					pd.Finalizers = nil
					_ = w.cl.Update(ctx, pd)
				}
				continue
			}
			if pd.Status.Phase == corev1.PodFailed || pd.Status.Phase == corev1.PodUnknown {
				continue
			}
			if pd.Spec.NodeName == "" {
				n := podNodeBinding(pd)
				if n == "" || !nodes[n] {
					continue
				}
				pd.Spec.NodeName = n
				if err := w.cl.Update(ctx, pd); err != nil {
					continue
				}
				_ = w.cl.Get(ctx, types.NamespacedName{Namespace: pd.Namespace, Name: pd.Name}, pd)
			}
			if !nodes[pd.Spec.NodeName] {
				continue
			}
			pd.Status.Phase = corev1.PodRunning
			if pd.Status.StartTime == nil {
				st := metav1.NewTime(time.Now().Truncate(time.Second))
				pd.Status.StartTime = &st
			}
			ready := false
			for _, c := range pd.Status.Conditions {
				if c.Type == corev1.PodReady && c.Status == corev1.ConditionTrue {
					ready = true
				}
			}
			if !ready {
				pd.Status.Conditions = []corev1.PodCondition{readyCond(true, time.Now().Truncate(time.Second))}
			}
			// a waiting container resolves
			for i := range pd.Status.ContainerStatuses {
				pd.Status.ContainerStatuses[i].State = corev1.ContainerState{Running: &corev1.ContainerStateRunning{}}
			}
			_ = w.cl.Status().Update(ctx, pd)
		}
	})
}

func (w *simWorld) podStatus(ns, name string, f func(*corev1.Pod)) {
	ctx := context.TODO()
	w.quiet(func() {
		pd := &corev1.Pod{}
		if err := w.cl.Get(ctx, types.NamespacedName{Namespace: ns, Name: name}, pd); err != nil {
			return
		}
		f(pd)
		_ = w.cl.Status().Update(ctx, pd)
	})
}

// ---- canonical view of the daemon pods (modulo generated names and timestamps)

type podView struct {
	Node  string `json:"node"`
	Hash  string `json:"hash"`
	Ready bool   `json:"ready"`
	Phase string `json:"phase"`
	Term  bool   `json:"terminating"`
	Ns    string `json:"ns"`
	Eds   string `json:"eds"`
	// the pod carries the canary label
	CanaryLabel bool `json:"canaryLabel"`
}

type clusterView struct {
	Pods       []podView `json:"pods"`
	Nodes      []canon.Node `json:"nodes"`
	Eds        canon.EDS `json:"eds"`
	ActiveHash string    `json:"activeHash"`
	Ers        []canon.ERS `json:"ers"`
}

func (w *simWorld) view(ns, edsName string) clusterView {
	ctx := context.TODO()
	v := clusterView{Pods: []podView{}, Nodes: []canon.Node{}, Ers: []canon.ERS{}}
	pl := &corev1.PodList{}
	_ = w.cl.List(ctx, pl)
	for i := range pl.Items {
		p := &pl.Items[i]
		ready := false
		for _, c := range p.Status.Conditions {
			if c.Type == corev1.PodReady && c.Status == corev1.ConditionTrue {
				ready = true
			}
		}
		v.Pods = append(v.Pods, podView{podNodeBinding(p), p.Annotations[edsv1.MD5ExtendedDaemonSetAnnotationKey], ready, string(p.Status.Phase),
			p.DeletionTimestamp != nil, p.Namespace, p.Labels[edsv1.ExtendedDaemonSetNameLabelKey],
			p.Labels[edsv1.ExtendedDaemonSetReplicaSetCanaryLabelKey] == edsv1.ExtendedDaemonSetReplicaSetCanaryLabelValue})
	}
	sort.Slice(v.Pods, func(i, j int) bool {
		a, b := v.Pods[i], v.Pods[j]
		if a.Ns != b.Ns {
			return a.Ns < b.Ns
		}
		if a.Node != b.Node {
			return a.Node < b.Node
		}
		return a.Hash < b.Hash
	})
	nl := &corev1.NodeList{}
	_ = w.cl.List(ctx, nl)
	for i := range nl.Items {
		v.Nodes = append(v.Nodes, canon.CNode(&nl.Items[i], ns, edsName))
	}
	d := &edsv1.ExtendedDaemonSet{}
	if err := w.cl.Get(ctx, types.NamespacedName{Namespace: ns, Name: edsName}, d); err == nil {
		v.Eds = canon.CEDS(d)
		v.Eds.Status.Conds = []canon.Cond{}
	}
	rl := &edsv1.ExtendedDaemonSetReplicaSetList{}
	_ = w.cl.List(ctx, rl, client.InNamespace(ns))
	for i := range rl.Items {
		e := &rl.Items[i]
		if e.Name == d.Status.ActiveReplicaSet {
			v.ActiveHash = e.Spec.TemplateGeneration
		}
		v.Ers = append(v.Ers, canon.CERS(e))
	}
	return v
}

func hashOfTemplate(id int) string {
	t := tplOf(id)
	h, _ := comparison.GenerateMD5PodTemplateSpec(&t)
	return h
}

var _ = rand.Intn

// doubledNodes lists the nodes that carry more than one live (not terminating, not Failed/Succeeded)
// daemon pod of the EDS in the store: "one pod per node at any intermediate point".
func (w *simWorld) doubledNodes(ns, edsName string) []string {
	out := []string{}
	w.quiet(func() {
		pl := &corev1.PodList{}
		_ = w.cl.List(context.TODO(), pl, client.InNamespace(ns))
		cnt := map[string]int{}
		for k := range pl.Items {
			p := &pl.Items[k]
			if p.Labels[edsv1.ExtendedDaemonSetNameLabelKey] != edsName || p.DeletionTimestamp != nil {
				continue
			}
			if p.Status.Phase == corev1.PodFailed || p.Status.Phase == corev1.PodSucceeded || p.Status.Phase == corev1.PodUnknown {
				continue
			}
			n, err := podutils.GetNodeNameFromPod(p)
			if err != nil || n == "" {
				continue
			}
			cnt[n]++
		}
		for n, c := range cnt {
			if c > 1 {
				out = append(out, n)
			}
		}
	})
	sort.Strings(out)
	return out
}
