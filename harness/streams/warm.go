package streams

import (
	"context"
	"fmt"
	"math/rand"
	"strings"
	"time"

	corev1 "k8s.io/api/core/v1"
	metav1 "k8s.io/apimachinery/pkg/apis/meta/v1"
	"k8s.io/apimachinery/pkg/types"
	"sigs.k8s.io/controller-runtime/pkg/client"

	"sigs.k8s.io/controller-runtime/pkg/reconcile"

	edsv1 "github.com/DataDog/extendeddaemonset/api/v1alpha1"
	ersctl "github.com/DataDog/extendeddaemonset/controllers/extendeddaemonsetreplicaset"
	"github.com/DataDog/extendeddaemonset/controllers/extendeddaemonsetreplicaset/strategy"
)

// switchClient lets one reconciler instance be run against one world and then against another: the
// controller keeps no decision state outside the API objects (C11), so what an instance saw
// earlier — under the same object keys — must not influence what it decides now.  A per-instance
// cache keyed by object name (a realistic "optimisation") shows up as a difference between the
// warmed-up instance and the stateless model.
type switchClient struct{ client.Client }

func (s *switchClient) use(c client.Client) { s.Client = c }

// perturbNodes returns a copy of objs in which the node population differs: some nodes are dropped,
// the labels of others are cleared, and a few extra plain nodes are added.  Everything else (the
// ExtendedDaemonSet, replica sets, pods) is kept under the same names.
func perturbNodes(r *rand.Rand, objs []client.Object) []client.Object {
	var out []client.Object
	for _, o := range objs {
		if n, ok := o.(*corev1.Node); ok {
			switch r.Intn(3) {
			case 0:
				continue // dropped
			case 1:
				c := n.DeepCopy()
				c.Labels = nil
				c.Spec.Taints = nil
				out = append(out, c)
				continue
			}
		}
		out = append(out, o.DeepCopyObject().(client.Object))
	}
	// the ExtendedDaemonSet keeps its name but its user switches differ (pause / freeze flipped)
	for i, o := range out {
		if d, ok := o.(*edsv1.ExtendedDaemonSet); ok && r.Intn(2) == 0 {
			c := d.DeepCopy()
			if c.Annotations == nil {
				c.Annotations = map[string]string{}
			}
			for _, k := range []string{edsv1.ExtendedDaemonSetRollingUpdatePausedAnnotationKey, edsv1.ExtendedDaemonSetRolloutFrozenAnnotationKey} {
				if c.Annotations[k] == "true" {
					delete(c.Annotations, k)
				} else if r.Intn(2) == 0 {
					c.Annotations[k] = "true"
				}
			}
			out[i] = c
		}
	}
	// settings keep their names but select other nodes
	for i, o := range out {
		if st, ok := o.(*edsv1.ExtendedDaemonsetSetting); ok && r.Intn(2) == 0 {
			c := st.DeepCopy()
			c.Spec.NodeSelector = metav1.LabelSelector{MatchLabels: map[string]string{"zone": "a"}}
			out[i] = c
		}
	}
	for k := 0; k < 1+r.Intn(6); k++ {
		out = append(out, &corev1.Node{ObjectMeta: metav1.ObjectMeta{Name: "warm-extra-" + string(rune('a'+k)),
			Labels: map[string]string{"zone": "a", "disk": "ssd"}}})
	}
	return out
}

// staleGetClient returns, for the first n Gets of key, the object as it was earlier (an informer
// cache lagging behind a write); everything else goes to the API.
type staleGetClient struct {
	client.Client
	key   types.NamespacedName
	stale *edsv1.ExtendedDaemonSet
	n     int
}

func (s *staleGetClient) Get(ctx context.Context, key client.ObjectKey, obj client.Object, opts ...client.GetOption) error {
	if d, ok := obj.(*edsv1.ExtendedDaemonSet); ok && key == s.key && s.n > 0 {
		s.n--
		s.stale.DeepCopyInto(d)
		return nil
	}
	return s.Client.Get(ctx, key, obj, opts...)
}

// neighbourWarmup makes rec sync the active replica set of a neighbouring ExtendedDaemonSet — "bar" in
// the namespace of the case, or one with the case's own name in "ns2" — against a scratch copy of the
// world (same nodes, same settings).  The neighbour's pods exist on every node, stamped for the
// neighbour's own node overrides.
func neighbourWarmup(r *rand.Rand, rec *ersctl.Reconciler, sw *switchClient, objs []client.Object, now time.Time) {
	ns, name := testNS, "bar"
	if r.Intn(2) == 0 {
		ns, name = "ns2", testEDS
	}
	var out []client.Object
	var nodes []*corev1.Node
	for _, o := range objs {
		c := o.DeepCopyObject().(client.Object)
		out = append(out, c)
		if n, ok := c.(*corev1.Node); ok {
			nodes = append(nodes, n)
		}
	}
	eds := &edsv1.ExtendedDaemonSet{ObjectMeta: metav1.ObjectMeta{Name: name, Namespace: ns, UID: "uid-nb", Annotations: map[string]string{}}}
	eds.Spec.Template = tplOf(1)
	eds.Spec.Strategy = defaultedStrategy()
	rs := newERS(name+"-a", tplOf(1), now.Add(-time.Hour))
	rs.Namespace = ns
	rs.Labels[edsv1.ExtendedDaemonSetNameLabelKey] = name
	rs.OwnerReferences[0].Name = name
	eds.Status.ActiveReplicaSet = rs.Name
	out = append(out, eds, rs)
	for k, n := range nodes {
		p := buildPod(r, catUpToDateAvail, rs, rs, strategy.NewNodeItem(n, nil), now, 9000+k)
		if p == nil {
			continue
		}
		p.Namespace = ns
		p.Name = "nb-" + p.Name
		p.Labels[edsv1.ExtendedDaemonSetNameLabelKey] = name
		out = append(out, p)
	}
	sw.use(loggingClient(out, &writeLog{}, nil))
	Recovered(func() {
		_, _ = rec.Reconcile(context.TODO(), reconcile.Request{NamespacedName: types.NamespacedName{Namespace: ns, Name: rs.Name}})
	})
}

// listFaultClient makes the n-th List call (counting from 0) fail: a read fault in the middle of a
// reconcile (API server overloaded, cache not synced).  Decisions taken after a failed read must not
// silently fall back on something else.
type listFaultClient struct {
	client.Client
	failAt int
	count  int
	// failKind: when set, the first List of that list type fails instead (e.g. "ExtendedDaemonsetSettingList")
	failKind string
	done     bool
	// failGet: when set, every Get of an object of that type fails (e.g. "ExtendedDaemonSet")
	failGet string
}

func (l *listFaultClient) Get(ctx context.Context, key client.ObjectKey, obj client.Object, opts ...client.GetOption) error {
	if l.failGet != "" && strings.HasSuffix(fmt.Sprintf("%T", obj), "."+l.failGet) {
		return injectedErr("get", l.failGet)
	}
	return l.Client.Get(ctx, key, obj, opts...)
}

func (l *listFaultClient) List(ctx context.Context, list client.ObjectList, opts ...client.ListOption) error {
	k := l.count
	l.count++
	if l.failKind != "" {
		if !l.done && strings.HasSuffix(fmt.Sprintf("%T", list), "."+l.failKind) {
			l.done = true
			return injectedErr("list", l.failKind)
		}
		return l.Client.List(ctx, list, opts...)
	}
	if k == l.failAt {
		return injectedErr("list", "objects")
	}
	return l.Client.List(ctx, list, opts...)
}
