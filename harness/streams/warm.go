package streams

import (
	"context"
	"math/rand"

	corev1 "k8s.io/api/core/v1"
	metav1 "k8s.io/apimachinery/pkg/apis/meta/v1"
	"k8s.io/apimachinery/pkg/types"
	"sigs.k8s.io/controller-runtime/pkg/client"

	edsv1 "github.com/DataDog/extendeddaemonset/api/v1alpha1"
)

// switchClient lets one reconciler instance be run against one world and then against another: the
// controller keeps no decision state outside the API objects (C11), so what an instance saw
// earlier — under the same object keys — must not influence what it decides now.  A per-instance
// cache keyed by object name (a realistic "optimisation") shows up as a difference between the
// warmed-up instance and the stateless model.
type switchClient struct{ client.Client }

func (s *switchClient) use(c client.Client) { s.Client = c }

// perturbNodes returns a copy of objs in which the node population differs: some nodes are dropped,
// the labels of others are cleared, and a few extra plain nodes are added.  Everything else (the
// ExtendedDaemonSet, replica sets, pods) is kept under the same names.
func perturbNodes(r *rand.Rand, objs []client.Object) []client.Object {
	var out []client.Object
	for _, o := range objs {
		if n, ok := o.(*corev1.Node); ok {
			switch r.Intn(3) {
			case 0:
				continue // dropped
			case 1:
				c := n.DeepCopy()
				c.Labels = nil
				c.Spec.Taints = nil
				out = append(out, c)
				continue
			}
		}
		out = append(out, o.DeepCopyObject().(client.Object))
	}
	// settings keep their names but select other nodes
	for i, o := range out {
		if st, ok := o.(*edsv1.ExtendedDaemonsetSetting); ok && r.Intn(2) == 0 {
			c := st.DeepCopy()
			c.Spec.NodeSelector = metav1.LabelSelector{MatchLabels: map[string]string{"zone": "a"}}
			out[i] = c
		}
	}
	for k := 0; k < 1+r.Intn(6); k++ {
		out = append(out, &corev1.Node{ObjectMeta: metav1.ObjectMeta{Name: "warm-extra-" + string(rune('a'+k)),
			Labels: map[string]string{"zone": "a", "disk": "ssd"}}})
	}
	return out
}

// staleGetClient returns, for the first n Gets of key, the object as it was earlier (an informer
// cache lagging behind a write); everything else goes to the API.
type staleGetClient struct {
	client.Client
	key   types.NamespacedName
	stale *edsv1.ExtendedDaemonSet
	n     int
}

func (s *staleGetClient) Get(ctx context.Context, key client.ObjectKey, obj client.Object, opts ...client.GetOption) error {
	if d, ok := obj.(*edsv1.ExtendedDaemonSet); ok && key == s.key && s.n > 0 {
		s.n--
		s.stale.DeepCopyInto(d)
		return nil
	}
	return s.Client.Get(ctx, key, obj, opts...)
}
