package streams

import (
	"fmt"
	"math/rand"
	"sort"
	"time"

	"github.com/go-logr/logr"
	corev1 "k8s.io/api/core/v1"
	metav1 "k8s.io/apimachinery/pkg/apis/meta/v1"

	edsv1 "github.com/DataDog/extendeddaemonset/api/v1alpha1"
	"github.com/DataDog/extendeddaemonset/controllers/extendeddaemonsetreplicaset/strategy"

	"verifharness/canon"
)

func init() {
	Registry["manage_canary"] = streamManageCanary
	Registry["manage_unknown"] = streamManageUnknown
}

var waitingReasons = []string{"ErrImagePull", "ImagePullBackOff", "CreateContainerConfigError", "PreStartHookError", "InvalidImageName",
	"ContainerCreating", "PodInitializing", "CrashLoopBackOff", "SomethingElse", "RegistryUnavailable", "ErrImageNeverPull",
	"ImageInspectError", "CreateContainerError", "PostStartHookError", "PreCreateHookError"}

// genContainerStatus draws restart counts around both thresholds.
func genContainerStatus(r *rand.Rand, name string, pauseMax, failMax int32, now time.Time) corev1.ContainerStatus {
	cs := corev1.ContainerStatus{Name: name}
	switch r.Intn(9) {
	case 0, 1, 2:
		cs.RestartCount = 0
	case 3:
		cs.RestartCount = pauseMax
	case 4:
		cs.RestartCount = pauseMax + 1
	case 5:
		cs.RestartCount = failMax
	case 6:
		cs.RestartCount = failMax + 1
	case 7:
		cs.RestartCount = pauseMax - 1
	default:
		cs.RestartCount = int32(r.Intn(12))
	}
	if cs.RestartCount < 0 {
		cs.RestartCount = 0
	}
	if cs.RestartCount > 0 || r.Intn(6) == 0 {
		switch r.Intn(6) {
		case 0: // restart counted but no last state recorded
		case 1: // terminated struct present but zero-valued
			cs.LastTerminationState = corev1.ContainerState{Terminated: &corev1.ContainerStateTerminated{}}
		default:
			cs.LastTerminationState = corev1.ContainerState{Terminated: &corev1.ContainerStateTerminated{
				Reason:     pick(r, "", "OOMKilled", "Error", "CrashLoopBackOff", "StartError"),
				FinishedAt: mt(now.Add(-time.Duration(r.Intn(1200)) * time.Second)),
				ExitCode:   1,
			}}
		}
	}
	switch r.Intn(5) {
	case 0:
		cs.State.Waiting = &corev1.ContainerStateWaiting{Reason: pick(r, waitingReasons...)}
	case 1:
		cs.State.Running = &corev1.ContainerStateRunning{}
	}
	return cs
}

func streamManageCanary(r *rand.Rand, i int, tier string) *Case {
	now := baseNow().Add(time.Duration(r.Intn(100000)) * time.Millisecond)
	eds := &edsv1.ExtendedDaemonSet{ObjectMeta: metav1.ObjectMeta{Name: testEDS, Namespace: testNS, Annotations: map[string]string{}}}
	eds.Spec.Strategy = defaultedStrategy()
	c := genCanarySpec(r)
	eds.Spec.Strategy.Canary = c
	// thresholds
	*c.AutoPause.Enabled = r.Intn(4) != 0
	*c.AutoFail.Enabled = r.Intn(4) != 0
	*c.AutoPause.MaxRestarts = int32(r.Intn(4))
	*c.AutoFail.MaxRestarts = *c.AutoPause.MaxRestarts + int32(r.Intn(4))
	if r.Intn(8) == 0 {
		*c.AutoFail.MaxRestarts = int32(r.Intn(3)) // possibly below autoPause (rejected by validation)
	}
	if r.Intn(2) == 0 {
		c.AutoPause.MaxSlowStartDuration = &metav1.Duration{Duration: time.Duration(30+r.Intn(300)) * time.Second}
	}
	if r.Intn(2) == 0 {
		c.AutoFail.MaxRestartsDuration = &metav1.Duration{Duration: time.Duration(30+r.Intn(600)) * time.Second}
	}
	if r.Intn(2) == 0 {
		c.AutoFail.CanaryTimeout = &metav1.Duration{Duration: time.Duration(600+r.Intn(1200)) * time.Second}
	}
	if r.Intn(40) == 0 { // nil pointers the function dereferences (non-defaulted)
		switch r.Intn(3) {
		case 0:
			c.AutoPause = nil
		case 1:
			c.AutoFail.Enabled = nil
		default:
			c.AutoPause.MaxRestarts = nil
		}
	}
	var cat []string
	cur := newERS("foo-new", genTemplate(r, 2, false), now.Add(-20*time.Minute))
	old := newERS("foo-old", genTemplate(r, 1, false), now.Add(-2*time.Hour))
	// previous conditions of the canary replica set (and the counters its previous sync left)
	st := &cur.Status
	if r.Intn(2) == 0 {
		st.Desired, st.Current, st.Ready, st.Available = int32(r.Intn(6)), int32(r.Intn(6)), int32(r.Intn(6)), int32(r.Intn(6))
		st.IgnoredUnresponsiveNodes = int32(r.Intn(3))
		st.Status = pick(r, "", "canary", "active", "unknown")
	}
	if r.Intn(3) != 0 {
		var since time.Duration
		if c.AutoFail != nil && c.AutoFail.CanaryTimeout != nil {
			to := c.AutoFail.CanaryTimeout.Duration
			since = pick(r, to-1, to, to+1, to/2, to+time.Minute)
		} else {
			since = time.Duration(r.Intn(3000)) * time.Second
		}
		st.Conditions = append(st.Conditions, ersCond(edsv1.ConditionTypeCanary, corev1.ConditionTrue, now.Add(-since), now.Add(-since), ""))
	}
	if r.Intn(2) == 0 {
		span := time.Duration(r.Intn(900)) * time.Second
		if c.AutoFail != nil && c.AutoFail.MaxRestartsDuration != nil && r.Intn(2) == 0 {
			d := c.AutoFail.MaxRestartsDuration.Duration
			span = pick(r, d-1, d, d+1)
		}
		up := now.Add(-time.Duration(r.Intn(600)) * time.Second)
		st.Conditions = append(st.Conditions, ersCond(edsv1.ConditionTypePodRestarting, corev1.ConditionTrue, up.Add(-span), up, "x"))
		cat = append(cat, "prev-restarting")
	}
	switch r.Intn(5) {
	case 0:
		st.Conditions = append(st.Conditions, ersCond(edsv1.ConditionTypeCanaryPaused, corev1.ConditionTrue, now.Add(-time.Minute), now.Add(-time.Minute), pick(r, "CrashLoopBackOff", "")))
		cat = append(cat, "prev-paused")
	case 1:
		st.Conditions = append(st.Conditions, ersCond(edsv1.ConditionTypeCanaryPaused, corev1.ConditionFalse, now.Add(-time.Minute), now.Add(-time.Minute), ""))
	}
	switch r.Intn(6) {
	case 0:
		st.Conditions = append(st.Conditions, ersCond(edsv1.ConditionTypeCanaryFailed, corev1.ConditionTrue, now.Add(-time.Minute), now.Add(-time.Minute), "OOMKilled"))
		cat = append(cat, "prev-failed")
	case 1:
		st.Conditions = append(st.Conditions, ersCond(edsv1.ConditionTypeCanaryFailed, corev1.ConditionFalse, now.Add(-time.Minute), now.Add(-time.Minute), ""))
	}
	if r.Intn(4) == 0 {
		st.Conditions = append(st.Conditions, ersCond(edsv1.ConditionTypePodCannotStart, pick(r, corev1.ConditionTrue, corev1.ConditionFalse), now.Add(-time.Minute), now.Add(-time.Minute), "x"))
	}
	if v, ok := genAnnotValue(r); ok {
		eds.Annotations[edsv1.ExtendedDaemonSetCanaryPausedAnnotationKey] = v
		if v == "true" {
			cat = append(cat, "annot-paused")
		}
	}
	if v, ok := genAnnotValue(r); ok {
		eds.Annotations[edsv1.ExtendedDaemonSetCanaryUnpausedAnnotationKey] = v
		if v == "true" {
			cat = append(cat, "annot-unpaused")
		}
	}

	n := r.Intn(4)
	if tier == "thorough" {
		n = r.Intn(7)
	}
	total := n + r.Intn(3)
	params := &strategy.Parameters{
		EDSName: testEDS, Strategy: &eds.Spec.Strategy, Replicaset: cur, ReplicaSetStatus: "canary",
		NewStatus: cur.Status.DeepCopy(), NodeByName: map[string]*strategy.NodeItem{},
		PodByNodeName: map[*strategy.NodeItem]*corev1.Pod{}, Logger: logr.Discard(),
	}
	var order []*strategy.NodeItem
	var pmax, fmax int32 = 2, 5
	if c.AutoPause != nil && c.AutoPause.MaxRestarts != nil {
		pmax = *c.AutoPause.MaxRestarts
	}
	if c.AutoFail != nil && c.AutoFail.MaxRestarts != nil {
		fmax = *c.AutoFail.MaxRestarts
	}
	npods := 0
	for k := 0; k < total; k++ {
		node := genNode(r, fmt.Sprintf("n%d", k), false)
		ni := strategy.NewNodeItem(node, nil)
		params.NodeByName[node.Name] = ni
		catk := pick(r, catUpToDateAvail, catUpToDateAvail, catUpToDateUnavail, catUpToDateUnavail, catNoPod, catOutdatedAvail, catUpToDateTerminating)
		pod := buildPod(r, catk, cur, old, ni, now, k)
		if pod != nil {
			start := now.Add(-time.Duration(r.Intn(600)) * time.Second)
			if c.AutoPause != nil && c.AutoPause.MaxSlowStartDuration != nil && r.Intn(2) == 0 {
				d := c.AutoPause.MaxSlowStartDuration.Duration
				start = now.Add(-pick(r, d-1, d, d+1))
			}
			stt := mt(start)
			pod.Status.StartTime = &stt
			for ci := r.Intn(3); ci >= 0; ci-- {
				pod.Status.ContainerStatuses = append(pod.Status.ContainerStatuses, genContainerStatus(r, fmt.Sprintf("c%d", ci), pmax, fmax, now))
			}
			if r.Intn(4) == 0 {
				pod.Status.InitContainerStatuses = append(pod.Status.InitContainerStatuses, genContainerStatus(r, "init", pmax, fmax, now))
			}
			if r.Intn(8) == 0 {
				pod.Status.EphemeralContainerStatuses = append(pod.Status.EphemeralContainerStatuses, genContainerStatus(r, "eph", pmax, fmax, now))
			}
			if catk == catUpToDateAvail || catk == catUpToDateUnavail {
				npods++
			}
		}
		// some canary nodes are not in the map (unfit / ignored)
		if r.Intn(8) != 0 {
			params.PodByNodeName[ni] = pod
		}
		order = append(order, ni)
		if k < n {
			params.CanaryNodes = append(params.CanaryNodes, node.Name)
		}
	}
	if r.Intn(6) == 0 {
		params.CanaryNodes = append(params.CanaryNodes, "ghost")
	}
	cat = append(cat, fmt.Sprintf("evaluable-pods:%d", min(npods, 3)))
	in := canonParams(params, eds, order)
	in.Now, in.Wall = canon.T(now), canon.T(now)
	var res *strategy.Result
	panicked, _ := Recovered(func() { res = strategy.VerifManageCanaryStatus(eds.Annotations, params, now) })
	out := canonResult(res, nil, panicked, params, &Calls{})
	cat = append(cat, "kind:"+out.Kind, fmt.Sprintf("failed:%v", out.IsFailed), fmt.Sprintf("paused:%v", out.IsPaused))
	if out.FailedReason != "" {
		cat = append(cat, "failedReason:"+out.FailedReason)
	}
	if out.PausedReason != "" {
		cat = append(cat, "pausedReason:"+out.PausedReason)
	}
	if len(out.Create) > 0 {
		cat = append(cat, "creates")
	}
	sort.Strings(cat)
	return &Case{Fn: "manage_canary", In: in, Out: out, Cat: cat}
}

func streamManageUnknown(r *rand.Rand, i int, tier string) *Case {
	now := time.Now()
	n := 1 + r.Intn(6)
	cur := newERS("foo-left", genTemplate(r, 2, false), now.Add(-time.Hour))
	old := newERS("foo-old", genTemplate(r, 1, false), now.Add(-2*time.Hour))
	cur.Status = genERSStatus(r, now)
	eds := &edsv1.ExtendedDaemonSet{ObjectMeta: metav1.ObjectMeta{Name: testEDS, Namespace: testNS}}
	eds.Spec.Strategy = defaultedStrategy()
	params := &strategy.Parameters{
		EDSName: testEDS, Strategy: &eds.Spec.Strategy, Replicaset: cur, ReplicaSetStatus: "unknown",
		NewStatus: cur.Status.DeepCopy(), NodeByName: map[string]*strategy.NodeItem{},
		PodByNodeName: map[*strategy.NodeItem]*corev1.Pod{}, Logger: logr.Discard(),
	}
	var order []*strategy.NodeItem
	var cat []string
	for k := 0; k < n; k++ {
		node := genNode(r, fmt.Sprintf("n%d", k), false)
		ni := strategy.NewNodeItem(node, nil)
		c := r.Intn(nCats)
		if c == catSettingMismatch {
			c = catUpToDateAvail
		}
		params.NodeByName[node.Name] = ni
		params.PodByNodeName[ni] = buildPod(r, c, cur, old, ni, now, k)
		order = append(order, ni)
		cat = append(cat, catNames[c])
		if r.Intn(5) == 0 {
			params.CanaryNodes = append(params.CanaryNodes, node.Name)
		}
	}
	in := canonParams(params, eds, order)
	var res *strategy.Result
	var err error
	wall := time.Now()
	panicked, _ := Recovered(func() { res, err = strategy.ManageUnknown(nil, params) })
	in.Now, in.Wall = canon.T(now), canon.T(wall)
	out := canonResult(res, err, panicked, params, &Calls{})
	return &Case{Fn: "manage_unknown", In: in, Out: out, Cat: dedup(cat)}
}

func dedup(in []string) []string {
	m := map[string]bool{}
	var out []string
	for _, s := range in {
		if !m[s] {
			m[s] = true
			out = append(out, s)
		}
	}
	sort.Strings(out)
	return out
}
