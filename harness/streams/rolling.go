package streams

import (
	"context"
	"encoding/json"
	"fmt"
	"math/rand"
	"sort"
	"sync"
	"time"

	"github.com/go-logr/logr"
	corev1 "k8s.io/api/core/v1"
	metav1 "k8s.io/apimachinery/pkg/apis/meta/v1"
	"k8s.io/apimachinery/pkg/runtime"
	"k8s.io/apimachinery/pkg/util/intstr"
	clientgoscheme "k8s.io/client-go/kubernetes/scheme"
	"sigs.k8s.io/controller-runtime/pkg/client"
	"sigs.k8s.io/controller-runtime/pkg/client/fake"
	"sigs.k8s.io/controller-runtime/pkg/client/interceptor"

	edsv1 "github.com/DataDog/extendeddaemonset/api/v1alpha1"
	"github.com/DataDog/extendeddaemonset/controllers/extendeddaemonsetreplicaset/strategy"
	podutils "github.com/DataDog/extendeddaemonset/pkg/controller/utils/pod"

	"verifharness/canon"
)

func init() {
	Registry["manage_deployment"] = streamManageDeployment
}

var theScheme = func() *runtime.Scheme {
	s := runtime.NewScheme()
	_ = clientgoscheme.AddToScheme(s)
	_ = edsv1.AddToScheme(s)
	return s
}()

// Calls records the API writes a function under test issued.
type Calls struct {
	mu      sync.Mutex
	Deleted []string `json:"deleted"`
	Patched []string `json:"patched"`
	Created []string `json:"created"`
	Updated []string `json:"updated"`
}

func (c *Calls) sorted() *Calls {
	sort.Strings(c.Deleted)
	sort.Strings(c.Patched)
	sort.Strings(c.Created)
	sort.Strings(c.Updated)
	if c.Deleted == nil {
		c.Deleted = []string{}
	}
	if c.Patched == nil {
		c.Patched = []string{}
	}
	if c.Created == nil {
		c.Created = []string{}
	}
	if c.Updated == nil {
		c.Updated = []string{}
	}
	return c
}

// recordingClient wraps a fake client; failDelete / failPatch name objects whose write is rejected.
func recordingClient(objs []client.Object, calls *Calls, fail map[string]bool) client.Client {
	base := fake.NewClientBuilder().WithScheme(theScheme).WithObjects(objs...).
		WithStatusSubresource(&edsv1.ExtendedDaemonSet{}, &edsv1.ExtendedDaemonSetReplicaSet{}, &edsv1.ExtendedDaemonsetSetting{}).Build()
	return interceptor.NewClient(base, interceptor.Funcs{
		Delete: func(ctx context.Context, c client.WithWatch, obj client.Object, opts ...client.DeleteOption) error {
			calls.mu.Lock()
			calls.Deleted = append(calls.Deleted, obj.GetName())
			calls.mu.Unlock()
			if fail["delete/"+obj.GetName()] {
				return fmt.Errorf("injected delete failure")
			}
			return c.Delete(ctx, obj, opts...)
		},
		Patch: func(ctx context.Context, c client.WithWatch, obj client.Object, patch client.Patch, opts ...client.PatchOption) error {
			calls.mu.Lock()
			calls.Patched = append(calls.Patched, obj.GetName())
			calls.mu.Unlock()
			if fail["patch/"+obj.GetName()] {
				return fmt.Errorf("injected patch failure")
			}
			return c.Patch(ctx, obj, patch, opts...)
		},
		Create: func(ctx context.Context, c client.WithWatch, obj client.Object, opts ...client.CreateOption) error {
			calls.mu.Lock()
			calls.Created = append(calls.Created, obj.GetGenerateName()+obj.GetName())
			calls.mu.Unlock()
			if fail["create"] {
				return fmt.Errorf("injected create failure")
			}
			return c.Create(ctx, obj, opts...)
		},
	})
}

// node categories of the rolling-update loop
const (
	catNoPod = iota
	catUpToDateAvail
	catUpToDateUnavail
	catOutdatedAvail
	catOutdatedUnavail
	catOutdatedTerminating
	catUpToDateTerminating
	catStuckUnscheduled
	catStuckTerminating
	catSettingMismatch
	catNodeHashMismatch
	catOldDaemonsetPod
	nCats
)

var catNames = []string{"noPod", "upToDateAvail", "upToDateUnavail", "outdatedAvail", "outdatedUnavail", "outdatedTerminating",
	"upToDateTerminating", "stuckUnscheduled", "stuckTerminating", "settingMismatch", "nodeHashMismatch", "oldDaemonsetPod"}

// buildPod builds the pod of category cat on node using the real pod constructor.
func buildPod(r *rand.Rand, cat int, cur, old *edsv1.ExtendedDaemonSetReplicaSet, node *strategy.NodeItem, now time.Time, idx int) *corev1.Pod {
	if cat == catNoPod {
		return nil
	}
	rs := cur
	switch cat {
	case catOutdatedAvail, catOutdatedUnavail, catOutdatedTerminating:
		rs = old
	}
	nodeForPod := node.Node
	setting := node.ExtendedDaemonsetSetting
	affinity := r.Intn(2) == 0
	pod, _ := podutils.CreatePodFromDaemonSetReplicaSet(theScheme, rs, nodeForPod, setting, affinity)
	pod.Name = fmt.Sprintf("%s-p%d", rs.Name, idx)
	pod.GenerateName = ""
	// which node this pod was built for, independently of how the code under test reads it back
	if pod.Annotations == nil {
		pod.Annotations = map[string]string{}
	}
	pod.Annotations["verif/built-for"] = node.Node.Name
	pod.CreationTimestamp = mt(now.Add(-time.Duration(60+r.Intn(300)) * time.Second))
	pod.Status.Phase = corev1.PodRunning
	if affinity && r.Intn(2) == 0 {
		pod.Spec.NodeName = node.Node.Name // the scheduler has bound it
	}
	ready := false
	switch cat {
	case catUpToDateAvail, catOutdatedAvail:
		ready = true
	case catOutdatedTerminating, catUpToDateTerminating:
		ready = r.Intn(2) == 0
		d := mt(now.Add(-time.Duration(1+r.Intn(20)) * time.Second))
		pod.DeletionTimestamp = &d
		g := int64(60 + r.Intn(60))
		pod.DeletionGracePeriodSeconds = &g
		pod.Finalizers = []string{"verif/kubelet"}
	case catStuckUnscheduled:
		pod.Spec.NodeName = ""
		if !affinity {
			// keep a node binding through the affinity so that the pod is still attached to the node
			pod, _ = podutils.CreatePodFromDaemonSetReplicaSet(theScheme, rs, nodeForPod, setting, true)
			pod.Name = fmt.Sprintf("%s-p%d", rs.Name, idx)
			pod.GenerateName = ""
			if pod.Annotations == nil {
				pod.Annotations = map[string]string{}
			}
			pod.Annotations["verif/built-for"] = node.Node.Name
		}
		pod.Status.Phase = corev1.PodPending
		pod.CreationTimestamp = mt(now.Add(-time.Duration(11+r.Intn(30)) * time.Minute))
	case catStuckTerminating:
		d := mt(now.Add(-time.Duration(120+r.Intn(600)) * time.Second))
		pod.DeletionTimestamp = &d
		g := int64(30 + r.Intn(30))
		pod.DeletionGracePeriodSeconds = &g
		pod.Finalizers = []string{"verif/kubelet"}
		ready = r.Intn(2) == 0
	case catSettingMismatch:
		ready = r.Intn(2) == 0
	case catNodeHashMismatch:
		ready = r.Intn(2) == 0
		if r.Intn(2) == 0 {
			pod.Annotations[edsv1.MD5NodeExtendedDaemonSetAnnotationKey] = "deadbeef"
		} else {
			delete(pod.Annotations, edsv1.MD5NodeExtendedDaemonSetAnnotationKey)
			if node.Node.Annotations == nil {
				node.Node.Annotations = map[string]string{}
			}
			node.Node.Annotations[fmt.Sprintf(edsv1.ExtendedDaemonSetRessourceNodeAnnotationKey, testNS, testEDS, "main")] = `{"limits":{"cpu":"1"}}`
		}
	case catOldDaemonsetPod:
		// a pod of the migrated DaemonSet: no template hash at all
		delete(pod.Annotations, edsv1.MD5ExtendedDaemonSetAnnotationKey)
		pod.OwnerReferences = []metav1.OwnerReference{{Kind: "DaemonSet", Name: "old-ds", APIVersion: "apps/v1"}}
		ready = r.Intn(2) == 0
	}
	switch r.Intn(6) {
	case 0: // no Ready condition at all
		if !ready {
			pod.Status.Conditions = nil
		} else {
			pod.Status.Conditions = []corev1.PodCondition{readyCond(true, now.Add(-30 * time.Second))}
		}
	case 1: // other conditions first
		pod.Status.Conditions = []corev1.PodCondition{{Type: corev1.PodScheduled, Status: corev1.ConditionTrue}, readyCond(ready, now.Add(-30 * time.Second))}
	default:
		pod.Status.Conditions = []corev1.PodCondition{readyCond(ready, now.Add(-30 * time.Second))}
	}
	return pod
}

func genRollingStrategy(r *rand.Rand, n int) edsv1.ExtendedDaemonSetSpecStrategy {
	s := defaultedStrategy()
	ru := &s.RollingUpdate
	switch r.Intn(10) {
	case 0:
		ru.MaxUnavailable = ios(intstr.FromInt(0))
	case 1:
		ru.MaxUnavailable = ios(intstr.FromInt(1))
	case 2, 3:
		ru.MaxUnavailable = ios(intstr.FromInt(1 + r.Intn(n+1)))
	case 4, 5:
		ru.MaxUnavailable = ios(intstr.FromString(fmt.Sprintf("%d%%", r.Intn(101))))
	case 6:
		ru.MaxUnavailable = ios(intstr.FromString(fmt.Sprintf("%d", 10+r.Intn(50))))
	case 7:
		ru.MaxUnavailable = ios(intstr.FromInt(-1))
	case 8:
		ru.MaxUnavailable = ios(intstr.FromString(pick(r, "abc", "50%", "34%")))
	default:
		ru.MaxUnavailable = ios(intstr.FromInt(2))
	}
	switch r.Intn(8) {
	case 0:
		ru.MaxPodSchedulerFailure = ios(intstr.FromInt(1 + r.Intn(3)))
	case 1:
		ru.MaxPodSchedulerFailure = ios(intstr.FromString(fmt.Sprintf("%d%%", r.Intn(60))))
	case 2:
		ru.MaxPodSchedulerFailure = ios(intstr.FromString(pick(r, "x%", "20%")))
	case 3:
		ru.MaxPodSchedulerFailure = ios(pick(r, intstr.FromInt(-1), intstr.FromString("-20%")))
	}
	switch r.Intn(5) {
	case 0:
		ru.SlowStartAdditiveIncrease = ios(intstr.FromInt(1))
	case 1:
		ru.SlowStartAdditiveIncrease = ios(intstr.FromString(fmt.Sprintf("%d%%", 1+r.Intn(60))))
	case 2:
		// zero and negative values are accepted by the CRD schema (IntOrString / int32 without minimum)
		ru.SlowStartAdditiveIncrease = ios(pick(r, intstr.FromInt(0), intstr.FromInt(-1), intstr.FromInt(-3), intstr.FromString("-10%")))
	default:
		ru.SlowStartAdditiveIncrease = ios(intstr.FromInt(1 + r.Intn(n+2)))
	}
	if r.Intn(3) == 0 {
		ru.MaxParallelPodCreation = edsv1.NewInt32(int32(pick(r, 0, 1, 2, 3, -1, -2)))
	}
	ru.SlowStartIntervalDuration = &metav1.Duration{Duration: time.Duration(30+r.Intn(90)) * time.Second}
	return s
}

func genAnnotValue(r *rand.Rand) (string, bool) {
	switch r.Intn(5) {
	case 0:
		return "true", true
	case 1:
		return "false", true
	case 2:
		return pick(r, "True", "yes", "1", ""), true
	default:
		return "", false
	}
}

type entryJ struct {
	Item canon.NodeItem `json:"item"`
	Pod  *canon.Pod     `json:"pod,omitempty"`
}

type stratParamsJ struct {
	EdsName        string          `json:"edsName"`
	EdsAnnotations []canon.KV      `json:"edsAnnotations"`
	Strategy       canon.Strategy  `json:"strategy"`
	Ers            canon.ERS       `json:"ers"`
	NewStatus      canon.ERSStatus `json:"newStatus"`
	CanaryNodes    []string        `json:"canaryNodes"`
	ByNode         []entryJ        `json:"byNode"`
	ToCleanUp      []canon.Pod     `json:"toCleanUp"`
	Unscheduled    []canon.Pod     `json:"unscheduled"`
	Now            int64           `json:"now"`
	Wall           int64           `json:"wall"`
	CleanupFailed  bool            `json:"cleanupFailed"`
	// pods the canary-label clean-up list returns (names) and which of them carry the label
	LabelledPods []string `json:"labelledPods"`
}

type delJ struct {
	Node string `json:"node"`
	Pod  string `json:"pod"`
}

type stratResultJ struct {
	Kind             string           `json:"kind"` // ok | err | panic
	Create           []string         `json:"create"`
	Delete           []delJ           `json:"delete"`
	UnscheduledNodes []string         `json:"unscheduledNodes"`
	IsFrozen         bool             `json:"isFrozen"`
	IsPaused         bool             `json:"isPaused"`
	PausedReason     string           `json:"pausedReason"`
	IsUnpaused       bool             `json:"isUnpaused"`
	IsFailed         bool             `json:"isFailed"`
	FailedReason     string           `json:"failedReason"`
	NewStatus        *canon.ERSStatus `json:"newStatus,omitempty"`
	Requeue          bool             `json:"requeue"`
	RequeueAfter     int64            `json:"requeueAfter"`
	Calls            *Calls           `json:"calls"`
}

func canonParams(p *strategy.Parameters, eds *edsv1.ExtendedDaemonSet, order []*strategy.NodeItem) stratParamsJ {
	out := stratParamsJ{
		EdsName: p.EDSName, EdsAnnotations: canon.SM(eds.Annotations), Strategy: canon.CStrategy(p.Strategy),
		Ers: canon.CERS(p.Replicaset), NewStatus: canon.CERSStatus(p.NewStatus), CanaryNodes: p.CanaryNodes,
		ByNode: []entryJ{}, ToCleanUp: []canon.Pod{}, Unscheduled: []canon.Pod{}, LabelledPods: []string{},
	}
	if out.CanaryNodes == nil {
		out.CanaryNodes = []string{}
	}
	for _, ni := range order {
		pod, ok := p.PodByNodeName[ni]
		if !ok {
			continue
		}
		e := entryJ{Item: canonItem(ni, p.Replicaset.Namespace, p.EDSName)}
		if pod != nil {
			cp := canon.CPod(pod)
			e.Pod = &cp
		}
		out.ByNode = append(out.ByNode, e)
	}
	for _, pd := range p.PodToCleanUp {
		out.ToCleanUp = append(out.ToCleanUp, canon.CPod(pd))
	}
	for _, pd := range p.UnscheduledPods {
		out.Unscheduled = append(out.Unscheduled, canon.CPod(pd))
	}
	return out
}

func canonItem(ni *strategy.NodeItem, ns, edsName string) canon.NodeItem {
	it := canon.NodeItem{Node: canon.CNode(ni.Node, ns, edsName)}
	if ni.ExtendedDaemonsetSetting != nil {
		s := canon.CSetting(ni.ExtendedDaemonsetSetting)
		it.Setting = &s
	}
	return it
}

func canonResult(res *strategy.Result, err error, panicked bool, p *strategy.Parameters, calls *Calls) stratResultJ {
	out := stratResultJ{Kind: "ok", Create: []string{}, Delete: []delJ{}, UnscheduledNodes: []string{}, Calls: calls.sorted()}
	if panicked {
		out.Kind = "panic"
		return out
	}
	if err != nil && (res == nil || res.NewStatus == nil) {
		out.Kind = "err"
		return out
	}
	for _, n := range res.PodsToCreate {
		out.Create = append(out.Create, n.Node.Name)
	}
	for _, n := range res.PodsToDelete {
		d := delJ{Node: n.Node.Name}
		if pd := p.PodByNodeName[n]; pd != nil {
			d.Pod = pd.Name
		}
		out.Delete = append(out.Delete, d)
	}
	if res.UnscheduledNodesDueToResourcesConstraints != nil {
		out.UnscheduledNodes = res.UnscheduledNodesDueToResourcesConstraints
	}
	out.IsFrozen, out.IsPaused, out.PausedReason, out.IsUnpaused = res.IsFrozen, res.IsPaused, string(res.PausedReason), res.IsUnpaused
	out.IsFailed, out.FailedReason = res.IsFailed, string(res.FailedReason)
	if res.NewStatus != nil {
		st := canon.CERSStatus(res.NewStatus)
		out.NewStatus = &st
	}
	out.Requeue, out.RequeueAfter = res.Result.Requeue, int64(res.Result.RequeueAfter)
	return out
}

func genERSStatus(r *rand.Rand, now time.Time) edsv1.ExtendedDaemonSetReplicaSetStatus {
	st := edsv1.ExtendedDaemonSetReplicaSetStatus{}
	add := func(t edsv1.ExtendedDaemonSetReplicaSetConditionType, status corev1.ConditionStatus, tr, up time.Time) {
		st.Conditions = append(st.Conditions, edsv1.ExtendedDaemonSetReplicaSetCondition{Type: t, Status: status, LastTransitionTime: mt(tr), LastUpdateTime: mt(up)})
	}
	// counters left by the previous sync (stale by construction: every sync must recount)
	if r.Intn(2) == 0 {
		st.Desired, st.Current, st.Ready, st.Available = int32(r.Intn(8)), int32(r.Intn(8)), int32(r.Intn(8)), int32(r.Intn(8))
		st.IgnoredUnresponsiveNodes = int32(pick(r, 0, 1, 2, 3, 7))
	}
	switch r.Intn(4) {
	case 0:
	case 1:
		add(edsv1.ConditionTypeActive, corev1.ConditionFalse, now.Add(-time.Hour), now.Add(-time.Hour))
	default:
		t := now.Add(-time.Duration(r.Intn(900)) * time.Second)
		add(edsv1.ConditionTypeActive, corev1.ConditionTrue, t, t)
	}
	if r.Intn(3) == 0 {
		add(edsv1.ConditionTypeRollingUpdatePaused, pick(r, corev1.ConditionTrue, corev1.ConditionFalse), now.Add(-time.Hour), now.Add(-time.Hour))
	}
	if r.Intn(4) == 0 {
		add(edsv1.ConditionTypePodsCleanupDone, pick(r, corev1.ConditionTrue, corev1.ConditionFalse), now.Add(-time.Hour), now.Add(-time.Hour))
	}
	return st
}

func streamManageDeployment(r *rand.Rand, i int, tier string) *Case {
	now := time.Now()
	n := 1 + r.Intn(7)
	if r.Intn(12) == 0 {
		n = 20 + r.Intn(60)
	}
	if tier == "thorough" && r.Intn(20) == 0 {
		n = 100 + r.Intn(200)
	}
	exactPct := -1
	if r.Intn(10) == 0 {
		// node counts for which percent * nodes / 100 is an exact integer: the percentage must resolve to exactly
		// that integer (a ratio computed in floating point can overshoot by one: 7% of 100, 28% of 25, 14% of 50)
		n = pick(r, 25, 50, 100)
		exactPct = (100 / map[int]int{25: 25, 50: 50, 100: 100}[n]) * (1 + r.Intn(map[int]int{25: 25, 50: 50, 100: 100}[n]))
		if n == 25 {
			exactPct = 4 * (1 + r.Intn(25))
		} else if n == 50 {
			exactPct = 2 * (1 + r.Intn(50))
		} else {
			exactPct = 1 + r.Intn(100)
		}
	}
	cur := newERS("foo-cur", genTemplate(r, 2, false), now.Add(-time.Hour))
	old := newERS("foo-old", genTemplate(r, 1, false), now.Add(-2*time.Hour))
	cur.Status = genERSStatus(r, now)
	eds := &edsv1.ExtendedDaemonSet{ObjectMeta: metav1.ObjectMeta{Name: testEDS, Namespace: testNS, Annotations: map[string]string{}}}
	if v, ok := genAnnotValue(r); ok {
		eds.Annotations[edsv1.ExtendedDaemonSetRollingUpdatePausedAnnotationKey] = v
	}
	if v, ok := genAnnotValue(r); ok && r.Intn(2) == 0 {
		eds.Annotations[edsv1.ExtendedDaemonSetRolloutFrozenAnnotationKey] = v
	}
	eds.Spec.Strategy = genRollingStrategy(r, n)
	if exactPct > 0 {
		eds.Spec.Strategy.RollingUpdate.MaxUnavailable = ios(intstr.FromString(fmt.Sprintf("%d%%", exactPct)))
		if r.Intn(2) == 0 {
			eds.Spec.Strategy.RollingUpdate.MaxPodSchedulerFailure = ios(intstr.FromString(fmt.Sprintf("%d%%", exactPct)))
		}
	}
	if r.Intn(3) == 0 {
		// the replica set carries the copy of the ExtendedDaemonSet's annotations made when it was
		// created (newReplicaSetFromInstance): the switches as they were THEN, which the user may have
		// removed or flipped since — only the ExtendedDaemonSet's current annotations count
		for _, k := range []string{edsv1.ExtendedDaemonSetRollingUpdatePausedAnnotationKey, edsv1.ExtendedDaemonSetRolloutFrozenAnnotationKey} {
			if v, ok := genAnnotValue(r); ok {
				cur.Annotations[k] = v
			}
		}
	}

	var setting *edsv1.ExtendedDaemonsetSetting
	if r.Intn(3) == 0 {
		setting = &edsv1.ExtendedDaemonsetSetting{ObjectMeta: metav1.ObjectMeta{Name: "set1", Namespace: testNS},
			Spec: edsv1.ExtendedDaemonsetSettingSpec{Containers: []edsv1.ExtendedDaemonsetSettingContainerSpec{{Name: "main", Resources: genResources(r)}}}}
	}
	// weights over categories: a mode per case so that budgets are actually stressed
	mode := r.Intn(5)
	params := &strategy.Parameters{
		EDSName: testEDS, Strategy: &eds.Spec.Strategy, Replicaset: cur, ReplicaSetStatus: "active",
		NewStatus: cur.Status.DeepCopy(), NodeByName: map[string]*strategy.NodeItem{},
		PodByNodeName: map[*strategy.NodeItem]*corev1.Pod{}, Logger: logr.Discard(),
	}
	var order []*strategy.NodeItem
	catCount := map[string]int{}
	var objs []client.Object
	for k := 0; k < n; k++ {
		node := genNode(r, fmt.Sprintf("n%d", k), false)
		ni := strategy.NewNodeItem(node, nil)
		if setting != nil && r.Intn(2) == 0 {
			ni.ExtendedDaemonsetSetting = setting
		}
		var cat int
		switch mode {
		case 0: // mid rollout: mostly outdated
			cat = pick(r, catOutdatedAvail, catOutdatedAvail, catOutdatedUnavail, catUpToDateAvail, catNoPod, catOutdatedTerminating, catUpToDateUnavail)
		case 1: // mostly healthy
			cat = pick(r, catUpToDateAvail, catUpToDateAvail, catUpToDateAvail, catOutdatedAvail, catOutdatedUnavail, catStuckUnscheduled)
		case 2: // first deployment
			cat = pick(r, catNoPod, catNoPod, catUpToDateUnavail, catUpToDateAvail)
		default:
			cat = r.Intn(nCats)
		}
		if cat == catSettingMismatch && ni.ExtendedDaemonsetSetting == nil {
			cat = catOutdatedAvail
		}
		pod := buildPod(r, cat, cur, old, ni, now, k)
		if cat == catSettingMismatch {
			// the pod was built from the setting; now the setting demands another value
			other := *setting
			other.Spec.Containers = []edsv1.ExtendedDaemonsetSettingContainerSpec{{Name: "main", Resources: corev1.ResourceRequirements{
				Limits: corev1.ResourceList{corev1.ResourceCPU: genQuantity(r)}, Requests: genResourceList(r)}}}
			ni.ExtendedDaemonsetSetting = &other
		}
		catCount[catNames[cat]]++
		params.NodeByName[node.Name] = ni
		params.PodByNodeName[ni] = pod
		order = append(order, ni)
		if pod != nil {
			objs = append(objs, pod)
		}
	}
	// listed nodes the replica set does not target (unfit for the template, tainted): FilterAndMapPodsByNode
	// files EVERY listed node in NodeByName but only the targeted ones in PodByNodeName — percentages
	// (maxUnavailable, maxPodSchedulerFailure, slowStartAdditiveIncrease) are resolved against the targeted ones
	if r.Intn(3) == 0 {
		for k := 1 + r.Intn(n+2); k > 0; k-- {
			un := genNode(r, fmt.Sprintf("unfit%d", k), false)
			params.NodeByName[un.Name] = strategy.NewNodeItem(un, nil)
		}
		catCount["listed-untargeted-nodes"]++
		if r.Intn(2) == 0 {
			eds.Spec.Strategy.RollingUpdate.SlowStartAdditiveIncrease = ios(intstr.FromString(fmt.Sprintf("%d%%", 10+r.Intn(60))))
			eds.Spec.Strategy.RollingUpdate.MaxParallelPodCreation = edsv1.NewInt32(250)
		}
	}
	// canary nodes: existing names, sometimes unknown names
	if r.Intn(3) == 0 {
		for k := 0; k < n; k++ {
			if r.Intn(4) == 0 {
				params.CanaryNodes = append(params.CanaryNodes, fmt.Sprintf("n%d", k))
			}
		}
		if r.Intn(3) == 0 {
			params.CanaryNodes = append(params.CanaryNodes, "ghost")
		}
	}
	// clean-up pods
	fail := map[string]bool{}
	for k := r.Intn(4); k > 0 && r.Intn(2) == 0; k-- {
		ni := strategy.NewNodeItem(genNode(r, fmt.Sprintf("gone%d", k), false), nil)
		pod := buildPod(r, pick(r, catOutdatedAvail, catUpToDateAvail, catOutdatedTerminating), cur, old, ni, now, 100000+k)
		params.PodToCleanUp = append(params.PodToCleanUp, pod)
		objs = append(objs, pod)
		if r.Intn(4) == 0 && pod.DeletionTimestamp == nil {
			fail["delete/"+pod.Name] = true
		}
	}
	cleanupFailed := len(fail) > 0
	// unscheduled pods list
	for _, ni := range order {
		pod := params.PodByNodeName[ni]
		if pod != nil && pod.Spec.NodeName == "" {
			cp := pod
			if r.Intn(2) == 0 {
				cp.Status.Conditions = append(cp.Status.Conditions, corev1.PodCondition{Type: corev1.PodScheduled, Status: corev1.ConditionFalse,
					Reason: pick(r, corev1.PodReasonUnschedulable, "Other")})
			}
			params.UnscheduledPods = append(params.UnscheduledPods, cp)
		}
	}
	in := canonParams(params, eds, order)
	in.CleanupFailed = cleanupFailed
	calls := &Calls{}
	c := recordingClient(objs, calls, fail)
	var res *strategy.Result
	var err error
	wall := time.Now()
	panicked, _ := Recovered(func() { res, err = strategy.ManageDeployment(c, eds, params, mt(now)) })
	in.Now, in.Wall = canon.T(now), canon.T(wall)
	out := canonResult(res, err, panicked, params, calls)
	normaliseCleanupCond(out.NewStatus, wall)
	var cat []string
	for k := range catCount {
		cat = append(cat, k)
	}
	sort.Strings(cat)
	cat = append(cat, "kind:"+out.Kind, fmt.Sprintf("paused:%v", out.IsPaused), fmt.Sprintf("frozen:%v", out.IsFrozen))
	if len(out.Delete) > 0 {
		cat = append(cat, "deletes")
	}
	if len(out.Create) > 0 {
		cat = append(cat, "creates")
	}
	if cleanupFailed {
		cat = append(cat, "cleanup-failed")
	}
	return &Case{Fn: "manage_deployment", In: in, Out: out, Cat: cat}
}

// cleanupPods stamps the PodsCleanupDone condition with its own time.Now(); map instants inside
// the call window to the wall instant sampled just before the call.
func normaliseCleanupCond(st *canon.ERSStatus, wall time.Time) {
	if st == nil {
		return
	}
	w := canon.T(wall)
	for i := range st.Conds {
		if st.Conds[i].Type != string(edsv1.ConditionTypePodsCleanupDone) {
			continue
		}
		if st.Conds[i].LastTransition >= w && st.Conds[i].LastTransition < w+int64(10*time.Second) {
			st.Conds[i].LastTransition = w
		}
		if st.Conds[i].LastUpdate >= w && st.Conds[i].LastUpdate < w+int64(10*time.Second) {
			st.Conds[i].LastUpdate = w
		}
	}
}

// recordingClientU also records Update / Status().Update calls (kind/name).
func recordingClientU(objs []client.Object, calls *Calls) client.Client {
	base := fake.NewClientBuilder().WithScheme(theScheme).WithObjects(objs...).
		WithStatusSubresource(&edsv1.ExtendedDaemonSet{}, &edsv1.ExtendedDaemonSetReplicaSet{}, &edsv1.ExtendedDaemonsetSetting{}).Build()
	return interceptor.NewClient(base, interceptor.Funcs{
		Delete: func(ctx context.Context, c client.WithWatch, obj client.Object, opts ...client.DeleteOption) error {
			calls.mu.Lock()
			calls.Deleted = append(calls.Deleted, kindOf(obj)+"/"+obj.GetName())
			calls.mu.Unlock()
			return c.Delete(ctx, obj, opts...)
		},
		Patch: func(ctx context.Context, c client.WithWatch, obj client.Object, patch client.Patch, opts ...client.PatchOption) error {
			calls.mu.Lock()
			calls.Patched = append(calls.Patched, kindOf(obj)+"/"+obj.GetName())
			calls.mu.Unlock()
			return c.Patch(ctx, obj, patch, opts...)
		},
		Create: func(ctx context.Context, c client.WithWatch, obj client.Object, opts ...client.CreateOption) error {
			calls.mu.Lock()
			calls.Created = append(calls.Created, kindOf(obj)+"/"+obj.GetGenerateName()+obj.GetName())
			calls.mu.Unlock()
			return c.Create(ctx, obj, opts...)
		},
		Update: func(ctx context.Context, c client.WithWatch, obj client.Object, opts ...client.UpdateOption) error {
			calls.mu.Lock()
			calls.Updated = append(calls.Updated, kindOf(obj)+"/"+obj.GetName())
			calls.mu.Unlock()
			return c.Update(ctx, obj, opts...)
		},
		SubResourceUpdate: func(ctx context.Context, c client.Client, subResourceName string, obj client.Object, opts ...client.SubResourceUpdateOption) error {
			calls.mu.Lock()
			calls.Updated = append(calls.Updated, subResourceName+":"+kindOf(obj)+"/"+obj.GetName())
			calls.mu.Unlock()
			return c.SubResource(subResourceName).Update(ctx, obj, opts...)
		},
	})
}

func kindOf(obj client.Object) string {
	switch obj.(type) {
	case *corev1.Pod:
		return "Pod"
	case *edsv1.ExtendedDaemonSet:
		return "EDS"
	case *edsv1.ExtendedDaemonSetReplicaSet:
		return "ERS"
	case *edsv1.ExtendedDaemonsetSetting:
		return "Setting"
	case *corev1.PodTemplate:
		return "PodTemplate"
	case *corev1.Node:
		return "Node"
	}
	return fmt.Sprintf("%T", obj)
}

func canonEq(a, b interface{}) bool {
	x, _ := json.Marshal(a)
	y, _ := json.Marshal(b)
	return string(x) == string(y)
}
