package streams

import (
	"fmt"
	"math/rand"
	"sync"
	"time"

	corev1 "k8s.io/api/core/v1"
	metav1 "k8s.io/apimachinery/pkg/apis/meta/v1"
	generator "k8s.io/kube-state-metrics/v2/pkg/metric_generator"

	edsv1 "github.com/DataDog/extendeddaemonset/api/v1alpha1"
	edsctl "github.com/DataDog/extendeddaemonset/controllers/extendeddaemonset"
	ersctl "github.com/DataDog/extendeddaemonset/controllers/extendeddaemonsetreplicaset"

	"verifharness/canon"
)

func init() {
	Registry["metrics"] = streamMetrics
}

type sampleJ struct {
	Family string     `json:"family"`
	Value  int64      `json:"value"`
	Keys   []string   `json:"keys"`
	Values []string   `json:"values"`
	Frac   bool       `json:"frac"`
}

var (
	metricsOnce              sync.Once
	edsFamilies, ersFamilies []generator.FamilyGenerator
)

func runFamilies(fams []generator.FamilyGenerator, obj interface{}) []sampleJ {
	var out []sampleJ
	for _, f := range fams {
		fam := f.GenerateFunc(obj)
		for _, m := range fam.Metrics {
			out = append(out, sampleJ{f.Name, int64(m.Value), append([]string{}, m.LabelKeys...), append([]string{}, m.LabelValues...), m.Value != float64(int64(m.Value))})
		}
	}
	return out
}

func genLabelMap(r *rand.Rand) map[string]string {
	m := map[string]string{}
	for k := r.Intn(4); k > 0; k-- {
		m[pick(r, labelKeyPool...)] = pick(r, "v1", "v2", "", "x-y")
	}
	if r.Intn(3) == 0 {
		return nil
	}
	return m
}

func streamMetrics(r *rand.Rand, i int, tier string) *Case {
	now := baseNow()
	eds := &edsv1.ExtendedDaemonSet{ObjectMeta: metav1.ObjectMeta{Name: pick(r, testEDS, "bar"), Namespace: pick(r, testNS, "ns2"), Labels: genLabelMap(r),
		CreationTimestamp: mt(now)}}
	eds.Spec.Template = tplOf(1)
	eds.Spec.Strategy = defaultedStrategy()
	st := &eds.Status
	st.Desired, st.Current, st.Ready, st.Available, st.UpToDate, st.IgnoredUnresponsiveNodes = int32(r.Intn(50)), int32(r.Intn(50)), int32(r.Intn(50)), int32(r.Intn(50)), int32(r.Intn(50)), int32(r.Intn(5))
	st.State = pick(r, edsv1.ExtendedDaemonSetStatusStateRunning, edsv1.ExtendedDaemonSetStatusStateRollingUpdatePaused, edsv1.ExtendedDaemonSetStatusStateRolloutFrozen,
		edsv1.ExtendedDaemonSetStatusStateCanary, edsv1.ExtendedDaemonSetStatusStateCanaryPaused, edsv1.ExtendedDaemonSetStatusStateCanaryFailed, "")
	if r.Intn(2) == 0 {
		st.Canary = &edsv1.ExtendedDaemonSetStatusCanary{ReplicaSet: pick(r, "foo-a", "foo-b")}
		for k := r.Intn(4); k > 0; k-- {
			st.Canary.Nodes = append(st.Canary.Nodes, fmt.Sprintf("n%d", k))
		}
	}
	switch r.Intn(3) {
	case 0:
		st.Conditions = append(st.Conditions, edsv1.ExtendedDaemonSetCondition{Type: edsv1.ConditionTypeEDSCanaryPaused, Status: corev1.ConditionTrue, Reason: pick(r, "CrashLoopBackOff", "", "x")})
	case 1:
		st.Conditions = append(st.Conditions, edsv1.ExtendedDaemonSetCondition{Type: edsv1.ConditionTypeEDSCanaryPaused, Status: corev1.ConditionFalse})
	}
	ers := newERS("foo-a", tplOf(1), now.Add(-time.Hour))
	ers.Labels = genLabelMap(r)
	es := &ers.Status
	es.Desired, es.Current, es.Ready, es.Available, es.IgnoredUnresponsiveNodes = int32(r.Intn(50)), int32(r.Intn(50)), int32(r.Intn(50)), int32(r.Intn(50)), int32(r.Intn(5))
	switch r.Intn(3) {
	case 0:
		es.Conditions = append(es.Conditions, ersCond(edsv1.ConditionTypeCanaryFailed, corev1.ConditionTrue, now, now, "x"))
	case 1:
		es.Conditions = append(es.Conditions, ersCond(edsv1.ConditionTypeCanaryFailed, corev1.ConditionFalse, now, now, ""))
	}
	var edsS, ersS []sampleJ
	p, _ := Recovered(func() {
		// the controller builds its metric families ONCE and renders every object through them: nothing a
		// generator saw for one object may show in the series of the next one
		metricsOnce.Do(func() {
			edsFamilies, ersFamilies = edsctl.VerifGenerateMetricFamilies(), ersctl.VerifGenerateMetricFamilies()
		})
		edsS = runFamilies(edsFamilies, eds)
		ersS = runFamilies(ersFamilies, ers)
	})
	cat := []string{"state:" + string(st.State)}
	if st.Canary != nil {
		cat = append(cat, "canary")
	}
	return &Case{Fn: "metrics", In: map[string]interface{}{"eds": canon.CEDS(eds), "ers": canon.CERS(ers)},
		Out: map[string]interface{}{"panic": p, "eds": edsS, "ers": ersS}, Cat: cat}
}
