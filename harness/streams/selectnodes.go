package streams

import (
	"fmt"
	"math/rand"
	"time"

	"github.com/go-logr/logr"
	corev1 "k8s.io/api/core/v1"
	metav1 "k8s.io/apimachinery/pkg/apis/meta/v1"
	"k8s.io/apimachinery/pkg/labels"
	"k8s.io/apimachinery/pkg/util/intstr"
	"k8s.io/client-go/tools/record"
	"sigs.k8s.io/controller-runtime/pkg/client"

	edsv1 "github.com/DataDog/extendeddaemonset/api/v1alpha1"
	edsctl "github.com/DataDog/extendeddaemonset/controllers/extendeddaemonset"

	"verifharness/canon"
)

func init() {
	Registry["select_nodes"] = streamSelectNodes
}

func newEDSReconciler(c client.Client, mode edsv1.ExtendedDaemonSetSpecStrategyCanaryValidationMode) *edsctl.Reconciler {
	r, _ := edsctl.NewReconciler(edsctl.ReconcilerOptions{DefaultValidationMode: mode}, c, theScheme, logr.Discard(), record.NewFakeRecorder(1000))
	return r
}

func streamSelectNodes(r *rand.Rand, i int, tier string) *Case {
	now := baseNow()
	nn := 1 + r.Intn(8)
	tpl := genTemplate(r, 2, r.Intn(2) == 0)
	rs := newERS("foo-new", tpl, now)
	eds := &edsv1.ExtendedDaemonSet{ObjectMeta: metav1.ObjectMeta{Name: testEDS, Namespace: testNS}}
	eds.Spec.Template = tpl
	eds.Spec.Strategy = defaultedStrategy()
	c := genCanarySpec(r)
	eds.Spec.Strategy.Canary = c
	switch r.Intn(6) {
	case 0:
		c.Replicas = ios(intstr.FromInt(1))
	case 1:
		c.Replicas = ios(intstr.FromInt(1 + r.Intn(nn+1)))
	case 2:
		c.Replicas = ios(intstr.FromString(fmt.Sprintf("%d%%", 10+r.Intn(90))))
	case 3:
		c.Replicas = ios(intstr.FromString("50%"))
	case 4:
		c.Replicas = ios(intstr.FromInt(0))
	default:
		c.Replicas = ios(intstr.FromInt(2))
	}
	switch r.Intn(4) {
	case 0:
		c.NodeSelector = &metav1.LabelSelector{MatchLabels: map[string]string{"zone": pick(r, "a", "b")}}
	case 1:
		c.NodeSelector = &metav1.LabelSelector{MatchExpressions: []metav1.LabelSelectorRequirement{{Key: "disk", Operator: metav1.LabelSelectorOpExists}}}
	}
	if r.Intn(3) == 0 {
		c.NodeAntiAffinityKeys = pick(r, []string{"zone"}, []string{"zone", "disk"}, []string{"gen"})
	}
	var objs []client.Object
	var cnodes []canon.Node
	var cpods []canon.Pod
	var cat []string
	for k := 0; k < nn; k++ {
		n := genNode(r, fmt.Sprintf("n%d", k), true)
		objs = append(objs, n)
		cnodes = append(cnodes, canon.CNode(n, testNS, testEDS))
		// pods with restart history
		for j := r.Intn(3); j > 0 && r.Intn(2) == 0; j-- {
			p := &corev1.Pod{ObjectMeta: metav1.ObjectMeta{Name: fmt.Sprintf("p%d-%d", k, j), Namespace: testNS,
				Labels: map[string]string{edsv1.ExtendedDaemonSetNameLabelKey: testEDS}}}
			p.Spec.NodeName = n.Name
			p.Spec.Containers = []corev1.Container{{Name: "main", Image: "i"}}
			for ci := r.Intn(3); ci >= 0; ci-- {
				p.Status.ContainerStatuses = append(p.Status.ContainerStatuses, corev1.ContainerStatus{Name: fmt.Sprintf("c%d", ci), RestartCount: int32(r.Intn(4))})
			}
			if r.Intn(4) == 0 {
				p.Status.InitContainerStatuses = []corev1.ContainerStatus{{Name: "init", RestartCount: 7}}
			}
			objs = append(objs, p)
			cpods = append(cpods, canon.CPod(p))
		}
	}
	if cpods == nil {
		cpods = []canon.Pod{}
	}
	// previously selected nodes
	var current []string
	for k := 0; k < nn; k++ {
		if r.Intn(4) == 0 {
			current = append(current, fmt.Sprintf("n%d", k))
		}
	}
	if r.Intn(6) == 0 {
		current = append(current, "ghost")
	}
	r.Shuffle(len(current), func(a, b int) { current[a], current[b] = current[b], current[a] })
	// input class of known finding F6a: a previously selected name is not among the nodes the
	// selection lists (node deleted, or no longer matching the canary node selector)
	{
		listed := map[string]bool{}
		sel, serr := metav1.LabelSelectorAsSelector(c.NodeSelector)
		for _, o := range objs {
			if n, ok := o.(*corev1.Node); ok && (serr != nil || sel.Matches(labels.Set(n.Labels))) {
				listed[n.Name] = true
			}
		}
		for _, name := range current {
			if !listed[name] {
				cat = append(cat, "previously-selected-node-not-listed")
				break
			}
		}
	}
	eds.Status.Desired = int32(nn)
	if r.Intn(5) == 0 {
		eds.Status.Desired = int32(r.Intn(nn + 1))
	}
	rs.Status.Desired = pick(r, int32(0), int32(0), int32(len(current)), int32(nn))
	calls := &Calls{}
	cl := recordingClient(objs, calls, nil)
	sw := &switchClient{Client: cl}
	rec := newEDSReconciler(sw, edsv1.ExtendedDaemonSetSpecStrategyCanaryValidationModeAuto)
	if r.Intn(3) == 0 {
		// the same reconciler instance has already selected nodes for this replica set in a world
		// with a different node population
		cat = append(cat, "warm-reconciler")
		sw.use(recordingClient(perturbNodes(r, objs), &Calls{}, nil))
		warm := &edsv1.ExtendedDaemonSetStatusCanary{ReplicaSet: rs.Name, Nodes: append([]string{}, current...)}
		Recovered(func() { _ = rec.VerifSelectNodes(logr.Discard(), eds.DeepCopy(), &eds.DeepCopy().Spec, rs.DeepCopy(), warm) })
		sw.use(cl)
	}
	cs := &edsv1.ExtendedDaemonSetStatusCanary{ReplicaSet: rs.Name, Nodes: append([]string{}, current...)}
	in := map[string]interface{}{"eds": canon.CEDS(eds), "ers": canon.CERS(rs), "current": canon.CanaryStatus{ReplicaSet: rs.Name, Nodes: append([]string{}, current...)}.Nodes,
		"nodes": cnodes, "pods": cpods}
	if current == nil {
		in["current"] = []string{}
	}
	var err error
	p, _ := Recovered(func() { err = rec.VerifSelectNodes(logr.Discard(), eds, &eds.Spec, rs, cs) })
	out := map[string]interface{}{"panic": p, "err": err != nil, "nodes": cs.Nodes}
	if cs.Nodes == nil {
		out["nodes"] = []string{}
	}
	if c.Replicas.Type == intstr.String {
		cat = append(cat, "percent")
	} else {
		cat = append(cat, "number")
	}
	if err != nil {
		cat = append(cat, "error")
	}
	if len(cs.Nodes) > len(current) {
		cat = append(cat, "added")
	}
	if len(c.NodeAntiAffinityKeys) > 0 {
		cat = append(cat, "anti-affinity")
	}
	if c.NodeSelector != nil && (len(c.NodeSelector.MatchLabels) > 0 || len(c.NodeSelector.MatchExpressions) > 0) {
		cat = append(cat, "node-selector")
	}
	_ = time.Second
	return &Case{Fn: "select_nodes", In: in, Out: out, Cat: cat}
}
