package streams

import (
	"fmt"
	"math/rand"
	"sort"
	"time"

	"github.com/go-logr/logr"
	autoscalingv1 "k8s.io/api/autoscaling/v1"
	corev1 "k8s.io/api/core/v1"
	metav1 "k8s.io/apimachinery/pkg/apis/meta/v1"
	"k8s.io/apimachinery/pkg/util/intstr"

	edsv1 "github.com/DataDog/extendeddaemonset/api/v1alpha1"
	"github.com/DataDog/extendeddaemonset/controllers/extendeddaemonsetreplicaset/scheduler"
	edssetting "github.com/DataDog/extendeddaemonset/controllers/extendeddaemonsetsetting"
	"github.com/DataDog/extendeddaemonset/pkg/controller/utils"
	podutils "github.com/DataDog/extendeddaemonset/pkg/controller/utils/pod"

	"verifharness/canon"
)

func init() {
	Registry["labels"] = streamLabels
	Registry["defaults"] = streamDefaults
	Registry["setting_conflict"] = streamSettingConflict
	Registry["fitness"] = streamFitness
}

// ---------------------------------------------------------------------------------------------
// BuildInfoLabels / sanitizeLabelName (C20)

var labelKeyPool = []string{"name", "namespace", "Name", "app", "team", "app.kubernetes.io/name", "app.kubernetes.io/instance", "extendeddaemonset.datadoghq.com/name",
	"a-b", "a_b", "a.b", "a/b", "x", "Z9", "tier-1", "tier.1", "é", "k8s-app", "_u", "0n"}

func streamLabels(r *rand.Rand, i int, tier string) *Case {
	m := map[string]string{}
	n := r.Intn(6)
	for k := 0; k < n; k++ {
		m[pick(r, labelKeyPool...)] = pick(r, "v1", "v2", "", "x-y", "1")
	}
	var obj metav1.ObjectMeta
	if n > 0 || r.Intn(2) == 0 {
		obj.Labels = m
	}
	keys, vals := utils.BuildInfoLabels(&obj)
	if keys == nil {
		keys = []string{}
	}
	if vals == nil {
		vals = []string{}
	}
	san := map[string]string{}
	var cat []string
	coll := false
	changed := false
	for k := range m {
		s := utils.VerifSanitizeLabelName(k)
		if _, dup := san[s]; dup {
			coll = true
		}
		san[s] = k
		if s != k {
			changed = true
		}
	}
	if coll {
		cat = append(cat, "collision")
	}
	if changed {
		cat = append(cat, "sanitised-key")
	}
	if len(m) == 0 {
		cat = append(cat, "empty")
	} else {
		cat = append(cat, "plain")
	}
	sanList := [][]string{}
	for _, k := range labelKeyPool {
		sanList = append(sanList, []string{k, utils.VerifSanitizeLabelName(k)})
	}
	return &Case{Fn: "labels", In: map[string]interface{}{"labels": canon.SM(m)},
		Out: map[string]interface{}{"keys": keys, "values": vals, "sanitize": sanList}, Cat: cat}
}

// ---------------------------------------------------------------------------------------------
// Default / IsDefaulted / Validate (C16)

func genBoolPtr(r *rand.Rand) *bool {
	switch r.Intn(3) {
	case 0:
		return nil
	case 1:
		return edsv1.NewBool(true)
	default:
		return edsv1.NewBool(false)
	}
}

func genFullStrategy(r *rand.Rand) edsv1.ExtendedDaemonSetSpecStrategy {
	s := edsv1.ExtendedDaemonSetSpecStrategy{}
	s.RollingUpdate.MaxUnavailable = genIntOrStr(r, true)
	s.RollingUpdate.MaxPodSchedulerFailure = genIntOrStr(r, true)
	s.RollingUpdate.SlowStartAdditiveIncrease = genIntOrStr(r, true)
	s.RollingUpdate.MaxParallelPodCreation = genI32Ptr(r)
	s.RollingUpdate.SlowStartIntervalDuration = genDurPtr(r, true)
	s.ReconcileFrequency = genDurPtr(r, true)
	if r.Intn(5) != 0 {
		c := &edsv1.ExtendedDaemonSetSpecStrategyCanary{}
		c.Replicas = genIntOrStr(r, true)
		c.Duration = genDurPtr(r, true)
		c.NoRestartsDuration = genDurPtr(r, true)
		c.ValidationMode = pick(r, "", edsv1.ExtendedDaemonSetSpecStrategyCanaryValidationModeAuto, edsv1.ExtendedDaemonSetSpecStrategyCanaryValidationModeManual)
		switch r.Intn(6) {
		case 0, 1:
			c.NodeSelector = &metav1.LabelSelector{MatchLabels: map[string]string{"zone": "a"}}
		case 2: // expressions only (MatchLabels nil)
			c.NodeSelector = &metav1.LabelSelector{MatchExpressions: []metav1.LabelSelectorRequirement{{Key: "zone", Operator: metav1.LabelSelectorOpIn, Values: []string{"a", "b"}}}}
		case 3:
			c.NodeSelector = &metav1.LabelSelector{MatchLabels: map[string]string{"disk": "ssd"},
				MatchExpressions: []metav1.LabelSelectorRequirement{{Key: "gen", Operator: metav1.LabelSelectorOpExists}}}
		case 4: // present but empty
			c.NodeSelector = &metav1.LabelSelector{}
		}
		if r.Intn(4) == 0 {
			c.NodeAntiAffinityKeys = []string{"zone"}
		}
		if r.Intn(4) != 0 {
			c.AutoPause = &edsv1.ExtendedDaemonSetSpecStrategyCanaryAutoPause{Enabled: genBoolPtr(r), MaxRestarts: genI32Ptr(r), MaxSlowStartDuration: genDurPtr(r, true)}
		}
		if r.Intn(4) != 0 {
			c.AutoFail = &edsv1.ExtendedDaemonSetSpecStrategyCanaryAutoFail{Enabled: genBoolPtr(r), MaxRestarts: genI32Ptr(r), MaxRestartsDuration: genDurPtr(r, true), CanaryTimeout: genDurPtr(r, true)}
		}
		s.Canary = c
	}
	return s
}

func validateName(err error, panicked bool) string {
	switch {
	case panicked:
		return "panic"
	case err == nil:
		return "ok"
	case err == edsv1.ErrInvalidAutoFailRestarts:
		return "errAutoFailRestarts"
	case err == edsv1.ErrInvalidCanaryTimeout:
		return "errCanaryTimeout"
	case err == edsv1.ErrDurationWithManualValidationMode:
		return "errDurationManual"
	case err == edsv1.ErrNoRestartsDurationWithManualValidationMode:
		return "errNoRestartsManual"
	}
	return "err?"
}

func streamDefaults(r *rand.Rand, i int, tier string) *Case {
	eds := &edsv1.ExtendedDaemonSet{ObjectMeta: metav1.ObjectMeta{Name: testEDS, Namespace: testNS}}
	eds.Spec.Strategy = genFullStrategy(r)
	eds.Spec.Template = genTemplate(r, 1, false)
	if r.Intn(3) == 0 {
		eds.Spec.Template.Name = "tplname"
	}
	mode := pick(r, edsv1.ExtendedDaemonSetSpecStrategyCanaryValidationModeAuto, edsv1.ExtendedDaemonSetSpecStrategyCanaryValidationModeManual)
	in := map[string]interface{}{"strategy": canon.CStrategy(&eds.Spec.Strategy), "templateName": eds.Spec.Template.Name, "defaultMode": string(mode)}
	out := map[string]interface{}{}
	var cat []string
	var isDef bool
	p, _ := Recovered(func() { isDef = edsv1.IsDefaultedExtendedDaemonSet(eds) })
	out["isDefaulted"] = isDef
	out["isDefaultedPanic"] = p
	// validate the raw spec (recover: nil dereferences)
	var verr error
	p2, _ := Recovered(func() { verr = edsv1.ValidateExtendedDaemonSetSpec(&eds.Spec) })
	out["validateRaw"] = validateName(verr, p2)
	var d *edsv1.ExtendedDaemonSet
	p3, _ := Recovered(func() { d = edsv1.DefaultExtendedDaemonSet(eds, mode) })
	out["defaultPanic"] = p3
	if !p3 {
		out["defaulted"] = canon.CStrategy(&d.Spec.Strategy)
		out["defaultedTemplateName"] = d.Spec.Template.Name
		var isDef2 bool
		Recovered(func() { isDef2 = edsv1.IsDefaultedExtendedDaemonSet(d) })
		out["defaultedIsDefaulted"] = isDef2
		d2 := edsv1.DefaultExtendedDaemonSet(d, mode)
		out["defaultedTwice"] = canon.CStrategy(&d2.Spec.Strategy)
		var verr2 error
		p4, _ := Recovered(func() { verr2 = edsv1.ValidateExtendedDaemonSetSpec(&d.Spec) })
		out["validateDefaulted"] = validateName(verr2, p4)
		cat = append(cat, "validate:"+validateName(verr2, p4))
	}
	if isDef {
		cat = append(cat, "already-defaulted")
	}
	if eds.Spec.Strategy.Canary != nil {
		cat = append(cat, "canary", "mode:"+string(eds.Spec.Strategy.Canary.ValidationMode))
	}
	cat = append(cat, "raw-validate:"+validateName(verr, p2))
	return &Case{Fn: "defaults", In: in, Out: out, Cat: cat}
}

// ---------------------------------------------------------------------------------------------
// searchPossibleConflict (C18)

func genSettingSelector(r *rand.Rand) metav1.LabelSelector {
	if r.Intn(12) == 0 {
		// unusable through its LABELS only (no expression): an invalid label value or key
		return pick(r, metav1.LabelSelector{MatchLabels: map[string]string{"role": "big memory"}},
			metav1.LabelSelector{MatchLabels: map[string]string{"bad key!": "x"}},
			metav1.LabelSelector{MatchLabels: map[string]string{"zone": "a", "disk": "-leading-dash"}})
	}
	switch r.Intn(7) {
	case 0:
		return metav1.LabelSelector{}
	case 1:
		return metav1.LabelSelector{MatchLabels: map[string]string{"zone": pick(r, "a", "b")}}
	case 2:
		return metav1.LabelSelector{MatchLabels: map[string]string{"disk": pick(r, "ssd", "hdd")}}
	case 3:
		return metav1.LabelSelector{MatchExpressions: []metav1.LabelSelectorRequirement{{Key: "zone", Operator: metav1.LabelSelectorOpIn, Values: []string{"a", "c"}}}}
	case 4:
		return metav1.LabelSelector{MatchExpressions: []metav1.LabelSelectorRequirement{{Key: "gen", Operator: metav1.LabelSelectorOpExists}}}
	case 5:
		return metav1.LabelSelector{MatchExpressions: []metav1.LabelSelectorRequirement{{Key: "zone", Operator: metav1.LabelSelectorOpNotIn, Values: []string{"a"}}},
			MatchLabels: map[string]string{"disk": "ssd"}}
	default:
		// unusable selector
		return metav1.LabelSelector{MatchExpressions: []metav1.LabelSelectorRequirement{{Key: "zone", Operator: pick(r, metav1.LabelSelectorOperator("Bogus"), metav1.LabelSelectorOpIn)}}}
	}
}

func genSettings(r *rand.Rand, base time.Time, n int) []edsv1.ExtendedDaemonsetSetting {
	var out []edsv1.ExtendedDaemonsetSetting
	for k := 0; k < n; k++ {
		s := edsv1.ExtendedDaemonsetSetting{ObjectMeta: metav1.ObjectMeta{Name: fmt.Sprintf("s%d", k), Namespace: testNS,
			CreationTimestamp: mt(base.Add(time.Duration(r.Intn(3)) * time.Hour))}}
		s.Spec.NodeSelector = genSettingSelector(r)
		switch r.Intn(6) {
		case 0:
		case 1:
			s.Spec.Reference = &autoscalingv1.CrossVersionObjectReference{Name: ""}
		case 2:
			s.Spec.Reference = &autoscalingv1.CrossVersionObjectReference{Name: "other", Kind: "ExtendedDaemonSet"}
		default:
			s.Spec.Reference = &autoscalingv1.CrossVersionObjectReference{Name: testEDS, Kind: "ExtendedDaemonSet"}
		}
		s.Spec.Containers = []edsv1.ExtendedDaemonsetSettingContainerSpec{{Name: "main", Resources: genResources(r)}}
		s.Status.Status = pick(r, edsv1.ExtendedDaemonsetSettingStatusValid, edsv1.ExtendedDaemonsetSettingStatusError, "")
		out = append(out, s)
	}
	return out
}

func streamSettingConflict(r *rand.Rand, i int, tier string) *Case {
	base := canon.Epoch
	ns := 1 + r.Intn(4)
	settings := genSettings(r, base, ns)
	nn := r.Intn(5)
	nodes := &corev1.NodeList{}
	var cn []canon.Node
	for k := 0; k < nn; k++ {
		n := genNode(r, fmt.Sprintf("n%d", k), true)
		nodes.Items = append(nodes.Items, *n)
		cn = append(cn, canon.CNode(n, testNS, testEDS))
	}
	if cn == nil {
		cn = []canon.Node{}
	}
	list := &edsv1.ExtendedDaemonsetSettingList{Items: settings}
	// shuffle the list order (the API returns no particular order)
	r.Shuffle(len(list.Items), func(a, b int) { list.Items[a], list.Items[b] = list.Items[b], list.Items[a] })
	idx := r.Intn(len(list.Items))
	inst := list.Items[idx].DeepCopy()
	var other string
	var err error
	p, _ := Recovered(func() { other, err = edssetting.VerifSearchPossibleConflict(inst, nodes, list) })
	var cs []canon.Setting
	bad := false
	for k := range list.Items {
		c := canon.CSetting(&list.Items[k])
		if c.BadSelector {
			bad = true
		}
		cs = append(cs, c)
	}
	res := "none"
	if p {
		res = "panic"
	} else if err != nil {
		res = "err:" + other
	}
	cat := []string{"result:" + map[bool]string{true: "err", false: "none"}[err != nil]}
	if bad {
		cat = append(cat, "has-bad-selector")
	}
	if canon.CSetting(inst).BadSelector {
		cat = append(cat, "own-bad-selector")
	}
	return &Case{Fn: "setting_conflict", In: map[string]interface{}{"inst": canon.CSetting(inst), "nodes": cn, "settings": cs},
		Out: map[string]interface{}{"res": res}, Cat: cat}
}

// ---------------------------------------------------------------------------------------------
// CheckNodeFitness (C01)

func streamFitness(r *rand.Rand, i int, tier string) *Case {
	tpl := genTemplate(r, 1, true)
	rs := newERS("foo-a", tpl, canon.Epoch)
	pod, _ := podutils.CreatePodFromDaemonSetReplicaSet(nil, rs, nil, nil, false)
	node := genNode(r, pick(r, genNodeNames...), true)
	var got bool
	p, _ := Recovered(func() { got = scheduler.CheckNodeFitness(logr.Discard(), pod, node) })
	var cat []string
	if len(tpl.Spec.NodeSelector) > 0 {
		cat = append(cat, "nodeSelector")
	}
	if tpl.Spec.Affinity != nil && tpl.Spec.Affinity.NodeAffinity != nil && tpl.Spec.Affinity.NodeAffinity.RequiredDuringSchedulingIgnoredDuringExecution != nil {
		cat = append(cat, "required-affinity")
	}
	if len(node.Spec.Taints) > 0 {
		cat = append(cat, "taints")
	}
	cat = append(cat, fmt.Sprintf("fit:%v", got))
	sort.Strings(cat)
	return &Case{Fn: "fitness", In: map[string]interface{}{"template": canon.CTemplate(&tpl), "node": canon.CNode(node, testNS, testEDS)},
		Out: map[string]interface{}{"fit": got, "panic": p}, Cat: cat}
}

var _ = intstr.FromInt
