package streams

import (
	"fmt"
	"math/rand"
	"sort"
	"time"

	"github.com/go-logr/logr"
	corev1 "k8s.io/api/core/v1"
	"k8s.io/client-go/tools/record"
	"sigs.k8s.io/controller-runtime/pkg/client/fake"

	edsv1 "github.com/DataDog/extendeddaemonset/api/v1alpha1"
	ersctl "github.com/DataDog/extendeddaemonset/controllers/extendeddaemonsetreplicaset"
	"github.com/DataDog/extendeddaemonset/controllers/extendeddaemonsetreplicaset/strategy"
	podutils "github.com/DataDog/extendeddaemonset/pkg/controller/utils/pod"

	"verifharness/canon"
)

func init() {
	Registry["filter"] = streamFilter
}

func newERSReconciler() *ersctl.Reconciler {
	c := fake.NewClientBuilder().WithScheme(theScheme).Build()
	r, _ := ersctl.NewReconciler(ersctl.ReconcilerOptions{}, c, theScheme, logr.Discard(), record.NewFakeRecorder(100))
	return r
}

type filterOutJ struct {
	ByNode      []keptJ  `json:"byNode"`
	ToDelete    []string `json:"toDelete"`
	Unscheduled []string `json:"unscheduled"`
	Panic       bool     `json:"panic"`
}

type keptJ struct {
	Node string  `json:"node"`
	Pod  *string `json:"pod,omitempty"`
}

func streamFilter(r *rand.Rand, i int, tier string) *Case {
	now := baseNow()
	tpl := genTemplate(r, 2, r.Intn(3) != 0)
	rs := newERS("foo-cur", tpl, now.Add(-time.Hour))
	old := newERS("foo-old", genTemplate(r, 1, false), now.Add(-2*time.Hour))
	nn := 1 + r.Intn(5)
	nodeList := &strategy.NodeList{}
	var cnodes []canon.NodeItem
	for k := 0; k < nn; k++ {
		n := genNode(r, fmt.Sprintf("n%d", k), true)
		ni := strategy.NewNodeItem(n, nil)
		nodeList.Items = append(nodeList.Items, ni)
		cnodes = append(cnodes, canonItem(ni, testNS, testEDS))
	}
	var ignore []string
	for k := 0; k < nn; k++ {
		if r.Intn(6) == 0 {
			ignore = append(ignore, fmt.Sprintf("n%d", k))
		}
	}
	if r.Intn(8) == 0 {
		ignore = append(ignore, "ghost")
	}
	if ignore == nil {
		ignore = []string{}
	}
	podList := &corev1.PodList{}
	var cat []string
	nameIdx := 0
	addPod := func(nodeName string, ownerRS *edsv1.ExtendedDaemonSetReplicaSet) {
		node := &corev1.Node{}
		node.Name = nodeName
		mode := r.Intn(3)
		pod, _ := podutils.CreatePodFromDaemonSetReplicaSet(theScheme, ownerRS, node, nil, mode != 0)
		if mode == 2 {
			pod.Spec.NodeName = nodeName // affinity + bound
		}
		if nodeName == "" {
			pod.Spec.NodeName = ""
			pod.Spec.Affinity = nil
			cat = append(cat, "unbound-pod")
		}
		nameIdx++
		pod.Name = fmt.Sprintf("p%d", r.Intn(3)*100+nameIdx) // names not in creation order
		pod.GenerateName = ""
		pod.CreationTimestamp = mt(now.Add(-time.Duration(pick(r, 60, 60, 120, 300, 30)) * time.Second))
		pod.Status.Phase = pick(r, corev1.PodRunning, corev1.PodRunning, corev1.PodPending, corev1.PodFailed, corev1.PodFailed, corev1.PodUnknown, corev1.PodSucceeded)
		if r.Intn(5) == 0 {
			d := mt(now.Add(-10 * time.Second))
			pod.DeletionTimestamp = &d
		}
		cat = append(cat, "phase:"+string(pod.Status.Phase))
		podList.Items = append(podList.Items, *pod)
	}
	for k := 0; k < nn; k++ {
		cnt := pick(r, 0, 1, 1, 1, 2, 2, 3)
		if cnt >= 2 {
			cat = append(cat, "duplicates")
		}
		for j := 0; j < cnt; j++ {
			addPod(fmt.Sprintf("n%d", k), pick(r, rs, rs, old))
		}
	}
	for k := r.Intn(3); k > 0; k-- {
		addPod(pick(r, "gone1", "gone2", "ghost", ""), pick(r, rs, old))
	}
	r.Shuffle(len(podList.Items), func(a, b int) { podList.Items[a], podList.Items[b] = podList.Items[b], podList.Items[a] })
	// unique names
	seen := map[string]bool{}
	for k := range podList.Items {
		for seen[podList.Items[k].Name] {
			podList.Items[k].Name += "x"
		}
		seen[podList.Items[k].Name] = true
	}
	rec := newERSReconciler()
	// seed the back-off: nodes in back-off are NOT released
	var inBackoff []string
	for k := 0; k < nn; k++ {
		if r.Intn(3) == 0 {
			name := fmt.Sprintf("n%d", k)
			rec.VerifBackoff().Next(ersctl.VerifBackoffKey(rs, name), time.Now())
			inBackoff = append(inBackoff, name)
		}
	}
	if inBackoff == nil {
		inBackoff = []string{}
	} else {
		cat = append(cat, "backoff-seeded")
	}
	var cpods []canon.Pod
	for k := range podList.Items {
		cpods = append(cpods, canon.CPod(&podList.Items[k]))
	}
	if cpods == nil {
		cpods = []canon.Pod{}
	}
	in := map[string]interface{}{"ers": canon.CERS(rs), "nodes": cnodes, "pods": cpods, "ignore": ignore, "inBackoff": inBackoff}
	out := filterOutJ{ByNode: []keptJ{}, ToDelete: []string{}, Unscheduled: []string{}}
	var byNode map[*strategy.NodeItem]*corev1.Pod
	var del, uns []*corev1.Pod
	p, _ := Recovered(func() { _, byNode, del, uns = rec.FilterAndMapPodsByNode(logr.Discard(), rs, nodeList, podList, ignore) })
	out.Panic = p
	for _, ni := range nodeList.Items {
		pod, ok := byNode[ni]
		if !ok {
			continue
		}
		k := keptJ{Node: ni.Node.Name}
		if pod != nil {
			n := pod.Name
			k.Pod = &n
		}
		out.ByNode = append(out.ByNode, k)
	}
	for _, pd := range del {
		out.ToDelete = append(out.ToDelete, pd.Name)
	}
	for _, pd := range uns {
		out.Unscheduled = append(out.Unscheduled, pd.Name)
	}
	sort.Strings(out.ToDelete)
	sort.Strings(out.Unscheduled)
	if len(out.ByNode) < nn {
		cat = append(cat, "unfit-or-ignored-node")
	}
	return &Case{Fn: "filter", In: in, Out: out, Cat: dedup(cat)}
}
