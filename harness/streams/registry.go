// Package streams holds the correspondence streams: each runs real code of /repo on a generated
// input and emits {fn, id, in, out, cat} for the Lean driver.
package streams

import (
	"fmt"
	"math/rand"
	"os"
	"runtime/debug"
)

// Case is one line of a stream.
type Case struct {
	Fn  string      `json:"fn"`
	ID  int         `json:"id"`
	In  interface{} `json:"in"`
	Out interface{} `json:"out"`
	// Cat lists the categories / branches this case exercises (for the evidence histograms).
	Cat []string `json:"cat,omitempty"`
}

// Stream generates and runs case number i.
type Stream func(r *rand.Rand, i int, tier string) *Case

// Registry of all streams by name.
var Registry = map[string]Stream{}

func mix(seed int64, i int) int64 {
	x := uint64(seed)*0x9E3779B97F4A7C15 + uint64(i)*0xBF58476D1CE4E5B9 + 0x94D049BB133111EB
	x ^= x >> 31
	x *= 0xD6E8FEB86659FD93
	x ^= x >> 29
	return int64(x & 0x7fffffffffffffff)
}

// RunCase runs one case with panic protection.
func RunCase(st Stream, seed int64, i int, tier string) (c *Case) {
	r := rand.New(rand.NewSource(mix(seed, i)))
	defer func() {
		if e := recover(); e != nil {
			c = &Case{Fn: "harness_panic", ID: i, In: map[string]string{"panic": fmt.Sprint(e)}, Out: map[string]string{}}
		}
	}()
	c = st(r, i, tier)
	if c != nil {
		c.ID = i
	}
	return c
}

// Recovered runs f and reports whether it panicked.
func Recovered(f func()) (panicked bool, msg string) {
	defer func() {
		if e := recover(); e != nil {
			panicked = true
			msg = fmt.Sprint(e)
			if os.Getenv("VERIF_STACK") != "" {
				fmt.Fprintf(os.Stderr, "panic: %v\n%s\n", e, debug.Stack())
			}
		}
	}()
	f()
	return false, ""
}

func pick[T any](r *rand.Rand, xs ...T) T { return xs[r.Intn(len(xs))] }
