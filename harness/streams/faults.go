package streams

import (
	"sort"
	"bytes"
	"context"
	"fmt"
	"math/rand"
	"time"

	autoscalingv1 "k8s.io/api/autoscaling/v1"
	corev1 "k8s.io/api/core/v1"
	"k8s.io/apimachinery/pkg/api/resource"
	metav1 "k8s.io/apimachinery/pkg/apis/meta/v1"
	"k8s.io/apimachinery/pkg/types"
	"k8s.io/apimachinery/pkg/util/intstr"
	"k8s.io/cli-runtime/pkg/genericclioptions"
	testingclock "k8s.io/utils/clock/testing"
	"sigs.k8s.io/controller-runtime/pkg/client"
	"sigs.k8s.io/controller-runtime/pkg/reconcile"

	edsv1 "github.com/DataDog/extendeddaemonset/api/v1alpha1"
	"github.com/DataDog/extendeddaemonset/pkg/controller/utils/comparison"
	"github.com/DataDog/extendeddaemonset/pkg/plugin/canary"
)

func init() {
	Registry["scenario_faults"] = streamScenarioFaults
	Registry["scenario_faults_rollback"] = streamScenarioFaultsRollback
}

// the corpus of C11: deterministic scripts over a 3-node cluster.
var corpus = []struct {
	name   string
	canary bool
	script func(s *scenario)
}{
	{"first-deployment", false, func(s *scenario) {}},
	{"rolling-update", false, func(s *scenario) {
		s.settle(12)
		s.updateEDS(func(d *edsv1.ExtendedDaemonSet) { d.Spec.Template = tplOf(2) })
	}},
	{"canary-start-and-promotion", true, func(s *scenario) {
		s.settle(12)
		s.updateEDS(func(d *edsv1.ExtendedDaemonSet) { d.Spec.Template = tplOf(2) })
	}},
	{"canary-failure-and-rollback", true, func(s *scenario) {
		s.settle(12)
		s.updateEDS(func(d *edsv1.ExtendedDaemonSet) { d.Spec.Template = tplOf(2) })
		s.round(true)
		s.round(true)
		// the operator fails the canary
		streams := genericclioptions.IOStreams{In: &bytes.Buffer{}, Out: &bytes.Buffer{}, ErrOut: &bytes.Buffer{}}
		s.w.quiet(func() { _ = canary.VerifRunFail(s.w.cl, streams, s.ns, s.name) })
	}},
	{"canary-autofail-and-rollback", true, func(s *scenario) {
		s.settle(12)
		s.updateEDS(func(d *edsv1.ExtendedDaemonSet) {
			d.Spec.Template = tplOf(2)
			d.Spec.Strategy.Canary.Duration = &metav1.Duration{Duration: 20 * time.Minute}
		})
		// the FIRST pod of the new template crash-loops, whenever it is created (not at a fixed round: a faulted
		// run may create it later than the fault-free one): the controller itself must notice (auto-fail), mark
		// the canary failed and roll back — the verdict lives nowhere but in that pod until its status write lands
		s.badOnce = true
		s.badHash, _ = comparison.GenerateMD5PodTemplateSpec(func() *corev1.PodTemplateSpec { t := tplOf(2); return &t }())
		for k := 0; k < 4; k++ { // replica set created, active pod of the canary node replaced, canary pod crash-loops
			s.round(true)
		}
	}},
	{"node-removal", false, func(s *scenario) {
		s.settle(12)
		s.w.quiet(func() { _ = s.w.cl.Delete(context.TODO(), &corev1.Node{ObjectMeta: metav1.ObjectMeta{Name: "n1"}}) })
	}},
	{"settings-change", false, func(s *scenario) {
		s.settle(12)
		set := &edsv1.ExtendedDaemonsetSetting{ObjectMeta: metav1.ObjectMeta{Name: "set1", Namespace: s.ns, CreationTimestamp: mt(time.Now().Truncate(time.Second))}}
		set.Spec.Reference = &autoscalingv1.CrossVersionObjectReference{Name: s.name, Kind: "ExtendedDaemonSet"}
		set.Spec.NodeSelector = metav1.LabelSelector{MatchLabels: map[string]string{"pool": "big"}}
		set.Spec.Containers = []edsv1.ExtendedDaemonsetSettingContainerSpec{{Name: "main", Resources: corev1.ResourceRequirements{
			Limits: corev1.ResourceList{corev1.ResourceCPU: resource.MustParse("2")}}}}
		s.w.quiet(func() { _ = s.w.cl.Create(context.TODO(), set) })
		_, _ = s.w.setRec.Reconcile(context.TODO(), reconcile.Request{NamespacedName: types.NamespacedName{Namespace: s.ns, Name: "set1"}})
	}},
}

// settle runs cooperative rounds until three quiet ones (or the bound).
func (s *scenario) settle(max int) int {
	quiet, n := 0, 0
	for n < max && quiet < 3 {
		n++
		before := s.w.view(s.ns, s.name)
		s.round(true)
		after := s.w.view(s.ns, s.name)
		if s.podWrites == 0 && canonEq(before.Pods, after.Pods) && canonEq(before.Eds.Status, after.Eds.Status) && after.Eds.Status.Canary == nil {
			quiet++
		} else {
			quiet = 0
		}
	}
	return n
}

func runCorpus(idx int, faults map[int]string) (*scenario, clusterView, bool, int) {
	c := corpus[idx]
	now := time.Now().Truncate(time.Second).Add(-2 * time.Second)
	var objs []client.Object
	for k := 0; k < 3; k++ {
		n := &corev1.Node{ObjectMeta: metav1.ObjectMeta{Name: fmt.Sprintf("n%d", k)}}
		if k == 2 {
			n.Labels = map[string]string{"pool": "big"}
		}
		objs = append(objs, n)
	}
	eds := &edsv1.ExtendedDaemonSet{ObjectMeta: metav1.ObjectMeta{Name: testEDS, Namespace: testNS, UID: "uid-eds", CreationTimestamp: mt(now.Add(-time.Hour))}}
	eds.Spec.Template = tplOf(1)
	eds.Spec.Strategy.RollingUpdate.MaxUnavailable = ios(intstr.FromInt(1))
	eds.Spec.Strategy.RollingUpdate.SlowStartAdditiveIncrease = ios(intstr.FromInt(2))
	if c.canary {
		eds.Spec.Strategy.Canary = &edsv1.ExtendedDaemonSetSpecStrategyCanary{
			Replicas: ios(intstr.FromInt(1)), Duration: &metav1.Duration{Duration: 150 * time.Second},
			NoRestartsDuration: &metav1.Duration{Duration: 60 * time.Second}, ValidationMode: edsv1.ExtendedDaemonSetSpecStrategyCanaryValidationModeAuto}
	}
	objs = append(objs, eds)
	sc := &scenario{r: rand.New(rand.NewSource(1)), ns: testNS, name: testEDS, nextNode: 3, tplID: 1, clock: testingclock.NewFakeClock(time.Now())}
	sc.w = newSimWorld(objs, idx%2 == 0, edsv1.ExtendedDaemonSetSpecStrategyCanaryValidationModeAuto)
	sc.installClock()
	sc.w.globalFaults = faults
	sc.w.totalWrites = 0
	sc.w.globalLog = nil
	c.script(sc)
	rounds := sc.settle(40)
	sc.w.globalFaults = nil
	writes := sc.w.totalWrites
	sc.faultLog = append([]string{}, sc.w.globalLog...)
	// a few more fault-free rounds: recovery must complete
	extra := sc.settle(30)
	_ = extra
	v := sc.w.view(sc.ns, sc.name)
	return sc, v, rounds < 40, writes
}

var corpusBaseline = map[int]struct {
	view   clusterView
	writes int
	// byKind: the indices of the failure-free run's writes, grouped by "verb:Kind"
	byKind map[string][]int
	kinds  []string
}{}

// faultBound: no corpus scenario issues more API writes than this in its failure-free run (checked).
const faultBound = 56

func streamScenarioFaults(r *rand.Rand, i int, tier string) *Case { return faultCase(r, i, -1) }

// scenario_faults_rollback: the same enumeration restricted to the canary-failure-and-rollback
// scenario (C07's recovery clause, C02's "from every reachable intermediate state").
func streamScenarioFaultsRollback(r *rand.Rand, i int, tier string) *Case { return faultCase(r, i, 3) }

// faultCase enumerates: case i < faultBound*#scenarios*#kinds is the single fault (scenario, kind, k)
// with k = i / (#scenarios*#kinds) -- every index k of the failure-free run's API writes and every
// fault kind at k; the cases after that are pairs of faults at random positions.
func faultCase(r *rand.Rand, i int, only int) *Case {
	kinds := []string{"reject", "lost", "crash", "crash-after"}
	nc := len(corpus)
	if only >= 0 {
		nc = 1
	}
	idx := i % nc
	if only >= 0 {
		idx = only
	}
	kind := kinds[(i/nc)%len(kinds)]
	base, ok := corpusBaseline[idx]
	if !ok {
		sc0, v, _, w := runCorpus(idx, nil)
		base.view, base.writes = v, w
		base.byKind = map[string][]int{}
		for g, l := range sc0.faultLog {
			if g < w {
				base.byKind[l] = append(base.byKind[l], g)
			}
		}
		for l := range base.byKind {
			base.kinds = append(base.kinds, l)
		}
		sort.Strings(base.kinds)
		corpusBaseline[idx] = base
		if w > faultBound {
			panic(fmt.Sprintf("corpus scenario %s issues %d writes > faultBound", corpus[idx].name, w))
		}
	}
	singles := faultBound * nc * len(kinds)
	pair := i >= singles
	var k int
	faults := map[int]string{}
	if !pair {
		k = i / (nc * len(kinds))
		if k >= base.writes {
			return nil
		}
		faults[k] = kind
	} else {
		k = r.Intn(base.writes)
		faults[k] = kind
		faults[r.Intn(base.writes)] = kinds[r.Intn(len(kinds))]
	}
	sc, v, converged, _ := runCorpus(idx, faults)
	sc.steps = append(sc.steps, stepJ{"same_fixpoint", "final", map[string]interface{}{"baseline": base.view, "faulted": v, "ns": sc.ns, "eds": sc.name},
		map[string]interface{}{"converged": converged}, sc.w.envOps})
	cat := []string{"scenario:" + corpus[idx].name, "fault:" + kind, fmt.Sprintf("pair:%v", pair)}
	if k < len(sc.faultLog) {
		cat = append(cat, "fault-on:"+sc.faultLog[k])
	}
	return &Case{Fn: "scenario", In: map[string]interface{}{"ops": sc.ops, "scenario": corpus[idx].name, "faultAt": k, "kind": kind, "writes": base.writes},
		Out: map[string]interface{}{"steps": sc.steps}, Cat: cat}
}
