package streams

import (
	"strings"
	apierrors "k8s.io/apimachinery/pkg/api/errors"
	"k8s.io/apimachinery/pkg/runtime/schema"
	"context"
	"fmt"
	"math/rand"
	"sort"
	"sync"
	"time"

	corev1 "k8s.io/api/core/v1"
	metav1 "k8s.io/apimachinery/pkg/apis/meta/v1"
	"k8s.io/apimachinery/pkg/types"
	"k8s.io/apimachinery/pkg/util/intstr"
	"sigs.k8s.io/controller-runtime/pkg/client"
	"sigs.k8s.io/controller-runtime/pkg/client/fake"
	"sigs.k8s.io/controller-runtime/pkg/client/interceptor"
	"sigs.k8s.io/controller-runtime/pkg/reconcile"

	edsv1 "github.com/DataDog/extendeddaemonset/api/v1alpha1"
	edsctl "github.com/DataDog/extendeddaemonset/controllers/extendeddaemonset"
	"github.com/DataDog/extendeddaemonset/pkg/controller/utils/comparison"

	"verifharness/canon"
)

func init() {
	Registry["eds_reconcile"] = streamEdsReconcile
}

// writeLog captures the objects passed to the write verbs, in order.
type writeLog struct {
	mu      sync.Mutex
	Order   []string
	Created []client.Object
	Deleted []client.Object
	Updated []client.Object
	Status  []client.Object
	Patched []client.Object
	// AppliedPods counts the pod creations / deletions the API server applied
	AppliedPods int
}

func (wl *writeLog) applied(obj client.Object, err error) {
	if _, ok := obj.(*corev1.Pod); ok && err == nil {
		wl.mu.Lock()
		wl.AppliedPods++
		wl.mu.Unlock()
	}
}

// statusFault logs a status write and decides its fault.  failAt[-2] applies to the first status write
// wherever it falls; "concurrent-fail" is not a failure of the call: another writer (kubectl-eds canary
// fail, a second controller instance at leader hand-over) marks the replica set Canary-Failed between
// the controller's read and this write — the stored object then carries a newer resourceVersion.
func statusFault(c client.Client, wl *writeLog, failAt map[int]string, fault func() string, obj client.Object) string {
	wl.mu.Lock()
	wl.Order = append(wl.Order, "status:"+kindOf(obj)+"/"+obj.GetName())
	wl.Status = append(wl.Status, obj.DeepCopyObject().(client.Object))
	f := fault()
	if sp, ok := failAt[-2]; ok && f == "" {
		f = sp
		delete(failAt, -2)
	}
	wl.mu.Unlock()
	if f == "concurrent-fail" {
		if _, isErs := obj.(*edsv1.ExtendedDaemonSetReplicaSet); isErs {
			cur := &edsv1.ExtendedDaemonSetReplicaSet{}
			if err := c.Get(context.TODO(), client.ObjectKeyFromObject(obj), cur); err == nil {
				now := metav1.Now()
				set := false
				for i := range cur.Status.Conditions {
					if cur.Status.Conditions[i].Type == edsv1.ConditionTypeCanaryFailed {
						cur.Status.Conditions[i].Status = corev1.ConditionTrue
						cur.Status.Conditions[i].LastTransitionTime, cur.Status.Conditions[i].LastUpdateTime = now, now
						set = true
					}
				}
				if !set {
					cur.Status.Conditions = append(cur.Status.Conditions, edsv1.ExtendedDaemonSetReplicaSetCondition{
						Type: edsv1.ConditionTypeCanaryFailed, Status: corev1.ConditionTrue, LastTransitionTime: now, LastUpdateTime: now, Reason: "ManuallyFailed"})
				}
				_ = c.Status().Update(context.TODO(), cur)
			}
		}
		return ""
	}
	return f
}

// rejected: the error a rejected write returns.  "conflict" is a 409 (another writer changed the object
// between the controller's read and its write); a plain "reject" cycles through the API error kinds.
func rejected(f, verb string, obj client.Object) error {
	if f == "conflict" {
		return apierrors.NewConflict(schema.GroupResource{Resource: kindOf(obj)}, obj.GetName(), fmt.Errorf("injected: the object has been modified"))
	}
	return injectedErr(verb, obj.GetGenerateName()+obj.GetName())
}

func loggingClient(objs []client.Object, wl *writeLog, failAt map[int]string) client.Client {
	base := fake.NewClientBuilder().WithScheme(theScheme).WithObjects(objs...).
		WithStatusSubresource(&edsv1.ExtendedDaemonSet{}, &edsv1.ExtendedDaemonSetReplicaSet{}, &edsv1.ExtendedDaemonsetSetting{}).Build()
	count := 0
	// fault decides what happens to write number `count`: "" ok, "reject", "lost" (applied, error returned)
	fault := func() string {
		k := count
		count++
		if failAt == nil {
			return ""
		}
		return failAt[k]
	}
	return interceptor.NewClient(base, interceptor.Funcs{
		Create: func(ctx context.Context, c client.WithWatch, obj client.Object, opts ...client.CreateOption) error {
			wl.mu.Lock()
			wl.Order = append(wl.Order, "create:"+kindOf(obj)+"/"+obj.GetGenerateName()+obj.GetName())
			wl.Created = append(wl.Created, obj.DeepCopyObject().(client.Object))
			f := fault()
			wl.mu.Unlock()
			if f == "reject" || f == "conflict" {
				return rejected(f, "create", obj)
			}
			err := c.Create(ctx, obj, opts...)
			wl.applied(obj, err)
			if f == "lost" {
				return fmt.Errorf("injected (applied)")
			}
			return err
		},
		Delete: func(ctx context.Context, c client.WithWatch, obj client.Object, opts ...client.DeleteOption) error {
			wl.mu.Lock()
			wl.Order = append(wl.Order, "delete:"+kindOf(obj)+"/"+obj.GetName())
			wl.Deleted = append(wl.Deleted, obj.DeepCopyObject().(client.Object))
			f := fault()
			wl.mu.Unlock()
			if f == "reject" || f == "conflict" {
				return rejected(f, "delete", obj)
			}
			err := c.Delete(ctx, obj, opts...)
			wl.applied(obj, err)
			if f == "lost" {
				return fmt.Errorf("injected (applied)")
			}
			return err
		},
		Update: func(ctx context.Context, c client.WithWatch, obj client.Object, opts ...client.UpdateOption) error {
			wl.mu.Lock()
			wl.Order = append(wl.Order, "update:"+kindOf(obj)+"/"+obj.GetName())
			wl.Updated = append(wl.Updated, obj.DeepCopyObject().(client.Object))
			f := fault()
			// failAt[-1]: fault on the first main-resource Update of an ExtendedDaemonSet (the spec write
			// that follows the status write), wherever it falls in the sequence
			if sp, ok := failAt[-1]; ok && f == "" {
				if _, isEds := obj.(*edsv1.ExtendedDaemonSet); isEds {
					f = sp
					delete(failAt, -1)
				}
			}
			wl.mu.Unlock()
			if f == "reject" || f == "conflict" {
				return rejected(f, "update", obj)
			}
			err := c.Update(ctx, obj, opts...)
			if f == "lost" {
				return fmt.Errorf("injected (applied)")
			}
			return err
		},
		Patch: func(ctx context.Context, c client.WithWatch, obj client.Object, patch client.Patch, opts ...client.PatchOption) error {
			wl.mu.Lock()
			wl.Order = append(wl.Order, "patch:"+kindOf(obj)+"/"+obj.GetName())
			wl.Patched = append(wl.Patched, obj.DeepCopyObject().(client.Object))
			f := fault()
			wl.mu.Unlock()
			if f == "reject" || f == "conflict" {
				return rejected(f, "patch", obj)
			}
			err := c.Patch(ctx, obj, patch, opts...)
			if f == "lost" {
				return fmt.Errorf("injected (applied)")
			}
			return err
		},
		SubResourceUpdate: func(ctx context.Context, c client.Client, sub string, obj client.Object, opts ...client.SubResourceUpdateOption) error {
			f := statusFault(c, wl, failAt, fault, obj)
			if f == "reject" || f == "conflict" {
				return rejected(f, "status", obj)
			}
			err := c.SubResource(sub).Update(ctx, obj, opts...)
			if f == "lost" {
				return fmt.Errorf("injected (applied)")
			}
			return err
		},
		SubResourcePatch: func(ctx context.Context, c client.Client, sub string, obj client.Object, patch client.Patch, opts ...client.SubResourcePatchOption) error {
			f := statusFault(c, wl, failAt, fault, obj)
			if f == "reject" || f == "conflict" {
				return rejected(f, "status", obj)
			}
			err := c.SubResource(sub).Patch(ctx, obj, patch, opts...)
			if f == "lost" {
				return fmt.Errorf("injected (applied)")
			}
			return err
		},
	})
}

type newErsJ struct {
	Ns                 string     `json:"ns"`
	GenerateName       string     `json:"generateName"`
	Labels             []canon.KV `json:"labels"`
	Annotations        []canon.KV `json:"annotations"`
	TemplateGeneration string     `json:"templateGeneration"`
	OwnerEds           string     `json:"ownerEds"`
}

type edsOutJ struct {
	Kind         string           `json:"kind"` // ok | err | panic
	Requeue      bool             `json:"requeue"`
	RequeueAfter int64            `json:"requeueAfter"`
	Defaulted    *canon.Strategy  `json:"defaulted,omitempty"`
	DefaultedTN  string           `json:"defaultedTemplateName"`
	Created      *newErsJ         `json:"created,omitempty"`
	DeletedErs   []string         `json:"deletedErs"`
	StatusUpdate *canon.EDSStatus `json:"statusUpdate,omitempty"`
	SpecHash     *string          `json:"specHash,omitempty"`
	SpecAnn      []canon.KV       `json:"specAnn"`
	Order        []string         `json:"order"`
	// objects written that are not (ns, name)-own: violates C12
	Foreign []string `json:"foreign"`
	// stale-read cases: the stored object differs after the reconcile although every write of it
	// carried an outdated resourceVersion
	StoredChanged       bool `json:"storedChanged"`
	StoredCanaryChanged bool `json:"storedCanaryChanged"`
}

var tplCache = map[int]corev1.PodTemplateSpec{}

func tplOf(id int) corev1.PodTemplateSpec {
	if t, ok := tplCache[id]; ok {
		return *t.DeepCopy()
	}
	t := genTemplate(rand.New(rand.NewSource(int64(id))), id, false)
	tplCache[id] = t
	return *t.DeepCopy()
}

// normTimes maps every time written during the call window to `now`.
func normTime(v *int64, lo, hi, now int64) {
	if *v >= lo && *v <= hi {
		*v = now
	}
}

func normStatusTimes(st *canon.EDSStatus, lo, hi, now int64) {
	for i := range st.Conds {
		normTime(&st.Conds[i].LastTransition, lo, hi, now)
		normTime(&st.Conds[i].LastUpdate, lo, hi, now)
	}
}

func streamEdsReconcile(r *rand.Rand, i int, tier string) *Case {
	now := time.Now()
	var cat []string
	// one case in fourteen: the ExtendedDaemonSet has a long (legal: up to 253 characters) name, which is
	// no valid label VALUE (63 characters at most) — whatever is built from it must still select its own
	// objects only
	testEDS := testEDS
	if r.Intn(14) == 0 {
		testEDS = "agent-" + strings.Repeat("x", 60+r.Intn(20))
		cat = append(cat, "eds-long-name")
	}
	eds := &edsv1.ExtendedDaemonSet{ObjectMeta: metav1.ObjectMeta{Name: testEDS, Namespace: testNS, UID: "uid-eds",
		CreationTimestamp: mt(now.Add(-24 * time.Hour)), Annotations: map[string]string{}}}
	ids := []int{1, 2, 3}
	curTpl := pick(r, ids...)
	// directed class (one case in twelve): a canary has just started — the previous reconcile selected
	// the canary nodes and stored them — then the daemon pods of the selected nodes restart and the next
	// reconcile decides from a stale read of the ExtendedDaemonSet (no canary nodes yet).  Its fresh
	// selection differs from the stored one; the write must be refused and the stored selection kept.
	directed := r.Intn(12) == 0
	if directed {
		curTpl = 2
		cat = append(cat, "directed:stale-canary-selection")
	}
	// second directed class (one case in fifteen): a canary with PERCENTAGE replicas is running, the stored
	// status.desired is inflated (it sums the active and the canary replica sets while the canary starts),
	// and one List call of the reconcile fails.  Whatever the reconcile then writes, the canary list must
	// not grow beyond the percentage of the nodes the ExtendedDaemonSet really targets.
	directedPct := !directed && r.Intn(15) == 0
	if directedPct {
		curTpl = 2
		cat = append(cat, "directed:percent-canary-read-fault")
	}
	// per case, every template of the history carries the same scheduling constraint (or none), so
	// that node fitness matters for the nodes the EDS targets and the canary nodes it selects
	deco := r.Intn(4)
	if directed || directedPct {
		deco = 0
	}
	metaDiff := r.Intn(2) == 0
	metaMore := r.Intn(6) == 0
	tplCase := func(id int) corev1.PodTemplateSpec {
		t := tplOf(id)
		if metaDiff {
			// the templates of the history also differ in their metadata (a config checksum, a label)
			t.Annotations = map[string]string{"checksum/config": fmt.Sprintf("cfg-%d", id)}
			if id == 2 {
				t.Labels["tier"] = "new"
			}
		}
		if metaMore {
			// template metadata beyond labels and annotations (all of ObjectMeta is in the CRD schema): the replica
			// set is created from the WHOLE template, and its recorded hash is the hash of what it stores
			t.Finalizers = []string{"example.com/hold"}
			if id == 2 {
				t.OwnerReferences = []metav1.OwnerReference{{APIVersion: "v1", Kind: "ConfigMap", Name: "cfg", UID: "u1"}}
			}
		}
		switch deco {
		case 1:
			t.Spec.NodeSelector = map[string]string{"zone": "a"}
		case 2:
			t.Spec.Tolerations = []corev1.Toleration{{Key: "dedicated", Operator: corev1.TolerationOpExists}}
		}
		return t
	}
	if deco == 1 || deco == 2 {
		cat = append(cat, "template-scheduling-constraint")
	}
	eds.Spec.Template = tplCase(curTpl)
	eds.Spec.Strategy = defaultedStrategy()
	hasCanary := r.Intn(4) != 0 || directed || directedPct
	if hasCanary {
		eds.Spec.Strategy.Canary = genCanarySpec(r)
		c := eds.Spec.Strategy.Canary
		// keep every time comparison >= 5 s away from its threshold
		if c.Duration != nil {
			c.Duration = &metav1.Duration{Duration: time.Duration(60+r.Intn(600)) * time.Second}
		}
		if c.NoRestartsDuration != nil {
			c.NoRestartsDuration = &metav1.Duration{Duration: time.Duration(30+r.Intn(300)) * time.Second}
		}
		if c.ValidationMode == edsv1.ExtendedDaemonSetSpecStrategyCanaryValidationModeManual {
			c.Duration, c.NoRestartsDuration = nil, nil
		}
		if r.Intn(3) == 0 {
			c.NodeSelector = &metav1.LabelSelector{MatchLabels: map[string]string{pick(r, "zone", "disk"): pick(r, "a", "ssd")}}
		}
		if r.Intn(3) == 0 {
			c.NodeAntiAffinityKeys = []string{pick(r, "zone", "disk")}
		}
		switch r.Intn(4) {
		case 0:
			c.Replicas = ios(intstr.FromInt(2))
		case 1:
			c.Replicas = ios(intstr.FromString("50%"))
		}
	}
	if directed {
		c := eds.Spec.Strategy.Canary
		c.NodeSelector, c.NodeAntiAffinityKeys = &metav1.LabelSelector{}, nil
		c.Replicas = ios(intstr.FromInt(1 + r.Intn(2)))
	}
	if directedPct {
		c := eds.Spec.Strategy.Canary
		c.NodeSelector, c.NodeAntiAffinityKeys = &metav1.LabelSelector{}, nil
		c.Replicas = ios(intstr.FromString(pick(r, "50%", "50%", "25%", "34%")))
	}
	switch r.Intn(12) + map[bool]int{true: 100, false: 0}[directed || directedPct] {
	case 0: // not defaulted
		eds.Spec.Strategy.ReconcileFrequency = nil
		cat = append(cat, "not-defaulted")
	case 1:
		eds.Spec.Template.Name = "named"
		cat = append(cat, "not-defaulted")
	case 2:
		if hasCanary { // invalid
			*eds.Spec.Strategy.Canary.AutoFail.MaxRestarts = 0
			*eds.Spec.Strategy.Canary.AutoPause.MaxRestarts = 3
			cat = append(cat, "invalid-spec")
		}
	case 3, 4:
		if hasCanary && !directed {
			// defaulted but invalid (edited after the defaults were written): manual validation together
			// with a duration.  Validation must stop every reconcile; elapsed time must never promote.
			c := eds.Spec.Strategy.Canary
			c.ValidationMode = edsv1.ExtendedDaemonSetSpecStrategyCanaryValidationModeManual
			c.Duration = &metav1.Duration{Duration: time.Duration(60+r.Intn(600)) * time.Second}
			if r.Intn(2) == 0 {
				c.NoRestartsDuration = &metav1.Duration{Duration: time.Duration(30+r.Intn(300)) * time.Second}
			}
			cat = append(cat, "invalid-spec", "invalid-spec:manual-with-duration")
		}
	}
	if r.Intn(8) == 0 { // F11: the EDS carries the name label of something else
		eds.Labels = map[string]string{edsv1.ExtendedDaemonSetNameLabelKey: "other", "team": "x"}
		cat = append(cat, "eds-has-name-label")
	} else if r.Intn(3) == 0 {
		eds.Labels = map[string]string{"team": "x"}
	}
	for _, k := range []string{edsv1.ExtendedDaemonSetCanaryPausedAnnotationKey, edsv1.ExtendedDaemonSetCanaryUnpausedAnnotationKey,
		edsv1.ExtendedDaemonSetRollingUpdatePausedAnnotationKey, edsv1.ExtendedDaemonSetRolloutFrozenAnnotationKey} {
		if v, ok := genAnnotValue(r); ok && r.Intn(2) == 0 {
			eds.Annotations[k] = v
		}
	}
	if directed || directedPct {
		eds.Labels = nil
		eds.Annotations = map[string]string{}
	}
	names := map[int]string{1: "foo-a", 2: "foo-b", 3: "foo-c"}
	switch r.Intn(5) {
	case 0:
		eds.Annotations[edsv1.ExtendedDaemonSetCanaryValidAnnotationKey] = names[curTpl]
	case 1:
		eds.Annotations[edsv1.ExtendedDaemonSetCanaryValidAnnotationKey] = pick(r, "foo-a", "foo-b", "foo-z")
	}
	var objs []client.Object
	var all []*edsv1.ExtendedDaemonSetReplicaSet
	mk := func(name, ns string, tpl int, edsLabel string) *edsv1.ExtendedDaemonSetReplicaSet {
		e := newERS(name, tplCase(tpl), now.Add(-time.Duration(pick(r, 20, 300, 900, 4000))*time.Second))
		e.Namespace = ns
		e.Labels[edsv1.ExtendedDaemonSetNameLabelKey] = edsLabel
		switch r.Intn(3) {
		case 0: // no pods at all
		case 1:
			e.Status.Desired, e.Status.Current, e.Status.Ready, e.Status.Available = int32(r.Intn(5)), int32(r.Intn(5)), int32(r.Intn(4)), int32(r.Intn(3))
		default:
			e.Status.Desired = int32(1 + r.Intn(4))
			e.Status.Current, e.Status.Ready, e.Status.Available = e.Status.Desired, e.Status.Desired, e.Status.Desired
		}
		e.Status.IgnoredUnresponsiveNodes = int32(r.Intn(2))
		switch r.Intn(5) {
		case 0:
			age := pick(r, 30, 110, 130, 600)
			e.Status.Conditions = append(e.Status.Conditions, ersCond(edsv1.ConditionTypeCanaryFailed, corev1.ConditionTrue, now.Add(-time.Duration(age)*time.Second), now.Add(-time.Second*20), "OOMKilled"))
		case 1:
			e.Status.Conditions = append(e.Status.Conditions, ersCond(edsv1.ConditionTypeCanaryFailed, corev1.ConditionFalse, now.Add(-time.Hour), now.Add(-time.Hour), ""))
		}
		switch r.Intn(5) {
		case 0:
			e.Status.Conditions = append(e.Status.Conditions, ersCond(edsv1.ConditionTypeCanaryPaused, corev1.ConditionTrue, now.Add(-time.Minute), now.Add(-time.Minute), pick(r, "CrashLoopBackOff", "")))
		}
		if r.Intn(4) == 0 {
			up := now.Add(-time.Duration(pick(r, 10, 100, 1000)) * time.Second)
			e.Status.Conditions = append(e.Status.Conditions, ersCond(edsv1.ConditionTypePodRestarting, corev1.ConditionTrue, up.Add(-time.Minute), up, ""))
		}
		if r.Intn(12) == 0 {
			d := mt(now.Add(-10 * time.Second))
			e.DeletionTimestamp = &d
			e.Finalizers = []string{"verif/hold"}
		}
		return e
	}
	for _, id := range ids {
		if r.Intn(3) != 0 {
			all = append(all, mk(names[id], testNS, id, testEDS))
		}
	}
	if r.Intn(4) == 0 { // same EDS name in another namespace (F5)
		all = append(all, mk(pick(r, "foo-a", "foo-x"), "ns2", pick(r, ids...), testEDS))
		cat = append(cat, "same-name-other-namespace")
	}
	if r.Intn(4) == 0 { // another EDS in the same namespace
		all = append(all, mk("bar-a", testNS, pick(r, ids...), "bar"))
	}
	if directed || directedPct {
		delete(eds.Annotations, edsv1.ExtendedDaemonSetCanaryValidAnnotationKey)
		a, b := newERS("foo-a", tplCase(1), now.Add(-time.Hour)), newERS("foo-b", tplCase(2), now.Add(-20*time.Second))
		a.Status.Desired, a.Status.Current, a.Status.Ready, a.Status.Available = 3, 3, 3, 3
		all = []*edsv1.ExtendedDaemonSetReplicaSet{a, b}
	}
	for _, e := range all {
		objs = append(objs, e)
	}
	eds.Status.ActiveReplicaSet = pick(r, "", "foo-a", "foo-b", "foo-c", "foo-gone")
	eds.Status.Desired = int32(r.Intn(6))
	// whatever an earlier reconcile left in the status: the next one must recompute every field
	if r.Intn(2) == 0 {
		eds.Status.Current, eds.Status.Ready, eds.Status.Available = int32(r.Intn(6)), int32(r.Intn(6)), int32(r.Intn(6))
		eds.Status.UpToDate, eds.Status.IgnoredUnresponsiveNodes = int32(r.Intn(6)), int32(r.Intn(3))
	}
	eds.Status.Reason = edsv1.ExtendedDaemonSetStatusReason(pick(r, "", "", "CrashLoopBackOff", "OOMKilled", "ImagePullBackOff"))
	if r.Intn(3) == 0 {
		eds.Status.Canary = &edsv1.ExtendedDaemonSetStatusCanary{ReplicaSet: pick(r, "foo-a", "foo-b", "foo-c"), Nodes: []string{}}
		for k := 0; k < 4; k++ {
			if r.Intn(3) == 0 {
				eds.Status.Canary.Nodes = append(eds.Status.Canary.Nodes, fmt.Sprintf("n%d", k))
			}
		}
	}
	eds.Status.State = pick(r, edsv1.ExtendedDaemonSetStatusStateRunning, edsv1.ExtendedDaemonSetStatusStateCanary, "",
		edsv1.ExtendedDaemonSetStatusStateRunning, edsv1.ExtendedDaemonSetStatusStateCanary,
		edsv1.ExtendedDaemonSetStatusStateCanaryFailed, edsv1.ExtendedDaemonSetStatusStateCanaryPaused,
		edsv1.ExtendedDaemonSetStatusStateRollingUpdatePaused, edsv1.ExtendedDaemonSetStatusStateRolloutFrozen)
	if r.Intn(4) == 0 {
		eds.Status.Conditions = append(eds.Status.Conditions, edsv1.ExtendedDaemonSetCondition{Type: edsv1.ConditionTypeEDSCanaryFailed,
			Status: pick(r, corev1.ConditionTrue, corev1.ConditionFalse), LastTransitionTime: mt(now.Add(-2 * time.Hour)), LastUpdateTime: mt(now.Add(-2 * time.Hour))})
	}
	if r.Intn(3) == 0 {
		eds.Status.Conditions = append(eds.Status.Conditions, edsv1.ExtendedDaemonSetCondition{Type: edsv1.ConditionTypeEDSCanaryPaused,
			Status: pick(r, corev1.ConditionTrue, corev1.ConditionFalse), LastTransitionTime: mt(now.Add(-time.Hour)), LastUpdateTime: mt(now.Add(-time.Hour))})
	}
	if directed {
		eds.Status.ActiveReplicaSet, eds.Status.Canary, eds.Status.Conditions = "foo-a", nil, nil
		eds.Status.State = edsv1.ExtendedDaemonSetStatusStateRunning
	}
	nnPct := 4 + r.Intn(3)
	if directedPct {
		eds.Status.ActiveReplicaSet, eds.Status.Conditions = "foo-a", nil
		eds.Status.State = edsv1.ExtendedDaemonSetStatusStateCanary
		eds.Status.Desired = int32(nnPct + 1 + r.Intn(3)) // active + canary counted twice while the canary starts
		eds.Status.Canary = &edsv1.ExtendedDaemonSetStatusCanary{ReplicaSet: "foo-b", Nodes: []string{}}
		for k := 0; k < pick(r, 0, 1, 2); k++ {
			eds.Status.Canary.Nodes = append(eds.Status.Canary.Nodes, fmt.Sprintf("n%d", k))
		}
	}
	objs = append(objs, eds)
	var cnodes []canon.Node
	var cpods []canon.Pod
	nn := 1 + r.Intn(4)
	if directed {
		nn = 3 + r.Intn(3)
	}
	if directedPct {
		nn = nnPct
	}
	for k := 0; k < nn; k++ {
		n := genNode(r, fmt.Sprintf("n%d", k), deco != 0)
		objs = append(objs, n)
		cnodes = append(cnodes, canon.CNode(n, testNS, testEDS))
		if r.Intn(2) == 0 || directed || directedPct {
			p := &corev1.Pod{ObjectMeta: metav1.ObjectMeta{Name: fmt.Sprintf("p%d", k), Namespace: pick(r, testNS, testNS, map[bool]string{true: testNS, false: "ns2"}[directed || directedPct]),
				Labels: map[string]string{edsv1.ExtendedDaemonSetNameLabelKey: testEDS}}}
			p.Spec.NodeName = n.Name
			p.Spec.Containers = []corev1.Container{{Name: "main", Image: "i"}}
			p.Status.ContainerStatuses = []corev1.ContainerStatus{{Name: "main", RestartCount: int32(r.Intn(4))}}
			objs = append(objs, p)
			cpods = append(cpods, canon.CPod(p))
		}
	}
	if cpods == nil {
		cpods = []canon.Pod{}
	}
	wl := &writeLog{}
	// one case in three starts from the store a previous Reconcile left behind, that Reconcile having
	// lost one of its first writes (rejected, or applied with the answer lost): the states "between
	// two writes" that only a crash or an API error produces.
	var failAt map[int]string
	prerun := (r.Intn(3) == 0 || directed) && !directedPct
	if prerun {
		failAt = map[int]string{}
		switch r.Intn(4) * map[bool]int{true: 0, false: 1}[directed] {
		case 0:
		case 1:
			failAt[-1] = pick(r, "reject", "reject", "lost")
		default:
			failAt[r.Intn(3)] = pick(r, "reject", "reject", "lost")
		}
	}
	// one case in six (without a previous faulted reconcile): a neighbour with the same name in another
	// namespace lives in the same store, has no replica set yet, and the same controller process reconciles
	// it first (it creates its replica set) — nothing remembered from that may leak into this reconcile
	neighbourFirst := !prerun && r.Intn(6) == 0
	if neighbourFirst {
		nb := &edsv1.ExtendedDaemonSet{ObjectMeta: metav1.ObjectMeta{Name: testEDS, Namespace: "ns2", UID: "uid-eds-ns2",
			CreationTimestamp: mt(now.Add(-time.Hour)), Annotations: map[string]string{}}}
		nb.Spec.Template = tplCase(pick(r, curTpl, curTpl, pick(r, ids...)))
		nb.Spec.Strategy = defaultedStrategy()
		objs = append(objs, nb)
		cat = append(cat, "neighbour-reconciled-first")
	}
	cl := loggingClient(objs, wl, failAt)
	sw := &switchClient{Client: cl}
	mode := pick(r, edsv1.ExtendedDaemonSetSpecStrategyCanaryValidationModeAuto, edsv1.ExtendedDaemonSetSpecStrategyCanaryValidationModeManual)
	rec := newEDSReconciler(sw, mode)
	if neighbourFirst {
		Recovered(func() {
			_, _ = rec.Reconcile(context.TODO(), reconcile.Request{NamespacedName: types.NamespacedName{Namespace: "ns2", Name: testEDS}})
		})
		wl.mu.Lock()
		wl.Order, wl.Created, wl.Deleted, wl.Updated, wl.Status, wl.Patched = nil, nil, nil, nil, nil, nil
		wl.mu.Unlock()
	}
	// what the API held before the previous reconcile: a stale read returns this
	stale0 := &edsv1.ExtendedDaemonSet{}
	_ = cl.Get(context.TODO(), types.NamespacedName{Namespace: testNS, Name: testEDS}, stale0)
	staleRead := prerun && len(failAt) == 0 && (r.Intn(2) == 0 || directed)
	if staleRead && !directed && r.Intn(3) == 0 {
		// the user pushed another template after the snapshot the stale reconcile will read: the previous
		// (fresh) reconcile creates its replica set, the stale one still decides from the old spec
		cur := &edsv1.ExtendedDaemonSet{}
		if err := cl.Get(context.TODO(), types.NamespacedName{Namespace: testNS, Name: testEDS}, cur); err == nil {
			cur.Spec.Template = tplCase(pick(r, ids...))
			_ = cl.Update(context.TODO(), cur)
			cat = append(cat, "stale-read:spec-changed-meanwhile")
		}
	}
	if prerun {
		mode0 := pick(r, edsv1.ExtendedDaemonSetSpecStrategyCanaryValidationModeAuto, edsv1.ExtendedDaemonSetSpecStrategyCanaryValidationModeManual)
		pre, _ := runEdsReconcile(newEDSReconciler(cl, mode0), wl, testNS, testEDS)
		cat = append(cat, "after-previous-reconcile:"+pre.Kind)
		wl.mu.Lock()
		wl.Order, wl.Created, wl.Deleted, wl.Updated, wl.Status, wl.Patched = nil, nil, nil, nil, nil, nil
		wl.mu.Unlock()
		for k := -1; k < 8; k++ { // no more faults
			delete(failAt, k)
		}
		time.Sleep(2 * time.Millisecond)
	}
	if prerun && len(failAt) == 0 && !staleRead {
		// between the two reconciles one pod was replaced: an old replica set reports one pod less, the active
		// one one more — the sums stay, only what is derived from the active replica set alone moves
		cur := &edsv1.ExtendedDaemonSet{}
		_ = cl.Get(context.TODO(), types.NamespacedName{Namespace: testNS, Name: testEDS}, cur)
		all2 := &edsv1.ExtendedDaemonSetReplicaSetList{}
		_ = cl.List(context.TODO(), all2, client.InNamespace(testNS))
		var act, other *edsv1.ExtendedDaemonSetReplicaSet
		for k := range all2.Items {
			e := &all2.Items[k]
			if e.Labels[edsv1.ExtendedDaemonSetNameLabelKey] != testEDS {
				continue
			}
			if e.Name == cur.Status.ActiveReplicaSet {
				act = e
			} else if e.Status.Current > 0 && e.Status.Ready > 0 && e.Status.Available > 0 && e.Status.Desired > 0 {
				other = e
			}
		}
		if act != nil && other != nil {
			other.Status.Desired, other.Status.Current, other.Status.Ready, other.Status.Available = other.Status.Desired-1, other.Status.Current-1, other.Status.Ready-1, other.Status.Available-1
			act.Status.Desired, act.Status.Current, act.Status.Ready, act.Status.Available = act.Status.Desired+1, act.Status.Current+1, act.Status.Ready+1, act.Status.Available+1
			_ = cl.Status().Update(context.TODO(), other)
			_ = cl.Status().Update(context.TODO(), act)
			wl.mu.Lock()
			wl.Order, wl.Created, wl.Deleted, wl.Updated, wl.Status, wl.Patched = nil, nil, nil, nil, nil, nil
			wl.mu.Unlock()
			cat = append(cat, "pod-replaced-between-reconciles")
		}
	}
	// list order of replica sets as the API returns it
	lst := &edsv1.ExtendedDaemonSetReplicaSetList{}
	_ = cl.List(context.TODO(), lst)
	var cers []canon.ERS
	for k := range lst.Items {
		cers = append(cers, canon.CERS(&lst.Items[k]))
	}
	if cers == nil {
		cers = []canon.ERS{}
	}
	before := &edsv1.ExtendedDaemonSet{}
	_ = cl.Get(context.TODO(), types.NamespacedName{Namespace: testNS, Name: testEDS}, before)
	if staleRead && before.ResourceVersion == stale0.ResourceVersion {
		staleRead = false // the previous reconcile wrote nothing: nothing to be stale about
	}
	if staleRead {
		// the informer cache lags behind the controller's own previous write: this reconcile reads the
		// ExtendedDaemonSet as it was before it.  Optimistic concurrency must then refuse its writes.
		cat = append(cat, "stale-read")
		if r.Intn(3) != 0 || directed {
			// and the world moved on meanwhile: daemon pods restarted (the ranking of candidate canary
			// nodes changes), so a decision taken from the stale object differs from the stored one
			cat = append(cat, "stale-read:pods-restarted")
			cpods = cpods[:0]
			for _, o := range objs {
				p0, ok := o.(*corev1.Pod)
				if !ok {
					continue
				}
				p := &corev1.Pod{}
				if err := cl.Get(context.TODO(), types.NamespacedName{Namespace: p0.Namespace, Name: p0.Name}, p); err != nil {
					continue
				}
				onSelected := false
				if before.Status.Canary != nil {
					for _, nm := range before.Status.Canary.Nodes {
						onSelected = onSelected || nm == p.Spec.NodeName
					}
				}
				if len(p.Status.ContainerStatuses) > 0 && (r.Intn(2) == 0 || (directed && onSelected)) {
					p.Status.ContainerStatuses[0].RestartCount += int32(5 + r.Intn(4))
					_ = cl.Status().Update(context.TODO(), p) // (pods have a status subresource in the fake client)
					_ = cl.Get(context.TODO(), types.NamespacedName{Namespace: p0.Namespace, Name: p0.Name}, p)
				}
				cpods = append(cpods, canon.CPod(p))
			}
			wl.mu.Lock()
			wl.Order, wl.Created, wl.Deleted, wl.Updated, wl.Status, wl.Patched = nil, nil, nil, nil, nil, nil
			wl.mu.Unlock()
		}
		sw.use(&staleGetClient{Client: cl, key: types.NamespacedName{Namespace: testNS, Name: testEDS}, stale: stale0, n: 1})
	}
	if !prerun && r.Intn(4) == 0 {
		// the same reconciler instance has already reconciled this ExtendedDaemonSet in a world with
		// a different node population (its writes went to that other world)
		cat = append(cat, "warm-reconciler")
		sw.use(loggingClient(perturbNodes(r, objs), &writeLog{}, nil))
		Recovered(func() {
			_, _ = rec.Reconcile(context.TODO(), reconcile.Request{NamespacedName: types.NamespacedName{Namespace: testNS, Name: testEDS}})
		})
		sw.use(cl)
	}
	// one case in ten (fault-free otherwise): the k-th List call of this reconcile fails
	readFault := !prerun && !staleRead && (r.Intn(10) == 0 || directedPct)
	if readFault {
		k := r.Intn(4)
		cat = append(cat, fmt.Sprintf("read-fault:list#%d", k))
		sw.use(&listFaultClient{Client: cl, failAt: k})
	}
	// the reconciler reads what the API server stored (timestamps truncated to seconds)
	stored := &edsv1.ExtendedDaemonSet{}
	_ = cl.Get(context.TODO(), types.NamespacedName{Namespace: testNS, Name: testEDS}, stored)
	if staleRead {
		stored = stale0.DeepCopy() // the model decides from what the reconcile read
	}
	in := map[string]interface{}{"eds": canon.CEDS(stored), "ers": cers, "pods": cpods, "nodes": cnodes, "defaultMode": string(mode)}
	out, nowC := runEdsReconcile(rec, wl, testNS, testEDS)
	in["now"] = nowC
	if readFault {
		in["readFault"] = true
	}
	if staleRead {
		after := &edsv1.ExtendedDaemonSet{}
		_ = cl.Get(context.TODO(), types.NamespacedName{Namespace: testNS, Name: testEDS}, after)
		in["staleRead"] = true
		in["faulted"] = true // the writes are refused: completeness clauses do not apply
		out.StoredChanged = !canonEq(canon.CEDS(before), canon.CEDS(after))
		b, a := canon.CEDS(before).Status.Canary, canon.CEDS(after).Status.Canary
		out.StoredCanaryChanged = !canonEq(b, a)
		// observed, not judged (EdsProps/L3RV, counterexample A): replica-set deletions are not guarded by the
		// ExtendedDaemonSet's resourceVersion, so a reconcile deciding from a stale object may delete the
		// replica set of the template the STORED spec asks for (it is recreated by the next fresh reconcile)
		hStored, _ := comparison.GenerateMD5PodTemplateSpec(&before.Spec.Template)
		for _, e := range lst.Items {
			for _, dn := range out.DeletedErs {
				if e.Name == dn && e.Namespace == testNS && e.Annotations[edsv1.MD5ExtendedDaemonSetAnnotationKey] == hStored {
					cat = append(cat, "observed:stale-read-deleted-replica-set-of-stored-template")
				}
			}
		}
	}
	cat = append(cat, "kind:"+out.Kind)
	if out.Created != nil {
		cat = append(cat, "creates-ers")
	}
	if len(out.DeletedErs) > 0 {
		cat = append(cat, "deletes-ers")
	}
	if out.StatusUpdate != nil {
		cat = append(cat, "status-update", "state:"+out.StatusUpdate.State)
		if out.StatusUpdate.ActiveReplicaSet != eds.Status.ActiveReplicaSet {
			cat = append(cat, "active-changes")
		}
	}
	if out.SpecHash != nil {
		cat = append(cat, "spec-update")
	}
	if out.Defaulted != nil {
		cat = append(cat, "defaulting-update")
	}
	return &Case{Fn: "eds_reconcile", In: in, Out: out, Cat: dedup(cat)}
}

// runEdsReconcile runs one Reconcile of the EDS (ns, name) and canonicalises the writes recorded in wl.
func runEdsReconcile(rec *edsctl.Reconciler, wl *writeLog, ns, name string) (edsOutJ, int64) {
	t0 := time.Now()
	var res reconcile.Result
	var err error
	p, _ := Recovered(func() {
		res, err = rec.Reconcile(context.TODO(), reconcile.Request{NamespacedName: types.NamespacedName{Namespace: ns, Name: name}})
	})
	t1 := time.Now()
	nowC := canon.T(t0)
	lo, hi := canon.T(t0), canon.T(t1)
	out := edsOutJ{Kind: "ok", DeletedErs: []string{}, SpecAnn: []canon.KV{}, Order: wl.Order, Foreign: []string{}}
	if out.Order == nil {
		out.Order = []string{}
	}
	if p {
		out.Kind = "panic"
	} else if err != nil {
		out.Kind = "err"
	}
	out.Requeue, out.RequeueAfter = res.Requeue, int64(res.RequeueAfter)
	for _, o := range wl.Created {
		if e, ok := o.(*edsv1.ExtendedDaemonSetReplicaSet); ok {
			j := &newErsJ{Ns: e.Namespace, GenerateName: e.GenerateName, Labels: canon.SM(e.Labels), Annotations: canon.SM(e.Annotations),
				TemplateGeneration: e.Spec.TemplateGeneration}
			for _, ow := range e.OwnerReferences {
				if ow.Kind == "ExtendedDaemonSet" {
					j.OwnerEds = ow.Name
				}
			}
			h, _ := comparison.GenerateMD5PodTemplateSpec(&e.Spec.Template)
			if h != e.Spec.TemplateGeneration {
				out.Foreign = append(out.Foreign, "created ERS template does not hash to its templateGeneration")
			}
			out.Created = j
		} else {
			out.Foreign = append(out.Foreign, "create:"+kindOf(o)+"/"+o.GetName())
		}
	}
	for _, o := range wl.Deleted {
		if e, ok := o.(*edsv1.ExtendedDaemonSetReplicaSet); ok {
			out.DeletedErs = append(out.DeletedErs, e.Name)
			if e.Namespace != ns || e.Labels[edsv1.ExtendedDaemonSetNameLabelKey] != name {
				out.Foreign = append(out.Foreign, "delete:ERS/"+e.Namespace+"/"+e.Name)
			}
		} else {
			out.Foreign = append(out.Foreign, "delete:"+kindOf(o)+"/"+o.GetName())
		}
	}
	sort.Strings(out.DeletedErs)
	for _, o := range wl.Status {
		if d, ok := o.(*edsv1.ExtendedDaemonSet); ok && d.Namespace == ns && d.Name == name {
			st := canon.CEDSStatus(&d.Status)
			normStatusTimes(&st, lo, hi, nowC)
			out.StatusUpdate = &st
		} else {
			out.Foreign = append(out.Foreign, "status:"+kindOf(o)+"/"+o.GetName())
		}
	}
	for _, o := range wl.Updated {
		if d, ok := o.(*edsv1.ExtendedDaemonSet); ok && d.Namespace == ns && d.Name == name {
			if out.StatusUpdate == nil && len(wl.Status) == 0 {
				// the defaulting update
				cs := canon.CStrategy(&d.Spec.Strategy)
				out.Defaulted = &cs
				out.DefaultedTN = d.Spec.Template.Name
			} else {
				h, _ := comparison.GenerateMD5PodTemplateSpec(&d.Spec.Template)
				out.SpecHash = &h
				out.SpecAnn = canon.SM(d.Annotations)
			}
		} else {
			out.Foreign = append(out.Foreign, "update:"+kindOf(o)+"/"+o.GetName())
		}
	}
	for _, o := range wl.Patched {
		out.Foreign = append(out.Foreign, "patch:"+kindOf(o)+"/"+o.GetName())
	}
	return out, nowC
}
