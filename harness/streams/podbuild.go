package streams

import (
	"encoding/json"
	"fmt"
	"math/rand"
	"sort"

	"github.com/go-logr/logr"
	corev1 "k8s.io/api/core/v1"
	metav1 "k8s.io/apimachinery/pkg/apis/meta/v1"

	edsv1 "github.com/DataDog/extendeddaemonset/api/v1alpha1"
	"github.com/DataDog/extendeddaemonset/controllers/extendeddaemonsetreplicaset/strategy"
	"github.com/DataDog/extendeddaemonset/pkg/controller/utils/affinity"
	"github.com/DataDog/extendeddaemonset/pkg/controller/utils/comparison"
	podutils "github.com/DataDog/extendeddaemonset/pkg/controller/utils/pod"

	"verifharness/canon"
)

func init() {
	Registry["create_pod"] = streamCreatePod
	Registry["node_hash"] = streamNodeHash
}

func overrideKey(ns, eds, container string) string {
	return fmt.Sprintf(edsv1.ExtendedDaemonSetRessourceNodeAnnotationKey, ns, eds, container)
}

func genOverrideAnnotations(r *rand.Rand) map[string]string {
	m := map[string]string{}
	if r.Intn(2) == 0 {
		return m
	}
	for _, c := range []string{"main", "side", "nosuch"} {
		if r.Intn(3) != 0 {
			continue
		}
		switch r.Intn(7) {
		case 5:
			// valid JSON that does not decode as ResourceRequirements: creation ignores it
			m[overrideKey(testNS, testEDS, c)] = pick(r, `{"limits":{"cpu":"a lot"}}`, `"500m"`, `[1,2]`, `{"limits":5}`)
		case 6:
			m[overrideKey(testNS, testEDS, c)] = pick(r, `null`, `{"limits":null}`, `{"unknownField":1}`, ` {"limits":{"cpu":"1"}} `)
		case 0:
			m[overrideKey(testNS, testEDS, c)] = `{"limits":{"cpu":"1"}}`
		case 1:
			m[overrideKey(testNS, testEDS, c)] = `{"requests":{"memory":"64Mi"},"limits":{"memory":"128Mi"}}`
		case 2:
			m[overrideKey(testNS, testEDS, c)] = `{}`
		case 3:
			m[overrideKey(testNS, testEDS, c)] = `not json`
		default:
			m[overrideKey(testNS, testEDS, c)] = `{"limits":{"cpu":"2"},"requests":{"cpu":"500m"}}`
		}
	}
	if r.Intn(4) == 0 { // an override for another ExtendedDaemonSet: must be ignored
		m[overrideKey(testNS, "other", "main")] = `{"limits":{"cpu":"9"}}`
	}
	if r.Intn(4) == 0 {
		m["unrelated"] = "x"
	}
	return m
}

func genSettingFor(r *rand.Rand) *edsv1.ExtendedDaemonsetSetting {
	if r.Intn(3) == 0 {
		return nil
	}
	s := &edsv1.ExtendedDaemonsetSetting{ObjectMeta: metav1.ObjectMeta{Name: pick(r, "set1", "set2"), Namespace: testNS}}
	for _, c := range []string{"main", "side", "nosuch"} {
		if r.Intn(2) == 0 {
			s.Spec.Containers = append(s.Spec.Containers, edsv1.ExtendedDaemonsetSettingContainerSpec{Name: c, Resources: genResources(r)})
		}
	}
	return s
}

type perturbJ struct {
	Kind   string         `json:"kind"`
	Ers    canon.ERS      `json:"ers"`
	Item   canon.NodeItem `json:"item"`
	Result bool           `json:"result"`
}

func compareReal(rs *edsv1.ExtendedDaemonSetReplicaSet, pod *corev1.Pod, ni *strategy.NodeItem) bool {
	params := &strategy.Parameters{EDSName: testEDS, Replicaset: rs, Logger: logr.Discard()}
	return strategy.VerifCompareCurrentPodWithNewPod(params, pod, ni)
}

func streamCreatePod(r *rand.Rand, i int, tier string) *Case {
	tpl := genTemplate(r, 2, true)
	rs := newERS("foo-cur", tpl, baseNow())
	node := genNode(r, pick(r, genNodeNames...), true)
	node.Annotations = genOverrideAnnotations(r)
	setting := genSettingFor(r)
	aff := r.Intn(2) == 0
	ni := strategy.NewNodeItem(node, setting)
	var pod *corev1.Pod
	var err error
	p, _ := Recovered(func() { pod, err = podutils.CreatePodFromDaemonSetReplicaSet(theScheme, rs, node, setting, aff) })
	var cat []string
	if p {
		return &Case{Fn: "create_pod", In: map[string]interface{}{"ers": canon.CERS(rs), "item": canonItem(ni, testNS, testEDS), "affinity": aff},
			Out: map[string]interface{}{"panic": true}, Cat: []string{"panic"}}
	}
	cp := canon.CPod(pod)
	cp.Name = pod.GenerateName
	same := compareReal(rs, pod, ni)
	// the pod as the API server hands it back: built-in types are stored in canonical serialised
	// form (quantities re-rendered), custom resources such as the setting verbatim
	stored := &corev1.Pod{}
	sameStored := same
	if raw, jerr := json.Marshal(pod); jerr == nil && json.Unmarshal(raw, stored) == nil {
		sameStored = compareReal(rs, stored, ni)
	}
	readBack := affinity.GetNodeNameFromAffinity(pod.Spec.Affinity)
	var perts []perturbJ
	// (a) template change
	{
		rs2 := newERS("foo-cur", genTemplate(r, 3, false), baseNow())
		perts = append(perts, perturbJ{"template", canon.CERS(rs2), canonItem(ni, testNS, testEDS), compareReal(rs2, pod, ni)})
	}
	// (b) node override annotation change
	{
		n2 := node.DeepCopy()
		if n2.Annotations == nil {
			n2.Annotations = map[string]string{}
		}
		k := overrideKey(testNS, testEDS, pick(r, "main", "side"))
		if _, ok := n2.Annotations[k]; ok && r.Intn(2) == 0 {
			delete(n2.Annotations, k)
		} else {
			n2.Annotations[k] = `{"limits":{"cpu":"7"}}`
		}
		ni2 := strategy.NewNodeItem(n2, setting)
		perts = append(perts, perturbJ{"annotation", canon.CERS(rs), canonItem(ni2, testNS, testEDS), compareReal(rs, pod, ni2)})
	}
	// (c) a resource value demanded by the setting changes
	if setting != nil && len(setting.Spec.Containers) > 0 {
		s2 := setting.DeepCopy()
		ci := r.Intn(len(s2.Spec.Containers))
		if s2.Spec.Containers[ci].Resources.Limits == nil {
			s2.Spec.Containers[ci].Resources.Limits = corev1.ResourceList{}
		}
		s2.Spec.Containers[ci].Resources.Limits[corev1.ResourceCPU] = genQuantity(r)
		ni2 := strategy.NewNodeItem(node, s2)
		perts = append(perts, perturbJ{"setting", canon.CERS(rs), canonItem(ni2, testNS, testEDS), compareReal(rs, pod, ni2)})
		cat = append(cat, "setting")
	}
	if len(node.Annotations) > 0 {
		cat = append(cat, "annotations")
	}
	if aff {
		cat = append(cat, "affinity-mode")
	} else {
		cat = append(cat, "nodeName-mode")
	}
	if err != nil {
		cat = append(cat, "override-error")
	}
	if !same {
		cat = append(cat, "roundtrip-false")
	}
	sort.Strings(cat)
	return &Case{Fn: "create_pod",
		In: map[string]interface{}{"ers": canon.CERS(rs), "item": canonItem(ni, testNS, testEDS), "affinity": aff},
		Out: map[string]interface{}{"panic": false, "pod": cp, "err": err != nil, "compareSame": same, "compareStored": sameStored, "readBack": readBack,
			"perturbations": perts}, Cat: cat}
}

// node_hash: defining property of GenerateHashFromEDSResourceNodeAnnotation — two annotation maps
// hash equal iff their (ns, eds)-prefixed sub-maps are equal; empty sub-map hashes to "".
func streamNodeHash(r *rand.Rand, i int, tier string) *Case {
	a := genOverrideAnnotations(r)
	b := genOverrideAnnotations(r)
	if r.Intn(3) == 0 {
		b = map[string]string{}
		for k, v := range a {
			b[k] = v
		}
		b["noise"] = "1"
	}
	ha := comparison.GenerateHashFromEDSResourceNodeAnnotation(testNS, testEDS, a)
	hb := comparison.GenerateHashFromEDSResourceNodeAnnotation(testNS, testEDS, b)
	na := &corev1.Node{ObjectMeta: metav1.ObjectMeta{Name: "a", Annotations: a}}
	nb := &corev1.Node{ObjectMeta: metav1.ObjectMeta{Name: "b", Annotations: b}}
	var cat []string
	if ha == hb {
		cat = append(cat, "equal")
	} else {
		cat = append(cat, "different")
	}
	if ha == "" {
		cat = append(cat, "empty")
	}
	return &Case{Fn: "node_hash", In: map[string]interface{}{"a": canon.CNode(na, testNS, testEDS), "b": canon.CNode(nb, testNS, testEDS),
		"prefix": overrideKey(testNS, testEDS, "")},
		Out: map[string]interface{}{"ha": ha, "hb": hb}, Cat: cat}
}
