package streams

import (
	"fmt"
	"math/rand"
	"time"

	metav1 "k8s.io/apimachinery/pkg/apis/meta/v1"
	"k8s.io/apimachinery/pkg/util/intstr"

	edsv1 "github.com/DataDog/extendeddaemonset/api/v1alpha1"
	"github.com/DataDog/extendeddaemonset/controllers/extendeddaemonsetreplicaset/strategy"
	"github.com/DataDog/extendeddaemonset/controllers/extendeddaemonsetreplicaset/strategy/limits"

	"verifharness/canon"
)

func init() {
	Registry["limits"] = streamLimits
	Registry["max_creation"] = streamMaxCreation
}

func smallInt(r *rand.Rand) int {
	switch r.Intn(10) {
	case 0:
		return -r.Intn(4)
	case 1:
		return r.Intn(400)
	default:
		return r.Intn(8)
	}
}

func streamLimits(r *rand.Rand, i int, tier string) *Case {
	p := limits.Parameters{
		NbNodes: smallInt(r), NbPods: smallInt(r), NbAvailablesPod: smallInt(r), NbOldAvailablesPod: smallInt(r),
		NbCreatedPod: smallInt(r), NbUnresponsiveNodes: smallInt(r), NbOldUnavailablePods: smallInt(r),
		MaxPodCreation: smallInt(r), MaxUnavailablePod: smallInt(r), MaxUnschedulablePod: smallInt(r),
	}
	c, d := limits.CalculatePodToCreateAndDelete(p)
	in := map[string]int{
		"nbNodes": p.NbNodes, "nbPods": p.NbPods, "nbAvailablesPod": p.NbAvailablesPod, "nbOldAvailablesPod": p.NbOldAvailablesPod,
		"nbCreatedPod": p.NbCreatedPod, "nbUnresponsiveNodes": p.NbUnresponsiveNodes, "nbOldUnavailablePods": p.NbOldUnavailablePods,
		"maxPodCreation": p.MaxPodCreation, "maxUnavailablePod": p.MaxUnavailablePod, "maxUnschedulablePod": p.MaxUnschedulablePod,
	}
	var cat []string
	if c == p.MaxPodCreation && c > 0 {
		cat = append(cat, "create-capped")
	}
	if c == 0 {
		cat = append(cat, "create-zero")
	}
	if d == p.MaxUnavailablePod && d > 0 {
		cat = append(cat, "delete-capped")
	}
	if d == 0 {
		cat = append(cat, "delete-zero")
	}
	if p.NbUnresponsiveNodes > p.MaxUnschedulablePod {
		cat = append(cat, "unresp-capped")
	}
	return &Case{Fn: "limits", In: in, Out: map[string]int{"create": c, "delete": d}, Cat: cat}
}

// genIntOrStr draws from the boundary lattice of an IntOrString field.
func genIntOrStr(r *rand.Rand, allowBad bool) *intstr.IntOrString {
	var v intstr.IntOrString
	switch r.Intn(12) {
	case 0:
		return nil
	case 1:
		v = intstr.FromInt(0)
	case 2:
		v = intstr.FromInt(-1 - r.Intn(3))
	case 3:
		v = intstr.FromInt(1)
	case 4:
		v = intstr.FromInt(2 + r.Intn(5))
	case 5:
		v = intstr.FromInt(100 + r.Intn(1000))
	case 6:
		v = intstr.FromString(fmt.Sprintf("%d%%", r.Intn(101)))
	case 7:
		v = intstr.FromString(fmt.Sprintf("%d%%", 1+r.Intn(30)))
	case 8:
		v = intstr.FromString(fmt.Sprintf("%d", r.Intn(60))) // no percent sign: legacy parser treats it as percent
	case 9:
		v = intstr.FromString(fmt.Sprintf("%d%%", 100+r.Intn(200)))
	case 10:
		if allowBad {
			v = intstr.FromString(pick(r, "abc", "", "10 %", "1.5%", "%"))
		} else {
			v = intstr.FromString("50%")
		}
	default:
		v = intstr.FromString(fmt.Sprintf("-%d%%", 1+r.Intn(50)))
	}
	return &v
}

func genDurPtr(r *rand.Rand, allowZero bool) *metav1.Duration {
	switch r.Intn(8) {
	case 0:
		return nil
	case 1:
		if allowZero {
			return &metav1.Duration{Duration: 0}
		}
		return &metav1.Duration{Duration: time.Second}
	case 2:
		if allowZero {
			return &metav1.Duration{Duration: -time.Duration(1+r.Intn(100)) * time.Second}
		}
		return &metav1.Duration{Duration: time.Minute}
	case 3:
		return &metav1.Duration{Duration: time.Duration(1 + r.Intn(1000))}
	default:
		return &metav1.Duration{Duration: time.Duration(1+r.Intn(600)) * time.Second}
	}
}

func genI32Ptr(r *rand.Rand) *int32 {
	switch r.Intn(7) {
	case 0:
		return nil
	case 1:
		return edsv1.NewInt32(0)
	case 2:
		return edsv1.NewInt32(int32(-1 - r.Intn(3)))
	case 3:
		return edsv1.NewInt32(1)
	case 4:
		return edsv1.NewInt32(250)
	default:
		return edsv1.NewInt32(int32(r.Intn(12)))
	}
}

func outcome(panicked bool, err error, v interface{}) string {
	if panicked {
		return "panic"
	}
	if err != nil {
		return "err"
	}
	return fmt.Sprintf("ok:%v", v)
}

func streamMaxCreation(r *rand.Rand, i int, tier string) *Case {
	ru := &edsv1.ExtendedDaemonSetSpecStrategyRollingUpdate{
		SlowStartAdditiveIncrease: genIntOrStr(r, true),
		SlowStartIntervalDuration: genDurPtr(r, true),
		MaxParallelPodCreation:    genI32Ptr(r),
	}
	nbNodes := r.Intn(50)
	if r.Intn(10) == 0 {
		nbNodes = 100 + r.Intn(5000)
	}
	start := canon.Epoch.Add(time.Duration(r.Intn(3600)) * time.Second)
	var now time.Time
	iv := time.Minute
	if ru.SlowStartIntervalDuration != nil && ru.SlowStartIntervalDuration.Duration > 0 {
		iv = ru.SlowStartIntervalDuration.Duration
	}
	k := time.Duration(r.Intn(6))
	switch r.Intn(6) {
	case 0:
		now = start
	case 1:
		now = start.Add(k*iv - 1) // one nanosecond before a slot boundary
	case 2:
		now = start.Add(k * iv) // exactly on it
	case 3:
		now = start.Add(k*iv + 1)
	case 4:
		now = start.Add(-time.Duration(r.Intn(100000)) * time.Millisecond) // clock behind the activation
	default:
		now = start.Add(time.Duration(r.Int63n(int64(7 * iv))))
	}
	if r.Intn(12) == 0 {
		// a replica set that has been active for months with a short interval: the ramp is far beyond any
		// 32-bit count, the result is still min(maxParallelPodCreation, ramp)
		now = start.Add(time.Duration(200+r.Intn(400)) * 24 * time.Hour)
		ru.SlowStartIntervalDuration = &metav1.Duration{Duration: time.Duration(1+r.Intn(3)) * time.Second}
		ru.SlowStartAdditiveIncrease = ios(intstr.FromInt(50 + r.Intn(200)))
	}
	var v int
	var err error
	panicked, _ := Recovered(func() { v, err = strategy.VerifCalculateMaxCreation(ru, nbNodes, start, now) })
	full := edsv1.ExtendedDaemonSetSpecStrategy{RollingUpdate: *ru}
	cs := canon.CStrategy(&full)
	var cat []string
	if panicked {
		cat = append(cat, "panic")
	} else if err != nil {
		cat = append(cat, "err")
	} else if ru.MaxParallelPodCreation != nil && v == int(*ru.MaxParallelPodCreation) {
		cat = append(cat, "capped")
	} else {
		cat = append(cat, "ramp")
	}
	if now.Before(start) {
		cat = append(cat, "negative-elapsed")
	}
	return &Case{Fn: "max_creation",
		In:  map[string]interface{}{"ru": cs.RollingUpdate, "nbNodes": nbNodes, "start": canon.T(start), "now": canon.T(now)},
		Out: map[string]string{"res": outcome(panicked, err, v)}, Cat: cat}
}
