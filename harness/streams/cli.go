package streams

import (
	"bytes"
	"context"
	"math/rand"
	"sort"
	"time"

	corev1 "k8s.io/api/core/v1"
	metav1 "k8s.io/apimachinery/pkg/apis/meta/v1"
	"k8s.io/apimachinery/pkg/types"
	"k8s.io/cli-runtime/pkg/genericclioptions"
	"sigs.k8s.io/controller-runtime/pkg/client"

	edsv1 "github.com/DataDog/extendeddaemonset/api/v1alpha1"
	"github.com/DataDog/extendeddaemonset/pkg/plugin/canary"
	"github.com/DataDog/extendeddaemonset/pkg/plugin/freeze"
	"github.com/DataDog/extendeddaemonset/pkg/plugin/pause"

	"verifharness/canon"
)

func init() {
	Registry["cli"] = streamCli
}

var cliCmds = []string{"canaryPause", "canaryUnpause", "canaryValidate", "canaryFail", "ruPause", "ruUnpause", "freeze", "unfreeze"}

func streamCli(r *rand.Rand, i int, tier string) *Case {
	now := time.Now().Add(-time.Hour).Truncate(time.Second)
	eds := &edsv1.ExtendedDaemonSet{ObjectMeta: metav1.ObjectMeta{Name: testEDS, Namespace: testNS, Labels: map[string]string{"team": "x"}}}
	eds.Spec.Template = genTemplate(r, 2, false)
	eds.Spec.Strategy = defaultedStrategy()
	var cat []string
	if r.Intn(4) != 0 {
		eds.Spec.Strategy.Canary = genCanarySpec(r)
	} else {
		cat = append(cat, "no-canary-strategy")
	}
	eds.Status.ActiveReplicaSet = "foo-old"
	eds.Status.State = edsv1.ExtendedDaemonSetStatusStateRunning
	ers := newERS("foo-new", eds.Spec.Template, now)
	old := newERS("foo-old", genTemplate(r, 1, false), now.Add(-time.Hour))
	if r.Intn(3) != 0 {
		eds.Status.Canary = &edsv1.ExtendedDaemonSetStatusCanary{ReplicaSet: pick(r, "foo-new", "foo-new", "foo-gone"), Nodes: []string{"n0"}}
		// every state string a reconcile may have left while the canary is active (paused by the user or
		// by the controller itself, or not yet refreshed since the canary started): the commands decide from
		// status.canary, never from the state string
		eds.Status.State = pick(r, edsv1.ExtendedDaemonSetStatusStateCanary, edsv1.ExtendedDaemonSetStatusStateCanary,
			edsv1.ExtendedDaemonSetStatusStateCanaryPaused, edsv1.ExtendedDaemonSetStatusStateRunning, "")
		cat = append(cat, "canary-active", "state:"+string(eds.Status.State))
	} else if r.Intn(3) == 0 {
		// no canary, but a stale state string
		eds.Status.State = pick(r, edsv1.ExtendedDaemonSetStatusStateCanary, edsv1.ExtendedDaemonSetStatusStateCanaryFailed,
			edsv1.ExtendedDaemonSetStatusStateRollingUpdatePaused, edsv1.ExtendedDaemonSetStatusStateRolloutFrozen)
		cat = append(cat, "state:"+string(eds.Status.State))
	}
	if r.Intn(2) == 0 {
		eds.Annotations = map[string]string{}
		for _, k := range []string{edsv1.ExtendedDaemonSetCanaryPausedAnnotationKey, edsv1.ExtendedDaemonSetCanaryUnpausedAnnotationKey,
			edsv1.ExtendedDaemonSetRollingUpdatePausedAnnotationKey, edsv1.ExtendedDaemonSetRolloutFrozenAnnotationKey} {
			if v, ok := genAnnotValue(r); ok {
				eds.Annotations[k] = v
			}
		}
		switch r.Intn(4) {
		case 0:
			eds.Annotations[edsv1.ExtendedDaemonSetCanaryValidAnnotationKey] = "foo-new"
		case 1:
			eds.Annotations[edsv1.ExtendedDaemonSetCanaryValidAnnotationKey] = "foo-older"
		}
		if r.Intn(3) == 0 {
			eds.Annotations["unrelated"] = "keep"
		}
	}
	// previous conditions on the canary replica set
	switch r.Intn(4) {
	case 0:
		ers.Status.Conditions = append(ers.Status.Conditions, ersCond(edsv1.ConditionTypeCanaryFailed, corev1.ConditionFalse, now, now, ""))
		cat = append(cat, "earlier-failed-false-entry")
	case 2:
		ers.Status.Conditions = append(ers.Status.Conditions, ersCond(edsv1.ConditionTypeCanaryFailed, corev1.ConditionTrue, now, now, "OOMKilled"))
	case 1:
		ers.Status.Conditions = append(ers.Status.Conditions, ersCond(edsv1.ConditionTypeCanaryPaused, corev1.ConditionTrue, now, now, "x"))
	}
	cmd := pick(r, cliCmds...)
	calls := &Calls{}
	cl := recordingClientU([]client.Object{eds.DeepCopy(), ers.DeepCopy(), old.DeepCopy()}, calls)
	before := canon.CEDS(eds)
	streams := genericclioptions.IOStreams{In: &bytes.Buffer{}, Out: &bytes.Buffer{}, ErrOut: &bytes.Buffer{}}
	var err error
	t0 := time.Now()
	p, _ := Recovered(func() {
		switch cmd {
		case "canaryPause":
			err = canary.VerifRunPause(cl, streams, testNS, testEDS, true)
		case "canaryUnpause":
			err = canary.VerifRunPause(cl, streams, testNS, testEDS, false)
		case "canaryValidate":
			err = canary.VerifRunValidate(cl, streams, testNS, testEDS)
		case "canaryFail":
			err = canary.VerifRunFail(cl, streams, testNS, testEDS)
		case "ruPause":
			err = pause.VerifRun(cl, streams, testNS, testEDS, true)
		case "ruUnpause":
			err = pause.VerifRun(cl, streams, testNS, testEDS, false)
		case "freeze":
			err = freeze.VerifRun(cl, streams, testNS, testEDS, true)
		case "unfreeze":
			err = freeze.VerifRun(cl, streams, testNS, testEDS, false)
		}
	})
	afterE := &edsv1.ExtendedDaemonSet{}
	_ = cl.Get(context.TODO(), types.NamespacedName{Namespace: testNS, Name: testEDS}, afterE)
	afterR := &edsv1.ExtendedDaemonSetReplicaSet{}
	_ = cl.Get(context.TODO(), types.NamespacedName{Namespace: testNS, Name: "foo-new"}, afterR)
	afterO := &edsv1.ExtendedDaemonSetReplicaSet{}
	_ = cl.Get(context.TODO(), types.NamespacedName{Namespace: testNS, Name: "foo-old"}, afterO)
	// canonicalise the instants written by the command (metav1.Now() inside it) to t0
	ca := canon.CERS(afterR)
	lo, hi := canon.T(t0.Truncate(time.Second)), canon.T(time.Now())
	for k := range ca.Status.Conds {
		normTime(&ca.Status.Conds[k].LastTransition, lo, hi, canon.T(t0))
		normTime(&ca.Status.Conds[k].LastUpdate, lo, hi, canon.T(t0))
	}
	out := map[string]interface{}{"panic": p, "err": err != nil, "edsAfter": canon.CEDS(afterE), "ersAfter": ca, "ersBefore": canon.CERS(ers),
		"oldUnchanged": canonEq(canon.CERS(old), canon.CERS(afterO)), "calls": calls.sorted()}
	if err != nil {
		cat = append(cat, "refused")
	} else {
		cat = append(cat, "accepted")
	}
	cat = append(cat, "cmd:"+cmd)
	sort.Strings(cat)
	return &Case{Fn: "cli", In: map[string]interface{}{"cmd": cmd, "eds": before, "now": canon.T(t0)}, Out: out, Cat: cat}
}
