package streams

import (
	"k8s.io/apimachinery/pkg/api/resource"
	"strings"
	"context"
	"fmt"
	"math/rand"
	"sort"
	"time"

	"github.com/go-logr/logr"
	appsv1 "k8s.io/api/apps/v1"
	autoscalingv1 "k8s.io/api/autoscaling/v1"
	corev1 "k8s.io/api/core/v1"
	metav1 "k8s.io/apimachinery/pkg/apis/meta/v1"
	"k8s.io/apimachinery/pkg/types"
	"k8s.io/apimachinery/pkg/util/intstr"
	"k8s.io/client-go/tools/record"
	"sigs.k8s.io/controller-runtime/pkg/client"
	"sigs.k8s.io/controller-runtime/pkg/reconcile"

	edsv1 "github.com/DataDog/extendeddaemonset/api/v1alpha1"
	ersctl "github.com/DataDog/extendeddaemonset/controllers/extendeddaemonsetreplicaset"
	"github.com/DataDog/extendeddaemonset/controllers/extendeddaemonsetreplicaset/strategy"

	"verifharness/canon"
)

func init() {
	Registry["ers_reconcile"] = streamErsReconcile
}

type dsJ struct {
	Name     string               `json:"name"`
	Ns       string               `json:"ns"`
	Selector *canon.LabelSelector `json:"selector,omitempty"`
}

type createdJ struct {
	Node string    `json:"node"`
	Pod  canon.Pod `json:"pod"`
}

type ersOutJ struct {
	Kind         string           `json:"kind"` // ok | err | panic
	Requeue      bool             `json:"requeue"`
	RequeueAfter int64            `json:"requeueAfter"`
	Deleted      []string         `json:"deleted"`
	LabelAdds    []string         `json:"labelAdds"`
	LabelRemoves []string         `json:"labelRemoves"`
	Creates      []createdJ       `json:"creates"`
	StatusUpdate *canon.ERSStatus `json:"statusUpdate,omitempty"`
	Order        []string         `json:"order"`
	Foreign      []string         `json:"foreign"`
	// AppliedPods: pod creations / deletions of this sync that the API server applied
	AppliedPods int `json:"appliedPods"`
	// what the stored replica set says after the sync
	StoredReconcileError string `json:"storedReconcileError"`
	StoredCleanupDone    string `json:"storedCleanupDone"`
	StoredCanaryFailed   string `json:"storedCanaryFailed"`
}

func normErsStatusTimes(st *canon.ERSStatus, lo, hi, now int64) {
	for i := range st.Conds {
		normTime(&st.Conds[i].LastTransition, lo, hi, now)
		normTime(&st.Conds[i].LastUpdate, lo, hi, now)
	}
}

// store is a generated cluster for the replica-set reconcile.
type ersWorld struct {
	healthyMig bool
	settingsDirected bool
	eds      *edsv1.ExtendedDaemonSet
	ers      []*edsv1.ExtendedDaemonSetReplicaSet
	nodes    []*corev1.Node
	pods     []*corev1.Pod
	settings []*edsv1.ExtendedDaemonsetSetting
	dss      []*appsv1.DaemonSet
	cat      []string
	pmax     int32
	fmax     int32
}

func genErsWorld(r *rand.Rand, now time.Time) *ersWorld {
	w := &ersWorld{}
	eds := &edsv1.ExtendedDaemonSet{ObjectMeta: metav1.ObjectMeta{Name: testEDS, Namespace: testNS, UID: "uid-eds", Annotations: map[string]string{}}}
	eds.Spec.Template = tplOf(2)
	eds.Spec.Strategy = defaultedStrategy()
	ru := &eds.Spec.Strategy.RollingUpdate
	ru.MaxUnavailable = ios(intstr.FromInt(1 + r.Intn(3)))
	ru.SlowStartAdditiveIncrease = ios(intstr.FromInt(1 + r.Intn(5)))
	if r.Intn(3) == 0 { // the whole lattice of rolling-update values, including unparsable ones
		keep := eds.Spec.Strategy.ReconcileFrequency
		eds.Spec.Strategy = genRollingStrategy(r, 4)
		eds.Spec.Strategy.ReconcileFrequency = keep
		w.cat = append(w.cat, "rolling-strategy-lattice")
	}
	var pmax, fmax int32 = 2, 5
	if r.Intn(3) != 0 {
		c := genCanarySpec(r)
		eds.Spec.Strategy.Canary = c
		if r.Intn(2) == 0 { // thresholds around which the restart counts below are generated
			*c.AutoPause.Enabled, *c.AutoFail.Enabled = r.Intn(4) != 0, r.Intn(4) != 0
			*c.AutoPause.MaxRestarts = int32(r.Intn(4))
			*c.AutoFail.MaxRestarts = *c.AutoPause.MaxRestarts + int32(r.Intn(4))
			if r.Intn(2) == 0 {
				c.AutoPause.MaxSlowStartDuration = &metav1.Duration{Duration: time.Duration(30+r.Intn(300)) * time.Second}
			}
			if r.Intn(2) == 0 {
				c.AutoFail.MaxRestartsDuration = &metav1.Duration{Duration: time.Duration(30+r.Intn(600)) * time.Second}
			}
			if r.Intn(2) == 0 {
				c.AutoFail.CanaryTimeout = &metav1.Duration{Duration: time.Duration(600+r.Intn(1200)) * time.Second}
			}
		}
		pmax, fmax = *c.AutoPause.MaxRestarts, *c.AutoFail.MaxRestarts
	}
	w.pmax, w.fmax = pmax, fmax
	if r.Intn(25) == 0 {
		eds.Spec.Strategy.ReconcileFrequency = nil
		w.cat = append(w.cat, "eds-not-defaulted")
	}
	for _, k := range []string{edsv1.ExtendedDaemonSetRollingUpdatePausedAnnotationKey, edsv1.ExtendedDaemonSetRolloutFrozenAnnotationKey,
		edsv1.ExtendedDaemonSetCanaryPausedAnnotationKey, edsv1.ExtendedDaemonSetCanaryUnpausedAnnotationKey} {
		if v, ok := genAnnotValue(r); ok && r.Intn(3) == 0 {
			eds.Annotations[k] = v
		}
	}
	tplA, tplB := tplOf(1), tplOf(2)
	if r.Intn(5) == 0 {
		// templates with their own scheduling constraints: node selector, required affinity (labels and
		// metadata.name fields, In / NotIn / Exists), tolerations, several containers
		tplA, tplB = genTemplate(r, 1, true), genTemplate(r, 2, true)
		if r.Intn(3) == 0 {
			// the template excludes one node BY NAME (matchFields metadata.name NotIn [...]), next to a label
			// expression: every other node is still served, each pod pinned to its own node
			ex := pick(r, "n0", "n1", "n4", "n5")
			for _, t := range []*corev1.PodTemplateSpec{&tplA, &tplB} {
				t.Spec.Affinity = &corev1.Affinity{NodeAffinity: &corev1.NodeAffinity{RequiredDuringSchedulingIgnoredDuringExecution: &corev1.NodeSelector{
					NodeSelectorTerms: []corev1.NodeSelectorTerm{{
						MatchFields: []corev1.NodeSelectorRequirement{{Key: "metadata.name", Operator: corev1.NodeSelectorOpNotIn, Values: []string{ex}}},
					}}}}}
			}
			w.cat = append(w.cat, "template-excludes-node-by-name")
		}
		for _, t := range []*corev1.PodTemplateSpec{&tplA, &tplB} {
			// a required node affinity without any term is rejected by the API server (and cannot be pinned)
			if a := t.Spec.Affinity; a != nil && a.NodeAffinity != nil && a.NodeAffinity.RequiredDuringSchedulingIgnoredDuringExecution != nil &&
				len(a.NodeAffinity.RequiredDuringSchedulingIgnoredDuringExecution.NodeSelectorTerms) == 0 {
				t.Spec.Affinity = nil
			}
		}
		eds.Spec.Template = tplB
		w.cat = append(w.cat, "rich-templates")
	}
	if r.Intn(6) == 0 {
		// a template pasted from a running pod of another namespace: it carries metadata.namespace and a
		// generateName (both in the CRD schema; defaulting only clears the name).  Pods are nevertheless
		// created in the replica set's namespace with the replica set's generateName.
		tplA.Namespace, tplB.Namespace = "ns2", "ns2"
		tplB.GenerateName = "pasted-"
		eds.Spec.Template = tplB
		w.cat = append(w.cat, "template-carries-namespace")
	}
	a := newERS("foo-a", tplA, now.Add(-2*time.Hour))
	b := newERS("foo-b", tplB, now.Add(-20*time.Minute))
	w.ers = []*edsv1.ExtendedDaemonSetReplicaSet{a, b}
	if r.Intn(4) == 0 {
		// replica sets keep the copy of the ExtendedDaemonSet's annotations made at their creation: the
		// user switches as they were then, possibly removed or flipped since
		for _, e := range w.ers {
			for _, k := range []string{edsv1.ExtendedDaemonSetRollingUpdatePausedAnnotationKey, edsv1.ExtendedDaemonSetRolloutFrozenAnnotationKey,
				edsv1.ExtendedDaemonSetCanaryPausedAnnotationKey, edsv1.ExtendedDaemonSetCanaryUnpausedAnnotationKey} {
				if v, ok := genAnnotValue(r); ok && r.Intn(2) == 0 {
					e.Annotations[k] = v
				}
			}
		}
		w.cat = append(w.cat, "ers-carries-old-switches")
	}
	if r.Intn(4) == 0 {
		w.ers = append(w.ers, newERS("foo-c", tplOf(3), now.Add(-3*time.Hour)))
	}
	nn := 1 + r.Intn(5)
	rich := r.Intn(3) == 0
	for k := 0; k < nn; k++ {
		w.nodes = append(w.nodes, genNode(r, fmt.Sprintf("n%d", k), rich))
	}
	if r.Intn(3) == 0 {
		// per-node resource overrides (well-formed, malformed, for other containers), plus overrides
		// addressed to neighbours (another name in this namespace, the same name in another namespace):
		// the pods below are built from them, so their node hash is the right one unless changed later
		w.cat = append(w.cat, "node-overrides")
		for _, n := range w.nodes {
			if r.Intn(3) == 0 {
				continue
			}
			n.Annotations = genOverrideAnnotations(r)
			if r.Intn(2) == 0 {
				n.Annotations[overrideKey(testNS, "bar", "main")] = pick(r, `{"limits":{"cpu":"2"}}`, `{"limits":{"cpu":"7"}}`)
			}
			if r.Intn(2) == 0 {
				n.Annotations[overrideKey("ns2", testEDS, "main")] = `{"limits":{"cpu":"3"}}`
			}
		}
	}
	eds.Status.ActiveReplicaSet = pick(r, "foo-a", "foo-a", "foo-b", "", "foo-a")
	if eds.Spec.Strategy.Canary != nil && eds.Status.ActiveReplicaSet == "foo-a" && r.Intn(2) == 0 {
		cs := &edsv1.ExtendedDaemonSetStatusCanary{ReplicaSet: "foo-b"}
		for k := 0; k < nn; k++ {
			if r.Intn(3) == 0 {
				cs.Nodes = append(cs.Nodes, fmt.Sprintf("n%d", k))
			}
		}
		if r.Intn(8) == 0 {
			cs.Nodes = append(cs.Nodes, "ghost")
		}
		eds.Status.Canary = cs
		w.cat = append(w.cat, "canary-running")
	}
	// directed class: a VALID setting of this ExtendedDaemonSet selects some nodes that still lack a pod — the
	// pods created for them must carry the setting's resources whatever else happens in the sync
	settingsDirected := r.Intn(8) == 0
	if settingsDirected {
		s := &edsv1.ExtendedDaemonsetSetting{ObjectMeta: metav1.ObjectMeta{Name: "set-directed", Namespace: testNS, CreationTimestamp: mt(now.Add(-time.Hour))}}
		s.Spec.Reference = &autoscalingv1.CrossVersionObjectReference{Name: testEDS, Kind: "ExtendedDaemonSet"}
		s.Spec.NodeSelector = metav1.LabelSelector{MatchLabels: map[string]string{"pool": "big"}}
		s.Spec.Containers = []edsv1.ExtendedDaemonsetSettingContainerSpec{{Name: "main", Resources: corev1.ResourceRequirements{
			Limits: corev1.ResourceList{corev1.ResourceCPU: resource.MustParse(pick(r, "2", "3", "750m"))}}}}
		s.Status.Status = edsv1.ExtendedDaemonsetSettingStatusValid
		w.settings = append(w.settings, s)
		for _, n := range w.nodes {
			if r.Intn(2) == 0 {
				if n.Labels == nil {
					n.Labels = map[string]string{}
				}
				n.Labels["pool"] = "big"
			}
		}
		w.cat = append(w.cat, "settings", "settings:directed-valid-selecting")
		w.settingsDirected = true
		if eds.Spec.Strategy.ReconcileFrequency == nil {
			eds.Spec.Strategy.ReconcileFrequency = &metav1.Duration{Duration: 10 * time.Second}
		}
	}
	// settings
	if r.Intn(3) == 0 {
		for k := 0; k < 1+r.Intn(2); k++ {
			s := &edsv1.ExtendedDaemonsetSetting{ObjectMeta: metav1.ObjectMeta{Name: fmt.Sprintf("set%d", k), Namespace: pick(r, testNS, testNS, "ns2"),
				CreationTimestamp: mt(now.Add(-time.Hour))}}
			s.Spec.Reference = &autoscalingv1.CrossVersionObjectReference{Name: pick(r, testEDS, testEDS, "bar"), Kind: "ExtendedDaemonSet"}
			s.Spec.NodeSelector = genSettingSelector(r)
			s.Spec.Containers = []edsv1.ExtendedDaemonsetSettingContainerSpec{{Name: "main", Resources: genResources(r)}}
			s.Status.Status = pick(r, edsv1.ExtendedDaemonsetSettingStatusValid, edsv1.ExtendedDaemonsetSettingStatusValid, edsv1.ExtendedDaemonsetSettingStatusError)
			w.settings = append(w.settings, s)
		}
		w.cat = append(w.cat, "settings")
	}
	// old daemonset migration; "withdrawn": the annotation has been removed from the EDS again, the
	// replica sets still carry the copy made when they were created, the DaemonSet and its pods exist
	mig := r.Intn(7)
	// "healthy migration": every node runs one Ready pod of the old DaemonSet and nothing else, the active
	// replica set adopts and replaces them within the budget, sync after sync
	healthyMig := r.Intn(12) == 0
	if healthyMig {
		mig = 0
		eds.Status.ActiveReplicaSet, eds.Status.Canary = "foo-a", nil
		for _, k := range []string{edsv1.ExtendedDaemonSetRollingUpdatePausedAnnotationKey, edsv1.ExtendedDaemonSetRolloutFrozenAnnotationKey} {
			delete(eds.Annotations, k)
		}
		w.cat = append(w.cat, "healthy-migration")
		w.healthyMig = true
	}
	withdrawn := mig == 1
	if mig <= 1 {
		if !withdrawn {
			eds.Annotations[edsv1.ExtendedDaemonSetOldDaemonsetAnnotationKey] = "old-ds"
		} else {
			w.cat = append(w.cat, "old-daemonset-withdrawn")
		}
		ds := &appsv1.DaemonSet{ObjectMeta: metav1.ObjectMeta{Name: "old-ds", Namespace: pick(r, testNS, testNS, "ns2")}}
		if healthyMig {
			ds.Namespace = testNS
		}
		if r.Intn(3) != 0 || healthyMig {
			ds.Spec.Selector = &metav1.LabelSelector{MatchLabels: map[string]string{"app": "agent"}}
		}
		w.dss = append(w.dss, ds)
		w.cat = append(w.cat, "old-daemonset")
	}
	// pods
	idx := 0
	mkPod := func(nodeName string, cat int, cur, old *edsv1.ExtendedDaemonSetReplicaSet, setting *edsv1.ExtendedDaemonsetSetting) *corev1.Pod {
		var node *corev1.Node
		for _, n := range w.nodes {
			if n.Name == nodeName {
				node = n
			}
		}
		if node == nil {
			node = &corev1.Node{ObjectMeta: metav1.ObjectMeta{Name: nodeName}}
		}
		idx++
		return buildPod(r, cat, cur, old, strategy.NewNodeItem(node, setting), now, idx)
	}
	for k := 0; k < nn; k++ {
		name := fmt.Sprintf("n%d", k)
		cnt := pick(r, 0, 1, 1, 1, 1, 2)
		if healthyMig {
			cnt = 0
		}
		if settingsDirected && r.Intn(2) == 0 {
			cnt = 0
		}
		for j := 0; j < cnt; j++ {
			owner := pick(r, a, a, b)
			c := pick(r, catUpToDateAvail, catUpToDateAvail, catUpToDateUnavail, catOutdatedTerminating, catStuckUnscheduled, catUpToDateAvail)
			p := mkPod(name, c, owner, owner, nil)
			if p == nil {
				continue
			}
			if r.Intn(6) == 0 {
				p.Status.Phase = pick(r, corev1.PodFailed, corev1.PodUnknown)
			}
			if r.Intn(2) == 0 { // kubelet-reported container state: restarts, waiting reasons, start time
				stt := mt(now.Add(-time.Duration(r.Intn(600)) * time.Second))
				p.Status.StartTime = &stt
				for ci := r.Intn(2); ci >= 0; ci-- {
					p.Status.ContainerStatuses = append(p.Status.ContainerStatuses, genContainerStatus(r, fmt.Sprintf("c%d", ci), w.pmax, w.fmax, now))
				}
			}
			if owner == b && eds.Status.Canary != nil && r.Intn(2) == 0 {
				p.Labels[edsv1.ExtendedDaemonSetReplicaSetCanaryLabelKey] = edsv1.ExtendedDaemonSetReplicaSetCanaryLabelValue
			}
			w.pods = append(w.pods, p)
		}
	}
	// foreign pods: other namespace with the same labels, another EDS, old daemonset pods
	if r.Intn(3) == 0 {
		p := mkPod(pick(r, "n0", "gone"), catUpToDateAvail, a, a, nil)
		p.Namespace = "ns2"
		p.Name = "foreign-ns2-" + p.Name
		if r.Intn(2) == 0 {
			p.Labels[edsv1.ExtendedDaemonSetReplicaSetCanaryLabelKey] = edsv1.ExtendedDaemonSetReplicaSetCanaryLabelValue
		}
		w.pods = append(w.pods, p)
		w.cat = append(w.cat, "foreign-namespace-pod")
	}
	if r.Intn(3) == 0 {
		p := mkPod("n0", catUpToDateAvail, a, a, nil)
		p.Labels[edsv1.ExtendedDaemonSetNameLabelKey] = "bar"
		p.Name = "bar-" + p.Name
		w.pods = append(w.pods, p)
		w.cat = append(w.cat, "other-eds-pod")
	}
	if r.Intn(5) == 0 {
		// an unrelated pod of the namespace whose labels overlap: replica-set name label and canary
		// label, but not the ExtendedDaemonSet name label
		p := mkPod("n0", catUpToDateAvail, pick(r, a, b), a, nil)
		delete(p.Labels, edsv1.ExtendedDaemonSetNameLabelKey)
		p.Labels[edsv1.ExtendedDaemonSetReplicaSetCanaryLabelKey] = edsv1.ExtendedDaemonSetReplicaSetCanaryLabelValue
		p.OwnerReferences = nil
		p.Name = "stray-" + p.Name
		w.pods = append(w.pods, p)
		w.cat = append(w.cat, "stray-pod-overlapping-labels")
	}
	if len(w.dss) > 0 {
		for k := 0; k < nn; k++ {
			if r.Intn(2) == 0 || healthyMig {
				p := mkPod(fmt.Sprintf("n%d", k), catOldDaemonsetPod, a, a, nil)
				p.Namespace = w.dss[0].Namespace
				p.Name = "oldds-" + p.Name
				delete(p.Labels, edsv1.ExtendedDaemonSetNameLabelKey)
				if healthyMig {
					p.Status.Conditions = []corev1.PodCondition{readyCond(true, now.Add(-time.Minute))}
					p.Status.Phase = corev1.PodRunning
				}
				if r.Intn(4) == 0 && !healthyMig {
					p.OwnerReferences = []metav1.OwnerReference{{Kind: "DaemonSet", Name: "another-ds", APIVersion: "apps/v1"}}
				}
				w.pods = append(w.pods, p)
			}
		}
	}
	if len(w.nodes) > 0 && r.Intn(6) == 0 {
		// a node's override changed after its pod was created: that pod is out of date
		n := w.nodes[r.Intn(len(w.nodes))]
		if n.Annotations == nil {
			n.Annotations = map[string]string{}
		}
		n.Annotations[overrideKey(testNS, testEDS, "main")] = pick(r, `{"limits":{"cpu":"4"}}`, `{"requests":{"cpu":"100m"}}`)
		w.cat = append(w.cat, "node-override-changed")
	}
	w.eds = eds
	if len(w.dss) > 0 {
		// the replica sets were created with a copy of the EDS's annotations
		for _, e := range w.ers {
			if withdrawn || r.Intn(2) == 0 {
				e.Annotations[edsv1.ExtendedDaemonSetOldDaemonsetAnnotationKey] = "old-ds"
			}
		}
	}
	return w
}

func genErsConds(r *rand.Rand, now time.Time, freq time.Duration) []edsv1.ExtendedDaemonSetReplicaSetCondition {
	var cs []edsv1.ExtendedDaemonSetReplicaSetCondition
	age := func() time.Duration {
		return pick(r, freq-3*time.Second, freq+3*time.Second, 10*freq, time.Hour)
	}
	if r.Intn(3) != 0 {
		t := now.Add(-age())
		cs = append(cs, ersCond(edsv1.ConditionTypeLastFullSync, corev1.ConditionTrue, t.Add(-time.Hour), t, ""))
	}
	hasDeletion := false
	if r.Intn(3) == 0 {
		t := now.Add(-age())
		cs = append(cs, ersCond(edsv1.ConditionTypePodDeletion, corev1.ConditionTrue, t, t, ""))
		hasDeletion = true
	}
	if r.Intn(3) == 0 {
		t := now.Add(-age())
		if !hasDeletion {
			// A PodCreation condition younger than reconcileFrequency without any PodDeletion condition
			// makes Reconcile dereference a nil condition in a log call (controller.go, "Delay pods
			// creation"). The state is not reachable: LastFullSync is stamped with the same instant on
			// every full sync, so its gate returns first. Keep such conditions old.
			t = now.Add(-time.Hour)
		}
		cs = append(cs, ersCond(edsv1.ConditionTypePodCreation, corev1.ConditionTrue, t, t, ""))
	}
	if r.Intn(2) == 0 {
		t := now.Add(-pick(r, 30*time.Second, 4*time.Minute, 6*time.Minute, time.Hour))
		cs = append(cs, ersCond(edsv1.ConditionTypeActive, pick(r, corev1.ConditionTrue, corev1.ConditionTrue, corev1.ConditionFalse), t, t, ""))
	}
	if r.Intn(4) == 0 {
		t := now.Add(-time.Minute)
		cs = append(cs, ersCond(edsv1.ConditionTypeCanary, pick(r, corev1.ConditionTrue, corev1.ConditionFalse), t, t, ""))
	}
	if r.Intn(6) == 0 {
		t := now.Add(-time.Minute)
		cs = append(cs, ersCond(edsv1.ConditionTypeCanaryPaused, corev1.ConditionTrue, t, t, "CrashLoopBackOff"))
	}
	if r.Intn(8) == 0 {
		t := now.Add(-time.Minute)
		cs = append(cs, ersCond(edsv1.ConditionTypeCanaryFailed, corev1.ConditionTrue, t, t, "OOMKilled"))
	}
	if r.Intn(8) == 0 {
		t := now.Add(-time.Minute)
		cs = append(cs, ersCond(edsv1.ConditionTypeReconcileError, pick(r, corev1.ConditionTrue, corev1.ConditionFalse), t, t, ""))
	}
	return cs
}

func streamErsReconcile(r *rand.Rand, i int, tier string) *Case {
	now := time.Now().Truncate(time.Second).Add(-time.Second)
	w := genErsWorld(r, now)
	target := pick(r, w.ers...)
	freq := 10 * time.Second
	target.Status.Conditions = genErsConds(r, now, freq)
	// (second-sync cases, see below: the active replica set, not throttled, so that the first sync acts)
	wantSecondSync := len(w.dss) > 0 && (r.Intn(2) == 0 || w.healthyMig)
	if wantSecondSync {
		for _, e := range w.ers {
			if e.Name == w.eds.Status.ActiveReplicaSet {
				target = e
			}
		}
		target.Status.Conditions = nil
	}
	if w.settingsDirected && r.Intn(3) != 0 {
		// the active replica set, not throttled: the sync reaches the creations
		for _, e := range w.ers {
			if e.Name == w.eds.Status.ActiveReplicaSet {
				target = e
			}
		}
		target.Status.Conditions = nil
	}
	if r.Intn(2) == 0 { // stale counters and role from the previous sync
		// ordered (0 <= available <= ready <= current <= desired), as every completed sync leaves them
		v := []int{r.Intn(7), r.Intn(7), r.Intn(7), r.Intn(7)}
		sort.Ints(v)
		target.Status.Available, target.Status.Ready, target.Status.Current, target.Status.Desired = int32(v[0]), int32(v[1]), int32(v[2]), int32(v[3])
		target.Status.IgnoredUnresponsiveNodes = int32(pick(r, 0, 1, 2, 5))
		target.Status.Status = pick(r, "", "active", "canary", "unknown")
	}
	var objs []client.Object
	objs = append(objs, w.eds)
	for _, e := range w.ers {
		objs = append(objs, e)
	}
	for _, n := range w.nodes {
		objs = append(objs, n)
	}
	seen := map[string]bool{}
	for _, p := range w.pods {
		for seen[p.Namespace+"/"+p.Name] {
			p.Name += "x"
		}
		seen[p.Namespace+"/"+p.Name] = true
		objs = append(objs, p)
	}
	for _, s := range w.settings {
		objs = append(objs, s)
	}
	for _, d := range w.dss {
		objs = append(objs, d)
	}
	wl := &writeLog{}
	// one case in five: one of the first API writes of the sync is rejected, or applied with the
	// answer lost (the writes attempted stay the planned ones; the status then reports the error)
	var failAt map[int]string
	concurrentFail := false
	if r.Intn(12) == 0 {
		// no call fails, but somebody marks the replica set Canary-Failed while the sync is in flight
		failAt = map[int]string{-2: "concurrent-fail"}
		concurrentFail = true
	} else if r.Intn(5) == 0 {
		failAt = map[int]string{r.Intn(4): pick(r, "reject", "reject", "lost")}
		if r.Intn(2) == 0 {
			// and another writer touched the replica set meanwhile: its status write gets a 409
			failAt[-2] = "conflict"
		}
	}
	cl := loggingClient(objs, wl, failAt)
	aff := r.Intn(2) == 0
	sw := &switchClient{Client: cl}
	rec, _ := ersctl.NewReconciler(ersctl.ReconcilerOptions{IsNodeAffinitySupported: aff}, sw, theScheme, logr.Discard(), record.NewFakeRecorder(1000))
	warm := failAt == nil && r.Intn(4) == 0
	_ = concurrentFail
	if warm {
		// the same reconciler instance has already synced this replica set in a world with other node
		// labels / taints / settings selectors (its writes went to that other world); what it keeps
		// legitimately — the failed-pod back-off — is read back below and given to the model
		sw.use(loggingClient(perturbNodes(r, objs), &writeLog{}, nil))
		Recovered(func() {
			_, _ = rec.Reconcile(context.TODO(), reconcile.Request{NamespacedName: types.NamespacedName{Namespace: testNS, Name: target.Name}})
		})
		sw.use(cl)
	}
	neighbour := failAt == nil && r.Intn(5) == 0
	if neighbour {
		// the same process has just synced the replica set of a neighbour on the same nodes — another
		// name in this namespace, or the same name in another namespace (its writes go to a scratch
		// copy of the world).  Nothing computed for the neighbour may be served to this one.
		neighbourWarmup(r, rec, sw, objs, now)
		sw.use(cl)
	}
	// one case in ten (fault-free otherwise): the k-th List call of this sync fails (settings, nodes,
	// pods, the old DaemonSet's pods, canary-label clean-up ...).  A failed read must stop the sync or be
	// harmless; it must never be replaced by "nothing" (e.g. no settings) in a decision that creates pods.
	// second-sync cases (migration from a DaemonSet): the same reconciler syncs the SAME world twice — the first
	// time for real (it may delete adopted pods within the budget), then, one minute later by the stored
	// stamps, with the old DaemonSet unreadable.  Nothing the first sync saw may stand in for what the
	// second cannot read.
	secondSync := failAt == nil && !warm && !neighbour && wantSecondSync
	if secondSync {
		Recovered(func() {
			_, _ = rec.Reconcile(context.TODO(), reconcile.Request{NamespacedName: types.NamespacedName{Namespace: testNS, Name: target.Name}})
		})
		cur := &edsv1.ExtendedDaemonSetReplicaSet{}
		if err := cl.Get(context.TODO(), types.NamespacedName{Namespace: testNS, Name: target.Name}, cur); err == nil {
			for k := range cur.Status.Conditions {
				c := &cur.Status.Conditions[k]
				c.LastUpdateTime = mt(c.LastUpdateTime.Add(-time.Minute))
				c.LastTransitionTime = mt(c.LastTransitionTime.Add(-time.Minute))
			}
			_ = cl.Status().Update(context.TODO(), cur)
		}
		wl.mu.Lock()
		wl.Order, wl.Created, wl.Deleted, wl.Updated, wl.Status, wl.Patched = nil, nil, nil, nil, nil, nil
		wl.mu.Unlock()
	}
	parentUnreadable := false
	readFault := secondSync || failAt == nil && !neighbour && ((!warm && r.Intn(10) == 0) || (warm && r.Intn(3) == 0) || (!warm && len(w.settings) > 0 && r.Intn(3) == 0) || (!warm && w.settingsDirected && r.Intn(2) == 0))
	if readFault {
		lf := &listFaultClient{Client: cl, failAt: r.Intn(5)}
		if secondSync {
			lf.failAt = -1
			lf.failGet = "DaemonSet"
		} else if warm || r.Intn(4) == 0 {
			// the Get of the parent ExtendedDaemonSet (or of the old DaemonSet) fails instead: a process that
			// has seen the object before must not decide from what it remembers
			lf.failAt = -1
			lf.failGet = pick(r, "ExtendedDaemonSet", "ExtendedDaemonSet", "DaemonSet")
			if lf.failGet == "ExtendedDaemonSet" {
				parentUnreadable = true
			}
		}
		if r.Intn(2) == 0 || w.settingsDirected { // by kind of list rather than by position
			lf.failKind = pick(r, "ExtendedDaemonsetSettingList", "ExtendedDaemonsetSettingList", "NodeList", "PodList")
		}
		sw.use(lf)
	}
	in := ersInput(cl, testNS, testEDS, target.Name, aff, rec)
	if readFault {
		in["readFault"] = true
		in["faulted"] = true
		if parentUnreadable {
			in["parentUnreadable"] = true
		}
	}
	statusConflict := failAt != nil && failAt[-2] == "conflict"
	out, nowC := runErsReconcile(rec, cl, wl, testNS, testEDS, target.Name)
	in["now"] = nowC
	{
		after := &edsv1.ExtendedDaemonSetReplicaSet{}
		_ = cl.Get(context.TODO(), types.NamespacedName{Namespace: testNS, Name: target.Name}, after)
		for _, c := range after.Status.Conditions {
			switch c.Type {
			case edsv1.ConditionTypeReconcileError:
				out.StoredReconcileError = string(c.Status)
			case edsv1.ConditionTypePodsCleanupDone:
				out.StoredCleanupDone = string(c.Status)
			case edsv1.ConditionTypeCanaryFailed:
				out.StoredCanaryFailed = string(c.Status)
			}
		}
	}
	cat := w.cat
	if warm {
		cat = append(cat, "warm-reconciler")
	}
	if neighbour {
		cat = append(cat, "neighbour-synced-first")
	}
	if readFault {
		cat = append(cat, "read-fault:list")
	}
	if secondSync {
		cat = append(cat, "second-sync:old-daemonset-unreadable")
	}
	if failAt != nil {
		in["faulted"] = true
		for k, f := range failAt {
			if k >= 0 && k < len(out.Order) {
				cat = append(cat, "fault:"+f+":"+strings.SplitN(out.Order[k], ":", 2)[0])
				if strings.HasPrefix(out.Order[k], "create:Pod") || strings.HasPrefix(out.Order[k], "delete:Pod") {
					in["podWriteFailed"] = true
				}
			}
		}
		if statusConflict {
			cat = append(cat, "fault:conflict:status")
		}
		if concurrentFail {
			cat = append(cat, "fault:concurrent-writer")
			// did the sync reach a status write at all?
			for _, o := range out.Order {
				if strings.HasPrefix(o, "status:") {
					in["concurrentFail"] = true
				}
			}
		}
	}
	cat = append(cat, "kind:"+out.Kind, "target:"+target.Name)
	if len(out.Creates) > 0 {
		cat = append(cat, "creates")
	}
	if len(out.Deleted) > 0 {
		cat = append(cat, "deletes")
	}
	if len(out.LabelAdds)+len(out.LabelRemoves) > 0 {
		cat = append(cat, "label-patches")
	}
	if out.StatusUpdate == nil {
		cat = append(cat, "no-status-write")
	} else {
		cat = append(cat, "role:"+out.StatusUpdate.Status)
	}
	return &Case{Fn: "ers_reconcile", In: in, Out: out, Cat: dedup(cat)}
}

// ersInput canonicalises what the replica-set reconcile of (ns, rsName) will read from the API.
func ersInput(cl client.Client, ns, edsName, rsName string, aff bool, rec *ersctl.Reconciler) map[string]interface{} {
	ctx := context.TODO()
	stored := &edsv1.ExtendedDaemonSet{}
	_ = cl.Get(ctx, types.NamespacedName{Namespace: ns, Name: edsName}, stored)
	storedRS := &edsv1.ExtendedDaemonSetReplicaSet{}
	_ = cl.Get(ctx, types.NamespacedName{Namespace: ns, Name: rsName}, storedRS)
	nl := &corev1.NodeList{}
	_ = cl.List(ctx, nl)
	pl := &corev1.PodList{}
	_ = cl.List(ctx, pl)
	sl := &edsv1.ExtendedDaemonsetSettingList{}
	_ = cl.List(ctx, sl)
	dl := &appsv1.DaemonSetList{}
	_ = cl.List(ctx, dl)
	cnodes := []canon.Node{}
	inBackoff := []string{}
	for k := range nl.Items {
		cnodes = append(cnodes, canon.CNode(&nl.Items[k], ns, edsName))
		if rec != nil && rec.VerifBackoff().IsInBackOffSinceUpdate(ersctl.VerifBackoffKey(storedRS, nl.Items[k].Name), rec.VerifBackoff().Clock.Now()) {
			inBackoff = append(inBackoff, nl.Items[k].Name)
		}
	}
	cpods := []canon.Pod{}
	for k := range pl.Items {
		cpods = append(cpods, canon.CPod(&pl.Items[k]))
	}
	csets := []canon.Setting{}
	for k := range sl.Items {
		csets = append(csets, canon.CSetting(&sl.Items[k]))
	}
	cds := []dsJ{}
	for k := range dl.Items {
		cds = append(cds, dsJ{dl.Items[k].Name, dl.Items[k].Namespace, canon.LS(dl.Items[k].Spec.Selector)})
	}
	return map[string]interface{}{"ers": canon.CERS(storedRS), "eds": canon.CEDS(stored), "nodes": cnodes, "pods": cpods, "settings": csets,
		"daemonsets": cds, "affinity": aff, "inBackoff": inBackoff}
}

// runErsReconcile runs one Reconcile of the replica set (ns, rsName) and canonicalises the writes in wl.
func runErsReconcile(rec *ersctl.Reconciler, cl client.Client, wl *writeLog, ns, edsName, rsName string) (ersOutJ, int64) {
	ctx := context.TODO()
	eds := &edsv1.ExtendedDaemonSet{}
	_ = cl.Get(ctx, types.NamespacedName{Namespace: ns, Name: edsName}, eds)
	t0 := time.Now()
	var res reconcile.Result
	var err error
	p, pmsg := Recovered(func() {
		res, err = rec.Reconcile(ctx, reconcile.Request{NamespacedName: types.NamespacedName{Namespace: ns, Name: rsName}})
	})
	t1 := time.Now()
	nowC := canon.T(t0)
	lo, hi := canon.T(t0), canon.T(t1)
	out := ersOutJ{Kind: "ok", Deleted: []string{}, LabelAdds: []string{}, LabelRemoves: []string{}, Creates: []createdJ{}, Order: wl.Order, Foreign: []string{}}
	if out.Order == nil {
		out.Order = []string{}
	}
	wl.mu.Lock()
	out.AppliedPods = wl.AppliedPods
	wl.mu.Unlock()
	if p {
		out.Kind = "panic"
		out.Foreign = append(out.Foreign, "panic: "+pmsg)
	} else if err != nil {
		out.Kind = "err"
	}
	out.Requeue, out.RequeueAfter = res.Requeue, int64(res.RequeueAfter)
	own := func(pd *corev1.Pod) bool {
		if pd.Namespace != ns {
			return false
		}
		if pd.Labels[edsv1.ExtendedDaemonSetNameLabelKey] == edsName {
			return true
		}
		if dsn, ok := eds.Annotations[edsv1.ExtendedDaemonSetOldDaemonsetAnnotationKey]; ok {
			for _, o := range pd.OwnerReferences {
				if o.Kind == "DaemonSet" && o.Name == dsn {
					return true
				}
			}
		}
		return false
	}
	for _, o := range wl.Deleted {
		if pd, ok := o.(*corev1.Pod); ok {
			out.Deleted = append(out.Deleted, pd.Name)
			if !own(pd) {
				out.Foreign = append(out.Foreign, "delete:Pod/"+pd.Namespace+"/"+pd.Name)
			}
		} else {
			out.Foreign = append(out.Foreign, "delete:"+kindOf(o)+"/"+o.GetName())
		}
	}
	for _, o := range wl.Patched {
		if pd, ok := o.(*corev1.Pod); ok {
			if _, has := pd.Labels[edsv1.ExtendedDaemonSetReplicaSetCanaryLabelKey]; has {
				out.LabelAdds = append(out.LabelAdds, pd.Name)
			} else {
				out.LabelRemoves = append(out.LabelRemoves, pd.Name)
			}
			if !own(pd) {
				out.Foreign = append(out.Foreign, "patch:Pod/"+pd.Namespace+"/"+pd.Name)
			}
		} else {
			out.Foreign = append(out.Foreign, "patch:"+kindOf(o)+"/"+o.GetName())
		}
	}
	for _, o := range wl.Created {
		if pd, ok := o.(*corev1.Pod); ok {
			cp := canon.CPod(pd)
			cp.Name = pd.GenerateName
			node := pd.Spec.NodeName
			if node == "" && cp.AffRequired != nil {
				for _, t := range *cp.AffRequired {
					for _, f := range t.Fields {
						if f.Key == "metadata.name" && len(f.Values) > 0 {
							node = f.Values[0]
						}
					}
				}
			}
			out.Creates = append(out.Creates, createdJ{node, cp})
			if !own(pd) {
				out.Foreign = append(out.Foreign, "create:Pod/"+pd.Namespace)
			}
		} else {
			out.Foreign = append(out.Foreign, "create:"+kindOf(o)+"/"+o.GetName())
		}
	}
	for _, o := range wl.Status {
		if e, ok := o.(*edsv1.ExtendedDaemonSetReplicaSet); ok && e.Namespace == ns && e.Name == rsName {
			st := canon.CERSStatus(&e.Status)
			normErsStatusTimes(&st, lo, hi, nowC)
			out.StatusUpdate = &st
		} else {
			out.Foreign = append(out.Foreign, "status:"+kindOf(o)+"/"+o.GetName())
		}
	}
	for _, o := range wl.Updated {
		out.Foreign = append(out.Foreign, "update:"+kindOf(o)+"/"+o.GetName())
	}
	sort.Strings(out.Deleted)
	sort.Strings(out.LabelAdds)
	sort.Strings(out.LabelRemoves)
	sort.Slice(out.Creates, func(a, b int) bool { return out.Creates[a].Node < out.Creates[b].Node })
	return out, nowC
}
