package streams

import (
	apierrors "k8s.io/apimachinery/pkg/api/errors"
	"k8s.io/apimachinery/pkg/runtime/schema"
	"context"
	"fmt"
	"math/rand"
	"sync"
	"sync/atomic"
	"time"

	"github.com/go-logr/logr"
	corev1 "k8s.io/api/core/v1"
	metav1 "k8s.io/apimachinery/pkg/apis/meta/v1"
	"k8s.io/apimachinery/pkg/types"
	"k8s.io/client-go/tools/record"
	"sigs.k8s.io/controller-runtime/pkg/client"
	"sigs.k8s.io/controller-runtime/pkg/client/fake"
	"sigs.k8s.io/controller-runtime/pkg/client/interceptor"
	"sigs.k8s.io/controller-runtime/pkg/reconcile"

	edsv1 "github.com/DataDog/extendeddaemonset/api/v1alpha1"
	ersctl "github.com/DataDog/extendeddaemonset/controllers/extendeddaemonsetreplicaset"
	"github.com/DataDog/extendeddaemonset/controllers/extendeddaemonsetreplicaset/strategy"
	settingctl "github.com/DataDog/extendeddaemonset/controllers/extendeddaemonsetsetting"
	podtplctl "github.com/DataDog/extendeddaemonset/controllers/podtemplate"
)

func init() {
	Registry["parallel"] = streamParallel
	Registry["concurrent_reconcile"] = streamConcurrentReconcile
}

// failingClient rejects Create/Delete of the objects whose name (or generate-name node) is in fail.
func failingClient(objs []client.Object, fail func(name string) bool, injected *int64) client.Client {
	base := fake.NewClientBuilder().WithScheme(theScheme).WithObjects(objs...).
		WithStatusSubresource(&edsv1.ExtendedDaemonSet{}, &edsv1.ExtendedDaemonSetReplicaSet{}, &edsv1.ExtendedDaemonsetSetting{}).Build()
	return interceptor.NewClient(base, interceptor.Funcs{
		Delete: func(ctx context.Context, c client.WithWatch, obj client.Object, opts ...client.DeleteOption) error {
			if fail(obj.GetName()) {
				atomic.AddInt64(injected, 1)
				return injectedErr("delete", obj.GetName())
			}
			return c.Delete(ctx, obj, opts...)
		},
		Create: func(ctx context.Context, c client.WithWatch, obj client.Object, opts ...client.CreateOption) error {
			key := obj.GetName()
			if pd, ok := obj.(*corev1.Pod); ok {
				key = pd.Spec.NodeName
			}
			if fail(key) {
				atomic.AddInt64(injected, 1)
				return injectedErr("create", key)
			}
			return c.Create(ctx, obj, opts...)
		},
	})
}

// injectedErr: the injected failures cover the kinds of error an API server returns (the property says
// EVERY error is reflected, whatever its kind), chosen by the object name so that a batch mixes them.
func injectedErr(verb, name string) error {
	h := 0
	for _, c := range name {
		h = h*31 + int(c)
	}
	if h < 0 {
		h = -h
	}
	gr := schema.GroupResource{Resource: "pods"}
	switch h % 7 {
	case 0:
		return apierrors.NewNotFound(gr, name)
	case 1:
		return apierrors.NewAlreadyExists(gr, name)
	case 2:
		return apierrors.NewConflict(gr, name, fmt.Errorf("injected %s conflict", verb))
	case 3:
		return apierrors.NewServerTimeout(gr, verb, 1)
	case 4:
		return apierrors.NewForbidden(gr, name, fmt.Errorf("injected %s forbidden", verb))
	case 5:
		return apierrors.NewInternalError(fmt.Errorf("injected %s failure %s", verb, name))
	}
	return fmt.Errorf("injected %s failure %s", verb, name)
}

// parallel: the three fan-out / fan-in helpers with none / some / all calls failing.
func streamParallel(r *rand.Rand, i int, tier string) *Case {
	now := time.Now()
	n := pick(r, 2, 3, 4, 8, 16, 26, 32, 40, 64, 100)
	// "one": a single failing call at a random position; "head": failures only among the first third
	// (whatever batching or early exit a helper might use, a failure anywhere must be reported)
	mode := pick(r, "none", "some", "all", "one", "head")
	onePos := r.Intn(n)
	helper := pick(r, "createPods", "deletePods", "deletePodSlice", "cleanupPods")
	rs := newERS("foo-a", tplOf(1), now.Add(-time.Hour))
	failSet := map[string]bool{}
	var objs []client.Object
	var items []*strategy.NodeItem
	byNode := map[*strategy.NodeItem]*corev1.Pod{}
	var pods []*corev1.Pod
	terminating := 0
	for k := 0; k < n; k++ {
		node := &corev1.Node{ObjectMeta: metav1.ObjectMeta{Name: fmt.Sprintf("n%d", k)}}
		ni := strategy.NewNodeItem(node, nil)
		items = append(items, ni)
		pod := buildPod(r, catUpToDateAvail, rs, rs, ni, now, k)
		if helper == "deletePodSlice" || helper == "cleanupPods" {
			if r.Intn(8) == 0 {
				d := mt(now)
				pod.DeletionTimestamp = &d
				pod.Finalizers = []string{"verif/kubelet"}
				terminating++
			}
		}
		byNode[ni] = pod
		pods = append(pods, pod)
		if helper != "createPods" {
			objs = append(objs, pod)
		}
		fails := mode == "all" || (mode == "some" && r.Intn(2) == 0) || (mode == "one" && k == onePos) ||
			(mode == "head" && k <= n/3 && r.Intn(2) == 0)
		if fails {
			if helper == "createPods" {
				failSet[node.Name] = true
			} else {
				failSet[pod.Name] = true
			}
		}
	}
	var injected int64
	cl := failingClient(objs, func(name string) bool { return failSet[name] }, &injected)
	returned := 0
	condStatus := ""
	aggErr := false
	p, _ := Recovered(func() {
		switch helper {
		case "createPods":
			returned = len(ersctl.VerifCreatePods(logr.Discard(), cl, theScheme, r.Intn(2) == 0, rs, items))
		case "deletePods":
			returned = len(ersctl.VerifDeletePods(logr.Discard(), cl, byNode, items))
		case "deletePodSlice":
			returned = len(strategy.VerifDeletePodSlice(cl, logr.Discard(), pods))
		case "cleanupPods":
			st := &edsv1.ExtendedDaemonSetReplicaSetStatus{}
			if r.Intn(2) == 0 {
				st.Conditions = append(st.Conditions, ersCond(edsv1.ConditionTypePodsCleanupDone, corev1.ConditionTrue, now.Add(-time.Hour), now.Add(-time.Hour), ""))
			}
			err := strategy.VerifCleanupPods(cl, logr.Discard(), st, pods)
			aggErr = err != nil
			returned = -1
			for _, c := range st.Conditions {
				if c.Type == edsv1.ConditionTypePodsCleanupDone {
					condStatus = string(c.Status)
				}
			}
		}
	})
	cat := []string{"helper:" + helper, "mode:" + mode, fmt.Sprintf("batch:%d", n)}
	return &Case{Fn: "parallel", In: map[string]interface{}{"helper": helper, "n": n, "mode": mode},
		Out: map[string]interface{}{"panic": p, "injected": injected, "returned": returned, "cleanupCond": condStatus, "aggErr": aggErr}, Cat: cat}
}

// concurrent_reconcile: the four reconcilers and a kubelet model run concurrently against one store;
// the race detector watches. The result line only reports whether every goroutine finished.
func streamConcurrentReconcile(r *rand.Rand, i int, tier string) *Case {
	now := time.Now().Truncate(time.Second).Add(-time.Second)
	w := genErsWorld(r, now)
	var objs []client.Object
	objs = append(objs, w.eds)
	for _, e := range w.ers {
		objs = append(objs, e)
	}
	for _, n := range w.nodes {
		objs = append(objs, n)
	}
	seen := map[string]bool{}
	for _, pd := range w.pods {
		for seen[pd.Namespace+"/"+pd.Name] {
			pd.Name += "x"
		}
		seen[pd.Namespace+"/"+pd.Name] = true
		pd.Finalizers = nil
		pd.DeletionTimestamp = nil
		objs = append(objs, pd)
	}
	for _, s := range w.settings {
		objs = append(objs, s)
	}
	var injected int64
	failEvery := r.Intn(3) == 0
	var calls int64
	cl := failingClient(objs, func(string) bool { return failEvery && atomic.AddInt64(&calls, 1)%3 == 0 }, &injected)
	edsRec := newEDSReconciler(cl, edsv1.ExtendedDaemonSetSpecStrategyCanaryValidationModeAuto)
	ersRec, _ := ersctl.NewReconciler(ersctl.ReconcilerOptions{}, cl, theScheme, logr.Discard(), record.NewFakeRecorder(10000))
	setRec, _ := settingctl.NewReconciler(settingctl.ReconcilerOptions{}, cl, theScheme, logr.Discard(), record.NewFakeRecorder(10000))
	tplRec, _ := podtplctl.NewReconciler(podtplctl.ReconcilerOptions{}, cl, theScheme, logr.Discard(), record.NewFakeRecorder(10000))
	ctx := context.TODO()
	var wg sync.WaitGroup
	var panics int64
	rounds := 6
	run := func(f func()) {
		wg.Add(1)
		go func() {
			defer wg.Done()
			defer func() {
				if e := recover(); e != nil {
					atomic.AddInt64(&panics, 1)
				}
			}()
			for k := 0; k < rounds; k++ {
				f()
			}
		}()
	}
	key := types.NamespacedName{Namespace: testNS, Name: testEDS}
	run(func() { _, _ = edsRec.Reconcile(ctx, reconcile.Request{NamespacedName: key}) })
	run(func() { _, _ = tplRec.Reconcile(ctx, reconcile.Request{NamespacedName: key}) })
	for _, e := range w.ers {
		name := e.Name
		run(func() {
			_, _ = ersRec.Reconcile(ctx, reconcile.Request{NamespacedName: types.NamespacedName{Namespace: testNS, Name: name}})
		})
		// a second worker on the same replica set (controller-runtime never does this for one key, but
		// two different keys do run concurrently; this stresses the shared reconciler state)
	}
	for _, s := range w.settings {
		name, ns := s.Name, s.Namespace
		run(func() {
			_, _ = setRec.Reconcile(ctx, reconcile.Request{NamespacedName: types.NamespacedName{Namespace: ns, Name: name}})
		})
	}
	// kubelet: mark pods ready / running
	run(func() {
		pl := &corev1.PodList{}
		if err := cl.List(ctx, pl); err != nil {
			return
		}
		for k := range pl.Items {
			pd := &pl.Items[k]
			pd.Status.Phase = corev1.PodRunning
			pd.Status.Conditions = []corev1.PodCondition{readyCond(true, time.Now())}
			_ = cl.Status().Update(ctx, pd)
		}
	})
	wg.Wait()
	return &Case{Fn: "concurrent_reconcile", In: map[string]interface{}{"ers": len(w.ers), "settings": len(w.settings), "faults": failEvery},
		Out: map[string]interface{}{"panics": panics}, Cat: []string{fmt.Sprintf("faults:%v", failEvery), fmt.Sprintf("ers:%d", len(w.ers))}}
}
