// verifharness: correspondence harness for the Lean model of DataDog/extendeddaemonset.
//
//	harness stream <name> -seed S -n N [-from I]   one JSON line per case on stdout
//	harness list                                    names of all streams
//
// Every case i of a stream is generated from rand.NewSource(mix(seed, i)) alone, so a single case
// can be regenerated (replayed) from (stream, seed, i).
package main

import (
	"bufio"
	"encoding/json"
	"flag"
	"fmt"
	"os"
	"sort"

	"verifharness/streams"
)

func main() {
	if len(os.Args) < 2 {
		fmt.Fprintln(os.Stderr, "usage: harness stream <name> -seed S -n N | harness list")
		os.Exit(2)
	}
	switch os.Args[1] {
	case "list":
		var names []string
		for n := range streams.Registry {
			names = append(names, n)
		}
		sort.Strings(names)
		for _, n := range names {
			fmt.Println(n)
		}
	case "stream":
		if len(os.Args) < 3 {
			os.Exit(2)
		}
		name := os.Args[2]
		fs := flag.NewFlagSet("stream", flag.ExitOnError)
		seed := fs.Int64("seed", 1, "seed")
		n := fs.Int("n", 100, "number of cases")
		from := fs.Int("from", 0, "first case index")
		tier := fs.String("tier", "quick", "quick|thorough")
		_ = fs.Parse(os.Args[3:])
		st, ok := streams.Registry[name]
		if !ok {
			fmt.Fprintf(os.Stderr, "unknown stream %s\n", name)
			os.Exit(2)
		}
		w := bufio.NewWriterSize(os.Stdout, 1<<20)
		defer w.Flush()
		enc := json.NewEncoder(w)
		enc.SetEscapeHTML(false)
		for i := *from; i < *from+*n; i++ {
			c := streams.RunCase(st, *seed, i, *tier)
			if c == nil {
				continue
			}
			if err := enc.Encode(c); err != nil {
				fmt.Fprintf(os.Stderr, "encode: %v\n", err)
				os.Exit(2)
			}
		}
	default:
		os.Exit(2)
	}
}
