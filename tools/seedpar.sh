#!/bin/sh
# usage: seedpar.sh <patch.diff> <Cxx> [more properties...]   (env TIER=quick|thorough)
# Like seedtest.sh, but isolated: a private copy of /verif (working tree as it is now) and a scratch
# git worktree of /repo with the patch applied, so several seeds can be tested at once and /repo is
# never touched.  Everything is removed afterwards.
patch="$1"; shift
id=$(basename "$(dirname "$patch")")-$$
W=/tmp/seedrun/$id
rm -rf "$W"; mkdir -p "$W"
trap 'git -C /repo worktree remove --force "$W/repo" >/dev/null 2>&1; rm -rf "$W"' EXIT
git -C /repo worktree add -q --detach "$W/repo" HEAD || exit 2
git -C "$W/repo" apply "$patch" || { echo "patch does not apply"; exit 2; }
rsync -a --exclude .git --exclude .build --exclude replays --exclude evidence --exclude seeded /verif/ "$W/verif/"
mkdir -p "$W/verif/.build" "$W/ev"
sed -i "s#=> /repo#=> $W/repo#" "$W/verif/harness/go.mod"
export VERIF_REPO="$W/repo" VERIF_EVIDENCE_DIR="$W/ev" GOCACHE=/verif/.build/gocache
cd "$W/verif"
for p in "$@"; do
  out=$(./check "$p" --tier "${TIER:-quick}" 2>&1); rc=$?
  echo "$p rc=$rc | $(echo "$out" | grep '^VIOLATION' | head -2 | tr '\n' ' ') | $(echo "$out" | tail -1)"
  for r in $(echo "$out" | grep '^VIOLATION' | sed 's/.*replay=\([^ ]*\).*/\1/' | head -1); do
    [ -f "$r" ] && python3 -c "
import json,sys
try:
    d=json.load(open('$r')); print('   replay:', json.dumps({k:d[k] for k in d if k in ('clauses','stream','what','tokens','violated','theorem')})[:600])
except Exception as e: print('   replay unreadable', e)"
  done
done
