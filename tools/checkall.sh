#!/bin/sh
# run every claimed check (quick tier) and summarise
cd "$(dirname "$0")/.."
for p in $(python3 -c "import json;print(' '.join(c['property_id'] for c in json.load(open('MANIFEST.json'))['checks']))"); do
  out=$(./check $p --tier ${1:-quick} 2>&1); rc=$?
  echo "$p rc=$rc $(echo "$out" | grep -c '^VIOLATION') violation(s) $(echo "$out" | grep -c '^KNOWN-FINDING') known | $(echo "$out" | tail -1)"
done
