#!/bin/sh
# run every stored seeded change against the check of the property it targets (quick tier) and
# report whether it is caught with a concrete replay, caught as no-failing-input-found, or missed.
cd "$(dirname "$0")/.."
for d in seeded/*/; do
  id=$(basename $d)
  [ -f $d/patch.diff ] || continue
  prop=$(python3 -c "import json;print(json.load(open('$d/meta.json'))['breaks'].split()[0])")
  out=$(tools/seedtest.sh /verif/$d/patch.diff $prop 2>&1 | tail -1)
  case "$out" in
    *no-failing-input-found*) v=WEAK ;;
    *VIOLATION*) v=CAUGHT ;;
    *) v=MISSED ;;
  esac
  echo "$id $prop $v | $out"
done
