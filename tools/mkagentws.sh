#!/bin/sh
# usage: mkagentws.sh <name> — private copy of the Lean project for a sub-agent (under /tmp/agents)
set -e
d=/tmp/agents/$1
rm -rf "$d"; mkdir -p "$d"
cp -r /verif/lean "$d/lean"
echo "$d/lean"
