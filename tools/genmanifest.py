#!/usr/bin/env python3
"""Regenerates /verif/MANIFEST.json from props.py (claimed checks) — run after editing props.py."""
import json, os, subprocess, sys
ROOT = os.path.dirname(os.path.dirname(os.path.abspath(__file__)))
sys.path.insert(0, ROOT)
from props import PROPS, NOT_APPLICABLE, HOOK_COMMITS

def entry(pid, cfg):
    return {
        "property_id": pid,
        "quick_cmd": f"./check {pid} --tier quick",
        "thorough_cmd": f"./check {pid} --tier thorough",
        "evidence_file": f"evidence/{pid}.json",
        "replay_cmd_template": f"./check {pid} --replay {{path}}",
        "engine": "lean-proofs",
        "level_claimed": {"category": "proof", "text": cfg["level_text"], "design_ref": f"DESIGN.md §9 {pid}"},
        "level_note": cfg["level_note"],
        "technique": cfg.get("technique", "Lean 4 proof over an executable model + differential correspondence with the real code"),
    }

claimed = sorted(p for p in PROPS if PROPS[p].get("level_text"))
m = {
    "version": 1,
    "setup_cmd": "./setup.sh",
    "hooks": {
        "guard": "verif",
        "enable": "go build -tags verif (harness module /verif/harness with replace => /repo; hook files are *_verif.go guarded by //go:build verif)",
        "baseline_off_cmd": "./baseline_off.sh",
        "source_commits": HOOK_COMMITS,
        "add_only": True,
    },
    "engines": [
        {"name": "lean-proofs", "path": "lean", "serves_properties": claimed,
         "kind_free_text": "Lean 4 model (EdsModel), specification predicates (EdsSpec), property theorems (EdsProps), helper lemmas (EdsProofs); kernel-checked, axioms audited per theorem"},
        {"name": "extract", "path": "tools/extract", "serves_properties": claimed,
         "kind_free_text": "go/ast translator (limits.go -> Lean) and fact extractor (constants, tables, list sites, goroutine writes, plugin writes), regenerated from /repo on every run"},
        {"name": "correspondence", "path": "harness", "serves_properties": claimed,
         "kind_free_text": "Go harness running the real functions / reconcilers (-tags verif) + compiled Lean driver recomputing every output with the model (DIFF) and evaluating the theorems' specification predicates on the implementation's output (SPEC)"},
    ],
    "checks": [entry(p, PROPS[p]) for p in claimed],
    "not_applicable": NOT_APPLICABLE,
    "notes": "One entry point: ./check Cxx [--tier quick|thorough] [--replay file]. Known findings: known_findings.txt. Design: DESIGN.md.",
}
json.dump(m, open(os.path.join(ROOT, "MANIFEST.json"), "w"), indent=1)
print("claimed:", claimed)
