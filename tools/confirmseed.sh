#!/bin/sh
# usage: confirmseed.sh <Cxx> <id> <pkgdir> <TestRegex>
# confirms a seeded change delivered in ${SEEDROOT:-/tmp/seed}/<Cxx>/_seed: demo passes on the original code,
# fails with the patch, existing tests still pass with the patch; then stores it in /verif/seeded/<id>.
P=$1; ID=$2; PKG=$3; T=$4
W=${SEEDROOT:-/tmp/seed}/$P
export GOPROXY=off GOSUMDB=off GOTOOLCHAIN=local
cd $W || exit 2
git checkout -q -- . ; git clean -fdq -e _seed -e TASK.md
for f in _seed/${DEMO:-*_test.go}; do cp "$f" "$PKG/zz_seed_$(basename $f)"; done
orig=$(go test ${RACE:+-race} -vet=off -count=1 -run "$T" ./$PKG/ 2>&1 | tail -3); echo "ORIGINAL: $orig" | tail -2
git apply _seed/patch.diff || { echo "PATCH DOES NOT APPLY"; exit 2; }
mut=$(go test ${RACE:+-race} -vet=off -count=1 -run "$T" ./$PKG/ 2>&1 | tail -4); echo "MUTATED: $mut" | tail -3
rm -f $PKG/zz_seed_*
build=$(go build ./... 2>&1 | tail -2; (cd api && go build ./... 2>&1 | tail -2))
suite=$(go test -vet=off -count=1 ./api/... ./pkg/... ./controllers/extendeddaemonset/... ./controllers/extendeddaemonsetreplicaset/... ./controllers/extendeddaemonsetsetting/... ./controllers/podtemplate/... ./cmd/... 2>&1 | grep -v "no test files" | grep -v "^ok" | head -5; (cd api && go test -vet=off -count=1 ./... 2>&1 | grep -v "no test files" | grep -v "^ok" | head -3))
echo "BUILD: [$build] SUITE-NON-OK: [$suite]"
git checkout -q -- . ; git clean -fdq -e _seed -e TASK.md
mkdir -p /verif/seeded/$ID && cp _seed/* /verif/seeded/$ID/
echo "stored /verif/seeded/$ID"
