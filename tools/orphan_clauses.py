#!/usr/bin/env python3
"""Audit: every specification clause "Cxx.<name>" emitted by a driver handler must be attributed to
a property that runs the handler's stream (directly or as a scenario step), or adopted by one that
does.  Prints ORPHAN lines and exits 1 if any."""
import os, re, sys
sys.path.insert(0, os.path.join(os.path.dirname(__file__), ".."))
import props
src = open(os.path.join(os.path.dirname(__file__), "..", "lean", "Driver", "Handlers.lean")).read()
defs = re.split(r'\ndef (h[A-Za-z]+)', src)
hcl = {defs[i]: sorted(set(re.findall(r'"(C\d\d)\.', defs[i + 1]))) for i in range(1, len(defs), 2)}
stream2h = dict(re.findall(r'\("([a-z_]+)", (h[A-Za-z]+)\)', src))
steps = ['eds_reconcile', 'ers_reconcile']
bad = 0
for st, h in sorted(stream2h.items()):
    for P in hcl.get(h, []):
        owners = [P] + [q for q, c in props.PROPS.items() if P in c.get("adopt", [])]
        ok = False
        for q in owners:
            ss = [s[0] for s in props.PROPS[q]['streams']]
            if st in ss or (st in steps and ('scenario' in ss or 'scenario_faults' in ss)):
                ok = True
        if not ok:
            print("ORPHAN", P, "clause in stream", st)
            bad = 1
sys.exit(bad)
