#!/bin/sh
# usage: seedtest.sh <patch.diff> <Cxx> [more properties...]   (env TIER=quick|thorough)
# applies the patch to /repo, runs the checks of the given properties, undoes the patch.
patch="$1"; shift
cd /repo || exit 2
if ! git diff --quiet; then echo "/repo has local changes"; exit 2; fi
git apply "$patch" || { echo "patch does not apply"; exit 2; }
trap 'git -C /repo checkout -- . ; git -C /repo clean -fdq -- controllers pkg api cmd 2>/dev/null' EXIT
cd /verif
export VERIF_EVIDENCE_DIR=/verif/.build/seed-evidence
for p in "$@"; do
  out=$(./check "$p" --tier "${TIER:-quick}" 2>&1); rc=$?
  echo "$p rc=$rc | $(echo "$out" | grep '^VIOLATION' | head -2 | tr '\n' ' ') | $(echo "$out" | tail -1)"
done
