#!/usr/bin/env python3
"""seedmeta.py <results-dir> — writes seeded/<id>/meta.json for the seeds listed in INFO from the result
lines of tools/seedpar.sh (one file <id>.txt per seed in <results-dir>)."""
import json, os, re, sys
ROOT = os.path.dirname(os.path.dirname(os.path.abspath(__file__)))
INFO = {
 # sixth wave (-f)
 "C01-f": ("node fitness memoised per (replica set, node, node.metadata.generation) in the reconciler", "state carried from one reconcile to the next by the same process: a node tainted / relabelled after the process first looked at it", ""),
 "C03-f": ("percentage maxUnavailable resolved against the listed nodes instead of the targeted ones", "percentage maxUnavailable and listed nodes that are not targeted (unfit or canary nodes)", ""),
 "C04-f": ("a paused or failed canary returns before the canary-label pass", "canary paused at the reconcile following the creation of the canary pod", "MISSED as no-failing-input-found (DIFF labelAdds, 860 s) -> clause C04.label-on (theorem C04_label_on evaluated on the real sync, paused / failed canaries included)"),
 "C05-f": ("spec validation hoisted into the defaulting branch (defaulted => validated)", "a defaulted spec edited into an invalid one (manual validation + duration) and a canary older than the duration", "no-failing-input-found (370 s) -> generator class invalid-spec:manual-with-duration in eds_reconcile; C05.status-active fires"),
 "C08-f": ("pause / freeze also read from the replica set's own annotations (a snapshot of the ExtendedDaemonSet's at creation)", "replica set created while the annotation was set, annotation removed later", "no-failing-input-found (580 s) -> replica sets carry old switch annotations in manage_deployment / ers_reconcile; C08.flags, C08.sync-flags, theorem C08_sync_ers_annotations_irrelevant; C08 runs ers_reconcile"),
 "C09-f": ("LastFullSync throttle moved below the strategy call, whose clean-up deletes pods", "clean-up deletions (duplicates, ineligible nodes) inside a throttled period", ""),
 "C10-f": ("node-override hash memoised per Node name + resourceVersion, forgetting which ExtendedDaemonSet it was computed for", "two ExtendedDaemonSets with different overrides on one node, synced by the same process", "MISSED -> node overrides and neighbour-synced-first cases in ers_reconcile; clause C10.sync-no-spurious-replace (theorem C10_sync_no_spurious_replace)"),
 "C11-f": ("process-local memo of submitted replica sets, not cleared when Create is rejected", "rejected Create of the replica set, then failure-free reconciles by the same process", ""),
 "C12-f": ("memo of created replica sets keyed by ExtendedDaemonSet name only", "same name in two namespaces reconciled by the same process shortly after a creation", "no-failing-input-found (330 s) -> neighbour-reconciled-first cases in eds_reconcile; clause C12.no-adoption (theorem C12_no_adoption)"),
 "C13-f": ("PodTemplate reconciler memoises the synced template hash even when the sync failed", "failed PodTemplate write followed by reconciles of the same process", ""),
 "C15-f": ("status write retried on conflict with a refreshed resourceVersion", "stale read of the ExtendedDaemonSet + ranking of candidate nodes changed meanwhile + 409", "MISSED -> directed class stale-canary-selection in eds_reconcile (pods restarted between the stored decision and the stale reconcile); clauses C15.selection-kept-on-stale-read / C11.stale-write-refused"),
 "C17-f": ("conflict on the replica-set status write swallowed", "failed pod write + 409 on the status write of the same sync", ""),
 "C18-f": ("parsed node selector of a setting memoised by setting name", "selector of a setting edited between two syncs of the same process", ""),
 "C20-f": ("canary_paused gauge is 1 whenever the Canary-Paused condition exists", "paused then unpaused canary (condition False)", "no-failing-input-found -> Spec.C20.edsGauges covers every family incl. canary_paused; theorems C20_eds_gauges, C20_canary_paused_needs_true"),
 # seventh wave (-g)
 "C01-g": ("pod Create retried in place on transient API errors", "a Create the API server committed but answered with a transient error", ""),
 "C02-g": ("pause / freeze also read from the managed replica set (same kind as C08-f, found independently for C02)", "annotation set, template changed while set, annotation removed", ""),
 "C03-g": ("unavailable-first ordering replaced by a hand-rolled partial partition", ">= 2 outdated unavailable pods next to available ones and a budget that does not cover all; map order", ""),
 "C04-g": ("canary nodes subtracted twice from the node count of the rolling-update budget", "canary in progress + a regular node lacking a pod", "no-failing-input-found (940 s) -> clause C04.active-serves-rest on the real sync"),
 "C05-g": ("unknown-role sync resets Canary-Failed / Canary-Paused (same kind as C07-b, found independently for C05)", "failed replica set synced once in the unknown role before the spec restore lands or the template is re-applied", "no-failing-input-found (410 s) -> C05 runs ers_reconcile and adopts C07.failed-mark-kept"),
 "C06-g": ("pods of the previous generation on canary nodes take part in the failure evaluation", "old-generation pod with many restarts still on a canary node", ""),
 "C07-g": ("failed guard of selectCurrentReplicaSet reads the active replica set (same kind as C05-b)", "failure at or after the end of the canary duration", ""),
 "C08-g": ("update-deletion guard reads the stored Active condition instead of the fresh flags", "annotation toggled between two reconciles of a running rollout", ""),
 "C09-g": ("outdated-unavailable pods added after the deletion budget is clamped (limits.go)", "more unready outdated pods than maxUnavailable", "no-failing-input-found (355 s; the regenerated kernel was not an obligation of C09) -> C03_kernel_is_source is an obligation of C09; clauses C09.deleteCap / C09.delete-bound"),
 "C10-g": ("default DaemonSet tolerations skipped when the template has a toleration with the same key", "template toleration sharing a key with a default but differing otherwise", "MISSED -> template tolerations drawn from the default keys; C10.meta"),
 "C11-g": ("a failed canary's not-ready pods are deleted before the verdict is stored", "auto-fail on crash-looping pods + status write of that sync lost", "no-failing-input-found (1480 s) -> corpus scenario canary-autofail-and-rollback (the corpus only had the operator's `canary fail`); C11.same-fixpoint"),
 "C12-g": ("pod builder keeps a namespace set in the pod template", "spec.template.metadata.namespace naming another namespace", "MISSED -> templates carrying metadata.namespace / generateName in ers_reconcile and create_pod; C12.writes-owned, C10.api-pinned-meta"),
 "C13-g": ("a failed replica set past its retention is no longer recognised as up to date", "failed canary, > 2 min, same template applied again", ""),
 "C14-g": ("replica-set scan stops once active and up-to-date are found (counters no longer sums)", "a third replica set with pods listed after the two", ""),
 "C15-g": ("targeted-node count falls back to status.desired when its listing fails", "percentage replicas + inflated status.desired + the 2nd List of the reconcile failing", "MISSED -> read faults (k-th List fails) in eds_reconcile, directed class percent-canary-read-fault; safety clauses judged on faulted reads"),
 "C16-g": ("clamp order swapped in the creation limit: negative count -> slice bounds panic", "negative maxParallelPodCreation / slowStartAdditiveIncrease", "no-failing-input-found (490 s; broken bridge only) -> negative values in the rolling-update lattice; C16.reconcile-no-crash(ERS)"),
 "C17-g": ("one package-level MD5 digest shared by every hash computation", ">= 2 pods of one batch created on nodes with override annotations, or concurrent controllers", ""),
 "C18-g": ("conflict search pre-filters by creation time only (ties dropped on both sides)", "overlapping settings with identical creationTimestamp", ""),
 "C19-g": ("canary unpause refuses when the canary-paused annotation is absent", "canary paused by the controller itself (condition on the replica set, no annotation)", "no-failing-input-found (440 s) -> Spec.C19.mustAct / clause C19.acts-when-applicable, theorem C19_acts_when_applicable"),
 "C20-g": ("label keys and values sorted independently", "two keys whose order swaps under sanitising", ""),
 # eighth wave (-h); C04 and C11 re-invented C15-g (seeded/duplicates-wave8.json)
 "C02-h": ("node fitness cached per (replica set, node) in the replica-set reconciler", "same long-lived reconciler; a node's taints / labels change after it was first looked at", ""),
 "C05-h": ("IsCanaryDeploymentEnded: the noRestartsDuration remainder overwrites the duration remainder (max lost)", "auto mode, noRestartsDuration < duration, a recorded restart, quiet period over before the duration", ""),
 "C09-h": ("slow-start reference falls back to the replica set's creation time when no Active condition is stored", "replica set promoted after a canary phase, older than one interval, more empty nodes than the increase", ""),
 "C10-h": ("a failed List of the settings is logged and the sync continues with no settings", "settings List failing in a sync that creates a pod on a node selected by a valid setting", "MISSED -> read faults in ers_reconcile (k-th List, or the first List of a kind, fails; only safety clauses judged), directed class settings:directed-valid-selecting, clause C10.api-resources"),
 "C12-h": ("replica-set list selector built with validation; on error the label option is dropped", "an ExtendedDaemonSet name longer than 63 characters (no valid label value) + a neighbour in the namespace", "MISSED -> class eds-long-name in eds_reconcile; C12.no-adoption / C12.writes-owned"),
 "C15-h": ("manageStatus restarts the canary status when the up-to-date replica set differs from the recorded canary one", "second template change during a canary after the canary pods restarted", "no-failing-input-found -> clause C15.keep(reconcile) on every real Reconcile"),
 "C16-h": ("canary duration defaults guarded by the controller-level default mode instead of the spec's mode", "explicit validationMode differing from the controller's default, no durations set", ""),
 # ninth wave (-i)
 "C01-i": ("ReplaceNodeNameNodeAffinity overwrites a metadata.name requirement only when its operator is In (a NotIn exclusion is kept, the pin appended after it; the read-back returns the excluded name)", "affinity mode, a template excluding a node by name (matchFields metadata.name NotIn), an unscheduled pod at the next sync", "MISSED -> rich / name-excluding templates in ers_reconcile, every generated pod records the node it was built for, clause C01.api-no-second-pod-for-node"),
 "C03-i": ("a failed lookup of the old DaemonSet's pods falls back on the list remembered from the previous sync", "migration annotation + adopted pods + a first sync that spends the budget + a failed Get of the DaemonSet in the next sync of the same process", "MISSED -> second-sync cases in ers_reconcile (the same reconciler syncs the same world twice, the second time with the DaemonSet unreadable); C03.holds(sync level) judged under read faults"),
 "C06-i": ("autoFail.maxRestarts clamped up to autoPause.maxRestarts even when auto-pause is disabled", "auto-pause disabled, auto-fail enabled with a lower threshold, restart count in between", ""),
 "C07-i": ("shouldDeleteERS returns as soon as the failed replica set's grace period is over (zero-pod test skipped)", "failed canary whose pods are still there two minutes later (e.g. rolling update paused)", "no-failing-input-found (550 s; only the C13 clause covered the counters) -> clause C07.failed-deleted-only-drained"),
 "C08-i": ("getDaemonsetOwner reuses the last successfully read ExtendedDaemonSet when the Get fails", "same process, annotation set after the last successful read, failed Get of the parent", "MISSED -> Get faults (parent / old DaemonSet) combined with warm reconcilers whose earlier world had other switches; clauses C11.no-pod-write-without-parent / C08.sync-obeys-current-switches"),
 "C13-i": ("PodTemplate not rewritten when it is not controlled by this ExtendedDaemonSet object (UID)", "ExtendedDaemonSet deleted and re-created under the same name while the PodTemplate survives", ""),
 "C14-i": ("status write decided by a hand-written isStatusEqual that omits upToDate", "stored status differing from the new one in upToDate only (a pod replaced between two reconciles)", "MISSED -> class pod-replaced-between-reconciles, clause C14.status-refreshed"),
 "C17-i": ("pod deletions and creations of one sync run in two goroutines sharing newStatus", "one sync with both deletions and creations", ""),
 "C18-i": ("searchPossibleConflict skips settings with an empty selector (getNodeList still treats it as everything)", "a setting with an empty nodeSelector next to another one", ""),
 "C20-i": ("defaults of the canary gauges hoisted out of the GenerateFunc closure", "families built once (as the controller does), an object with a canary rendered before one without", "MISSED -> the metrics stream builds the families once per process"),
 # tenth wave (-j): prompt excluded memos and read fall-backs, suggested boundaries, arithmetic, unusual pod phases, several containers
 "C01-j": ("a wildcard toleration (empty key, Exists) tolerates every taint whatever its effect", "template with an effect-restricted wildcard toleration + node tainted with the other effect", ""),
 "C03-j": ("percentages resolved as ceil((p/100) * n) in floating point: overshoots by one when p*n/100 is an exact integer", "percentage maxUnavailable and a node count that is a multiple of 25 (7% of 100, 28% of 25, 14% of 50)", "MISSED (quick tier never had 25+ nodes) -> class of node counts 25 / 50 / 100 with percentages whose product is an exact integer; C03.holds"),
 "C08-j": ("an outdated pod unscheduled for more than 10 minutes is appended to the clean-up list, which ignores pause / freeze", "pause or freeze + an old Pending outdated pod bound by affinity only", ""),
 "C10-j": ("overwriteResourcesFromNode returns at the first undecodable node annotation", "two containers, malformed annotation for an earlier one, well-formed for a later one", ""),
 "C12-j": ("pod labels built with labels.Merge(stamped, template): a template label overrides the stamped name label", "a template cloned from a pod of another ExtendedDaemonSet (carries its name label)", ""),
 "C13-j": ("newReplicaSetFromInstance copies only labels, annotations and spec of the template (other ObjectMeta dropped, hash from the full template)", "template metadata with finalizers / ownerReferences", "MISSED -> templates with further ObjectMeta fields in eds_reconcile; clause C13.created-template-hashes-to-its-generation"),
 "C14-j": ("scheduler-issue guard hoisted above desiredPods++ (stuck nodes drop out of status.desired)", "a daemon pod unscheduled for more than 10 minutes or terminating past its grace period", ""),
 "C15-j": ("selectNodes guard `<` became `!=`: a list longer than requested gets every remaining fit node appended", "percentage replicas and nodes leaving during a canary, or replicas lowered", ""),
 "C19-j": ("manual unpause applied once before the per-pod loop (its switch arm removed): an unpaused canary is re-paused by the auto-pause arm", "auto-paused canary with a lasting reason, then `canary unpause`", "MISSED (C19 did not run the stream that evaluates the canary) -> C19 runs manage_canary; C08.canary-resumes-on-unpause / C06.paused-iff"),
 "C20-j": ("labels literally called name / namespace skipped from the keys but values still read by position", "a label called name or namespace plus one sorting after it", "MISSED -> name / namespace / Name in the label-key alphabet; C20.pairs"),
 # eleventh wave (-k); C11 re-invented C07-b / C05-g (seeded/duplicates-wave11.json)
 "C02-k": ("the node-override decode error is now returned by the pod builder and createPods returns early on it", "an eligible node with a malformed resources-override annotation that needs a pod", ""),
 "C04-k": ("Failed-pod replacement hoisted before the ignoreNodes test in FilterAndMapPodsByNode", "a Failed pod on a canary node while the active replica set syncs", ""),
 "C05-k": ("replica-set list selector built from ALL current labels of the ExtendedDaemonSet", "a metadata label of the ExtendedDaemonSet changed after the active replica set was created", ""),
 "C06-k": ("HighestRestartCount skips containers whose lastState has no Terminated record", "highest restart count on a container with an empty lastState", ""),
 "C07-k": ("clean-up no longer protects the up-to-date replica set when it is Canary-Failed", "rollback interrupted between its two writes, > 2 min, failed replica set drained", "no-failing-input-found (506 s) -> clause C07.rollback-keeps-uptodate"),
 "C09-k": ("cap check on int32(result): the ramp wraps once it reaches 2^31", "replica set active for months, short interval, large increase", "no-failing-input-found (346 s) -> max_creation cases with a months-old Active condition; C09.ramp"),
 "C16-k": ("validation returns early when auto-fail is disabled (manual-mode checks behind it)", "manual mode + duration + autoFail.enabled=false", "no-failing-input-found (333 s; only the broken src_validateSpec bridge) -> clause C16.validate-rejects-manual-durations"),
 "C17-k": ("canary clean-up records PodsCleanupDone on params.NewStatus instead of result.NewStatus", "canary role, non-empty clean-up list, a failing Delete", ""),
 "C18-k": ("label-only selectors converted with labels.SelectorFromSet (no validation)", "a selector unusable through an invalid label value / key, no expressions", "MISSED -> label-only unusable selectors in the settings generator; C18.no-reference-or-bad-selector-in-error"),
 "C19-h": ("rolling-update pause / freeze guard reads status.state == Canary instead of status.canary", "a paused canary (state Canary Paused) or a state string not yet refreshed", "MISSED -> the cli generator draws the state string independently of status.canary; C19.refuses-without-precondition"),
}
def main():
    res = sys.argv[1]
    for sid, (summary, needs, strengthened) in INFO.items():
        d = os.path.join(ROOT, "seeded", sid)
        if not os.path.isdir(d):
            continue
        prop = sid.split("-")[0]
        det = "not run"
        f = os.path.join(res, sid + ".txt")
        if not os.path.exists(f) and os.path.exists(os.path.join(d, "meta.json")):
            continue  # keep the recorded result
        if os.path.exists(f):
            line = [l for l in open(f) if l.startswith(prop + " rc=")]
            if line:
                l = line[-1]
                m = re.search(r"replay=\S*/replays/(\S+)", l)
                t = re.search(r"([\d.]+)s\s*$", l.strip())
                if "no-failing-input-found" in l:
                    det = "quick: VIOLATION no-failing-input-found"
                elif "VIOLATION" in l:
                    det = f"quick: VIOLATION with concrete replay ({m.group(1) if m else '?'}), {t.group(1) if t else '?'} s"
                else:
                    det = "quick: MISSED"
        meta = {"id": sid, "breaks": prop, "summary": summary, "needs": needs, "detected_by": {prop: det},
                "what_was_run": "confirmed in a scratch worktree with tools/confirmseed.sh (demo passes on the original code, fails with the patch; go build ./... of both modules and the pinned suite pass with the patch); then tools/seedpar.sh <patch> <property> (private copy of /verif, scratch worktree of /repo with the patch, ./check <id> --tier quick)",
                "files": sorted(os.listdir(d))}
        if strengthened:
            meta["first_result_and_strengthening"] = strengthened
        json.dump(meta, open(os.path.join(d, "meta.json"), "w"), indent=1)
        print(sid, det)
main()
