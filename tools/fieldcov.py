#!/usr/bin/env python3
"""Input-field coverage of a stream: for every JSON path of the case inputs (arrays flattened), the
number of distinct values seen.  Paths with a single value are blind spots of the generator.
usage: fieldcov.py <stream> [n] [seed]"""
import collections, json, subprocess, sys, os
stream = sys.argv[1]; n = sys.argv[2] if len(sys.argv) > 2 else "1500"; seed = sys.argv[3] if len(sys.argv) > 3 else "1"
exe = os.path.join(os.path.dirname(__file__), "..", ".build", "harness")
out = subprocess.run([exe, "stream", stream, "-seed", seed, "-n", n, "-from", "0", "-tier", "quick"], capture_output=True, text=True).stdout
vals = collections.defaultdict(set)
def walk(path, v, depth=0):
    if isinstance(v, dict):
        if set(v.keys()) == {"k", "v"}:
            vals[path + "{" + str(v["k"]) + "}"].add(str(v["v"])); return
        for k, x in v.items(): walk(path + "." + k, x, depth + 1)
    elif isinstance(v, list):
        vals[path + "#len"].add(len(v))
        for x in v: walk(path + "[]", x, depth + 1)
    else:
        vals[path].add(json.dumps(v))
cases = 0
for line in out.splitlines():
    try: j = json.loads(line)
    except Exception: continue
    cases += 1
    inp = j.get("in")
    if j.get("fn") == "scenario":
        for st in j["out"]["steps"]: walk(st["fn"], st["in"])
    else:
        walk("", inp)
print(f"{stream}: {cases} cases, {len(vals)} paths")
for p in sorted(vals):
    if len(vals[p]) == 1:
        print("  CONSTANT", p, "=", str(next(iter(vals[p])))[:60])
