module verifextract

go 1.22
