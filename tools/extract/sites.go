package main

import (
	"fmt"
	"go/ast"
	"go/token"
	"os"
	"path/filepath"
	"sort"
	"strings"
)

// ---------------------------------------------------------------------------------------------
// list sites (C12)

type listSite struct {
	File, Func, Kind string
	Namespaced       bool
	Labelled         bool
}

func controllerFiles(repo string) []string {
	var out []string
	for _, dir := range []string{"controllers/extendeddaemonset", "controllers/extendeddaemonsetreplicaset", "controllers/extendeddaemonsetreplicaset/strategy", "controllers/extendeddaemonsetsetting", "controllers/podtemplate"} {
		ents, err := os.ReadDir(filepath.Join(repo, dir))
		if err != nil {
			die("%v", err)
		}
		for _, e := range ents {
			n := e.Name()
			if e.IsDir() || !strings.HasSuffix(n, ".go") || strings.HasSuffix(n, "_test.go") || strings.HasSuffix(n, "_verif.go") {
				continue
			}
			out = append(out, filepath.Join(dir, n))
		}
	}
	sort.Strings(out)
	return out
}

func exprMentions(e ast.Node, pred func(ast.Node) bool) bool {
	found := false
	ast.Inspect(e, func(n ast.Node) bool {
		if n != nil && pred(n) {
			found = true
		}
		return !found
	})
	return found
}

func isNamespaceOption(n ast.Node) bool {
	switch x := n.(type) {
	case *ast.CallExpr:
		if sel, ok := x.Fun.(*ast.SelectorExpr); ok && sel.Sel.Name == "InNamespace" {
			return true
		}
	case *ast.CompositeLit:
		if sel, ok := x.Type.(*ast.SelectorExpr); ok && sel.Sel.Name == "ListOptions" {
			for _, el := range x.Elts {
				if kv, ok := el.(*ast.KeyValueExpr); ok {
					if k, ok := kv.Key.(*ast.Ident); ok && k.Name == "Namespace" {
						return true
					}
				}
			}
		}
	}
	return false
}

func isLabelOption(n ast.Node) bool {
	switch x := n.(type) {
	case *ast.CompositeLit:
		if sel, ok := x.Type.(*ast.SelectorExpr); ok && (sel.Sel.Name == "MatchingLabels" || sel.Sel.Name == "MatchingLabelsSelector") {
			return true
		}
	}
	return false
}

// all expressions assigned/appended to the identifier `name` inside fn
func assignedTo(fn *ast.FuncDecl, name string) []ast.Expr {
	var out []ast.Expr
	ast.Inspect(fn.Body, func(n ast.Node) bool {
		switch s := n.(type) {
		case *ast.AssignStmt:
			for i, l := range s.Lhs {
				if id, ok := l.(*ast.Ident); ok && id.Name == name && i < len(s.Rhs) {
					out = append(out, s.Rhs[i])
				}
			}
		case *ast.ValueSpec:
			for i, id := range s.Names {
				if id.Name == name && i < len(s.Values) {
					out = append(out, s.Values[i])
				}
			}
		}
		return true
	})
	return out
}

func listKind(fn *ast.FuncDecl, arg ast.Expr) string {
	typeOf := func(e ast.Expr) string {
		if u, ok := e.(*ast.UnaryExpr); ok {
			e = u.X
		}
		if cl, ok := e.(*ast.CompositeLit); ok {
			switch t := cl.Type.(type) {
			case *ast.SelectorExpr:
				return t.Sel.Name
			case *ast.Ident:
				return t.Name
			}
		}
		return ""
	}
	if k := typeOf(arg); k != "" {
		return k
	}
	if id, ok := arg.(*ast.Ident); ok {
		for _, e := range assignedTo(fn, id.Name) {
			if k := typeOf(e); k != "" {
				return k
			}
		}
	}
	return "?"
}

func genListSites(repo string, w *factWriter) {
	var sites []listSite
	for _, rel := range controllerFiles(repo) {
		f := parse(filepath.Join(repo, rel))
		for _, d := range f.Decls {
			fn, ok := d.(*ast.FuncDecl)
			if !ok || fn.Body == nil {
				continue
			}
			ast.Inspect(fn.Body, func(n ast.Node) bool {
				call, ok := n.(*ast.CallExpr)
				if !ok || len(call.Args) < 2 {
					return true
				}
				sel, ok := call.Fun.(*ast.SelectorExpr)
				if !ok || sel.Sel.Name != "List" {
					return true
				}
				// receiver must be (something.)client
				recv := ""
				switch r := sel.X.(type) {
				case *ast.Ident:
					recv = r.Name
				case *ast.SelectorExpr:
					recv = r.Sel.Name
				}
				if recv != "client" && recv != "c" {
					return true
				}
				s := listSite{File: rel, Func: fn.Name.Name, Kind: listKind(fn, call.Args[1])}
				var opts []ast.Expr
				for _, a := range call.Args[2:] {
					opts = append(opts, a)
					if id, ok := a.(*ast.Ident); ok {
						opts = append(opts, assignedTo(fn, id.Name)...)
					}
				}
				for _, o := range opts {
					if exprMentions(o, isNamespaceOption) {
						s.Namespaced = true
					}
					if exprMentions(o, isLabelOption) {
						s.Labelled = true
					}
				}
				sites = append(sites, s)
				return true
			})
		}
	}
	w.sb.WriteString("\n-- client.List call sites: (file, func, listed kind, has a namespace option, has a label option)\n")
	w.sb.WriteString("def listSites : List (String × String × String × Bool × Bool) := [\n")
	for i, s := range sites {
		sep := ","
		if i == len(sites)-1 {
			sep = ""
		}
		fmt.Fprintf(&w.sb, "  (%q, %q, %q, %v, %v)%s\n", s.File, s.Func, s.Kind, s.Namespaced, s.Labelled, sep)
	}
	w.sb.WriteString("]\n")
}

// ---------------------------------------------------------------------------------------------
// goroutine facts (C17): for each `go func` literal, outer variables written inside it and how.

type goFact struct {
	File, Func, Var, How string // How: "chan-send" | "locked-append" | "append" | "assign"
}

func genGoroutineFacts(repo string, w *factWriter) {
	var facts []goFact
	for _, rel := range []string{"controllers/extendeddaemonsetreplicaset/utils.go", "controllers/extendeddaemonsetreplicaset/strategy/utils.go"} {
		f := parse(filepath.Join(repo, rel))
		for _, d := range f.Decls {
			fn, ok := d.(*ast.FuncDecl)
			if !ok || fn.Body == nil {
				continue
			}
			ast.Inspect(fn.Body, func(n ast.Node) bool {
				gs, ok := n.(*ast.GoStmt)
				if !ok {
					return true
				}
				lit, ok := gs.Call.Fun.(*ast.FuncLit)
				if !ok {
					return true
				}
				// names local to the literal
				local := map[string]bool{}
				for _, p := range lit.Type.Params.List {
					for _, nm := range p.Names {
						local[nm.Name] = true
					}
				}
				ast.Inspect(lit.Body, func(m ast.Node) bool {
					if as, ok := m.(*ast.AssignStmt); ok && as.Tok == token.DEFINE {
						for _, l := range as.Lhs {
							if id, ok := l.(*ast.Ident); ok {
								local[id.Name] = true
							}
						}
					}
					return true
				})
				// lock state is tracked linearly over the top-level statements of the literal
				locked := false
				var visit func(stmts []ast.Stmt)
				visit = func(stmts []ast.Stmt) {
					for _, st := range stmts {
						switch s := st.(type) {
						case *ast.ExprStmt:
							if call, ok := s.X.(*ast.CallExpr); ok {
								if sel, ok := call.Fun.(*ast.SelectorExpr); ok {
									if sel.Sel.Name == "Lock" {
										locked = true
									}
									if sel.Sel.Name == "Unlock" {
										locked = false
									}
								}
							}
						case *ast.DeferStmt:
							// defer mu.Unlock() keeps the lock until the end: nothing to do
						case *ast.SendStmt:
							if id, ok := s.Chan.(*ast.Ident); ok && !local[id.Name] {
								facts = append(facts, goFact{rel, fn.Name.Name, id.Name, "chan-send"})
							}
						case *ast.AssignStmt:
							if s.Tok == token.DEFINE {
								continue
							}
							for i, l := range s.Lhs {
								id, ok := l.(*ast.Ident)
								if !ok || local[id.Name] {
									continue
								}
								how := "assign"
								if i < len(s.Rhs) {
									if call, ok := s.Rhs[i].(*ast.CallExpr); ok {
										if fid, ok := call.Fun.(*ast.Ident); ok && fid.Name == "append" {
											how = "append"
										}
									}
								}
								if locked {
									how = "locked-" + how
								}
								facts = append(facts, goFact{rel, fn.Name.Name, id.Name, how})
							}
						case *ast.IfStmt:
							visit(s.Body.List)
							if eb, ok := s.Else.(*ast.BlockStmt); ok {
								visit(eb.List)
							}
						case *ast.BlockStmt:
							visit(s.List)
						case *ast.ForStmt:
							visit(s.Body.List)
						case *ast.RangeStmt:
							visit(s.Body.List)
						}
					}
				}
				visit(lit.Body.List)
				return true
			})
		}
	}
	w.sb.WriteString("\n-- writes to outer variables inside `go func` literals: (file, func, variable, how)\n")
	w.sb.WriteString("def goroutineWrites : List (String × String × String × String) := [\n")
	for i, g := range facts {
		sep := ","
		if i == len(facts)-1 {
			sep = ""
		}
		fmt.Fprintf(&w.sb, "  (%q, %q, %q, %q)%s\n", g.File, g.Func, g.Var, g.How, sep)
	}
	w.sb.WriteString("]\n")
}

// ---------------------------------------------------------------------------------------------
// plugin facts (C19): per run() body, annotation keys written and the client verbs used.

func genPluginFacts(repo string, w *factWriter) {
	cf := fileConsts(parse(filepath.Join(repo, "api/v1alpha1/const.go")))
	type pf struct {
		File  string
		Keys  []string
		Verbs []string
	}
	var rows []pf
	for _, rel := range []string{"pkg/plugin/canary/pause.go", "pkg/plugin/canary/validate.go", "pkg/plugin/canary/fail.go", "pkg/plugin/pause/rollingupdate.go", "pkg/plugin/freeze/rollout.go"} {
		f := parse(filepath.Join(repo, rel))
		fn := findFunc(f, "run")
		if fn == nil {
			die("plugin %s: run() not found", rel)
		}
		keys := map[string]bool{}
		verbs := map[string]bool{}
		ast.Inspect(fn.Body, func(n ast.Node) bool {
			switch s := n.(type) {
			case *ast.AssignStmt:
				for _, l := range s.Lhs {
					if ix, ok := l.(*ast.IndexExpr); ok {
						if sel, ok := ix.Index.(*ast.SelectorExpr); ok {
							if v, ok := cf.strs[sel.Sel.Name]; ok {
								keys[v] = true
							}
						}
					}
				}
			case *ast.CallExpr:
				if sel, ok := s.Fun.(*ast.SelectorExpr); ok {
					switch sel.Sel.Name {
					case "Patch", "Update", "Delete", "Create":
						verb := sel.Sel.Name
						if inner, ok := sel.X.(*ast.CallExpr); ok {
							if isel, ok := inner.Fun.(*ast.SelectorExpr); ok && isel.Sel.Name == "Status" {
								verb = "Status." + verb
							}
						}
						verbs[verb] = true
					}
				}
			}
			return true
		})
		r := pf{File: rel}
		for k := range keys {
			r.Keys = append(r.Keys, k)
		}
		for v := range verbs {
			r.Verbs = append(r.Verbs, v)
		}
		sort.Strings(r.Keys)
		sort.Strings(r.Verbs)
		rows = append(rows, r)
	}
	w.sb.WriteString("\n-- kubectl-eds run() bodies: (file, annotation keys written, client write verbs)\n")
	w.sb.WriteString("def pluginWrites : List (String × List String × List String) := [\n")
	q := func(xs []string) string {
		o := make([]string, len(xs))
		for i, x := range xs {
			o[i] = fmt.Sprintf("%q", x)
		}
		return "[" + strings.Join(o, ", ") + "]"
	}
	for i, r := range rows {
		sep := ","
		if i == len(rows)-1 {
			sep = ""
		}
		fmt.Fprintf(&w.sb, "  (%q, %s, %s)%s\n", r.File, q(r.Keys), q(r.Verbs), sep)
	}
	w.sb.WriteString("]\n")
}
