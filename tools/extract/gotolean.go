package main

// gotolean: a small syntax-directed translator from a subset of Go into Lean 4.
//
// It turns the *decision functions* of the controller (annotation / condition readers, the
// promotion rule, defaulting, validation, the deletion rule of replica sets, the slow-start
// arithmetic) into Lean definitions over the model's own record types
// (EdsModel/Generated/Dec<Group>.lean).  EdsProofs/Bridge<Group>.lean then proves each generated
// definition equal to the hand-written model function the property theorems are stated about, so a
// change to one of these Go functions breaks a proof obligation directly.
//
// Semantics of the translation
//   * every function returns `Option R`: `none` is a Go panic (nil dereference, index out of range,
//     division by zero); multiple results become a tuple;
//   * a pointer type `*T` is `Option T`; every dereference binds in the Option monad, evaluated in
//     Go's order, `&&` / `||` short-circuit;
//   * statements become nested `let` / `if` / `Option.bind`; an `if` whose body falls through joins
//     through a tuple of the variables it assigns, or through a local continuation when the body
//     both returns and falls through;
//   * assignments through a pointer (`c.X = v`, `Default…(c.Sub)`) rebuild the pointee
//     (`some { c_ with x := v }`); `xs[i].F = v` rebuilds the list (Go.setIndex) and assigns it back;
//   * `for i, x := range xs { … }` becomes an auxiliary definition recursing over the list, with the
//     variables the body assigns as accumulator arguments, the statements after the loop as a
//     continuation, early `return` = `some r`, `continue` / falling off the body = the recursive call,
//     `break` = the continuation (see rangeStmt); `switch tag {…}` is an if-chain;
//   * a function without results whose first parameter is a pointer returns that pointer (what the
//     caller sees through it afterwards); in general the pointer parameters a body assigns through
//     (mutatedParams) are returned — alone when the function has no result, after its Go results otherwise;
//   * a loop body that assigns through a pointer carries the pointee (or the pointer) like a conditional join;
//   * a group may call the functions of the groups it depends on (groupDeps): their files are imported, a
//     qualified callee is resolved through the imports of the caller's file; methods take their receiver as
//     first parameter (fnSpec.recv);
//   * a Go map other than map[string]string is an association list `List (κ × ν)`: `m[k]` / `v, ok := m[k]` look the key
//     up with Go's `==` on the key type (keyEq: strings by value, pointer keys by an explicit identity of the pointee —
//     `*NodeItem` by the name of its node; the bridges state when that is pointer identity), `for k, v := range m` iterates
//     the list in the order given (the bridges quantify over every list, i.e. every iteration order);
//   * a single top-level statement of a function that cannot be translated as a whole can be translated on its own
//     (fnSpec.fragment, fragmentDecl): a function of the locals the statement mentions, returning the locals it assigns;
//   * the call `f(a, p, q)` of a function without results that assigns through pointer parameters other than its first
//     is the assignment of what f returns to those arguments (voidCall);
//   * `x.Logger.…(…)` calls are dropped, their receiver and arguments still evaluated for their dereferences;
//   * values without a Lean term are dropped (Ty.dropped): the API client handle, a logger, locals of foreign types the subset
//     does not know (`&corev1.PodList{}`).  What talks to the API server is an opaque, effect-free step whose results are
//     synthetic parameters `apiResN`: a function declared opaque (fnSpec.opaque: only its signature is read), or a statement
//     that uses the client handle (apiStep: a havoc of the paths it syntactically assigns — assumed to return normally and to
//     change nothing else; refused when it declares locals, returns, or passes translated state by reference);
//   * `delete(m, k)` / `len(m)` on association lists, `xs[:n]` (Go.sliceTo), builtin `min`, `time.Since`,
//     `sort.SliceStable(xs, less)` (Go.stableSortBy, the comparator translated as a function of the two elements: sortStable),
//     `a = f(…)` of a function that has Go results and also assigns through pointer parameters (callAssign);
//   * a method with a pointer receiver (`func (r *Reconciler) applyStrategy`): the reconciler has no Lean term, `r.client` is the
//     API client handle; a pointer variable that a branch of a conditional replaces as a whole is joined as the pointer itself
//     (slotsW / wholeAssigned), not by the name of its pointee;
//   * what the model's values do not carry is a synthetic, universally quantified parameter:
//     pointer identity (`samePtr`), nil-ness of an empty slice (`nilSlice`), each `time.Now()` (`wallNowN`; a read of the
//     clock inside a loop is one instant per iteration, `wallNowN : Int → Int` applied to the iteration index; a call of a
//     translated function that reads the clock reads the caller's clock).
// Anything outside the subset makes the translator fail loudly (the tie is then reported broken).

import (
	"fmt"
	"go/ast"
	"go/printer"
	"go/token"
	"os"
	"path/filepath"
	"sort"
	"strconv"
	"strings"
)

// a translation failure is confined to the group of functions being translated
type trErr string

func dieT(format string, a ...interface{}) { panic(trErr(fmt.Sprintf(format, a...))) }

type Ty struct {
	K string // bool int str dur time smap ios ptr struct list map nil unit; api logger opaque (no Lean term, see dropped)
	E *Ty
	N string
	// K == "map": the key type (E is the value type).  A Go map other than map[string]string is an association
	// list `List (κ × ν)` looked up with the key equality of its key type (keyEq)
	Key *Ty
}

// dropped: values that have no Lean term — the API client handle (`client.Client`), a logger (`logr.Logger`), and locals whose
// type is outside the subset (`&corev1.PodList{}`, `[]runtimeclient.ListOption{…}`: "opaque").  Parameters of these types
// are not parameters of the translated function, arguments of these types are not passed; they may only be mentioned by
// logger calls and API steps (apiStep).
func (t Ty) dropped() bool { return t.K == "api" || t.K == "logger" || t.K == "opaque" }

func tBool() Ty { return Ty{K: "bool"} }
func tInt() Ty  { return Ty{K: "int"} }
func tStr() Ty  { return Ty{K: "str"} }
func tDur() Ty  { return Ty{K: "dur"} }
func tTime() Ty { return Ty{K: "time"} }
func tPtr(e Ty) Ty {
	return Ty{K: "ptr", E: &e}
}
func tStruct(n string) Ty { return Ty{K: "struct", N: n} }
func tList(e Ty) Ty       { return Ty{K: "list", E: &e} }
func tMap(k, v Ty) Ty     { return Ty{K: "map", Key: &k, E: &v} }

// keyEq: Go's `==` on the key type of a map, as a Lean function (EdsModel/GoPrelude.lean).  Pointer keys are
// compared by an explicit identity of the pointee: `*NodeItem` by the name of its node.
func keyEq(k Ty, n ast.Node) string {
	switch {
	case k.K == "str":
		return "Go.strKey"
	case k.K == "ptr" && k.E.K == "struct" && k.E.N == "NodeItem":
		return "Go.nodeItemKey"
	}
	dieT("gotolean: no key equality for a map keyed by %+v at %s", k, pos(n))
	return ""
}

func (t Ty) lean() string {
	switch t.K {
	case "bool":
		return "Bool"
	case "int", "dur", "time":
		return "Int"
	case "str":
		return "String"
	case "smap":
		return "SMap"
	case "ios":
		return "IntOrStr"
	case "ptr":
		return "Option (" + t.E.lean() + ")"
	case "struct":
		return t.N
	case "list":
		return "List (" + t.E.lean() + ")"
	case "map":
		return "List (" + t.Key.lean() + " × " + t.E.lean() + ")"
	case "unit":
		return "Unit"
	}
	dieT("gotolean: no Lean type for %+v", t)
	return ""
}

type field struct {
	lean string
	ty   Ty
}

// Go struct (by its Lean name) -> Go field -> Lean field.  The order is the Lean structure's field
// order (needed for zero values of composite literals).
type structDef struct {
	lean   string
	order  []string
	fields map[string]field
	// fields whose Lean declaration has a default equal to Go's zero value: a composite literal / zero value that does
	// not give them leaves them out (so that adding such a field does not change the text generated for older groups)
	defaulted map[string]bool
}

var structs = map[string]*structDef{}

// defaultedField adds a field that composite literals leave out when they do not give it (structDef.defaulted)
func defaultedField(st, goName, lean string, ty Ty) {
	sd := structs[st]
	sd.order = append(sd.order, goName)
	sd.fields[goName] = field{lean, ty}
	sd.defaulted[goName] = true
}

func defStruct(lean string, fs ...interface{}) {
	sd := &structDef{lean: lean, fields: map[string]field{}, defaulted: map[string]bool{}}
	for i := 0; i < len(fs); i += 3 {
		g := fs[i].(string)
		sd.order = append(sd.order, g)
		sd.fields[g] = field{fs[i+1].(string), fs[i+2].(Ty)}
	}
	structs[lean] = sd
}

// Go named type (last identifier) -> Ty
var namedTypes = map[string]Ty{}

func initTables() {
	if len(structs) > 0 {
		return
	}
	ios := Ty{K: "ios"}
	smap := Ty{K: "smap"}
	defStruct("LabelSelector", "MatchLabels", "matchLabels", smap, "MatchExpressions", "exprs", tList(tStruct("Req")))
	defStruct("AutoPause", "Enabled", "enabled", tPtr(tBool()), "MaxRestarts", "maxRestarts", tPtr(tInt()),
		"MaxSlowStartDuration", "maxSlowStartDuration", tPtr(tDur()))
	defStruct("AutoFail", "Enabled", "enabled", tPtr(tBool()), "MaxRestarts", "maxRestarts", tPtr(tInt()),
		"MaxRestartsDuration", "maxRestartsDuration", tPtr(tDur()), "CanaryTimeout", "canaryTimeout", tPtr(tDur()))
	defStruct("Canary", "Replicas", "replicas", tPtr(ios), "Duration", "duration", tPtr(tDur()),
		"NodeSelector", "nodeSelector", tPtr(tStruct("LabelSelector")),
		"NodeAntiAffinityKeys", "antiAffinityKeys", tList(tStr()),
		"AutoPause", "autoPause", tPtr(tStruct("AutoPause")), "AutoFail", "autoFail", tPtr(tStruct("AutoFail")),
		"NoRestartsDuration", "noRestartsDuration", tPtr(tDur()), "ValidationMode", "validationMode", tStr())
	defStruct("RollingUpdate", "MaxUnavailable", "maxUnavailable", tPtr(ios),
		"MaxPodSchedulerFailure", "maxPodSchedulerFailure", tPtr(ios),
		"MaxParallelPodCreation", "maxParallelPodCreation", tPtr(tInt()),
		"SlowStartIntervalDuration", "slowStartInterval", tPtr(tDur()),
		"SlowStartAdditiveIncrease", "slowStartAdditiveIncrease", tPtr(ios))
	defStruct("Strategy", "RollingUpdate", "rollingUpdate", tStruct("RollingUpdate"),
		"Canary", "canary", tPtr(tStruct("Canary")), "ReconcileFrequency", "reconcileFrequency", tPtr(tDur()))
	defStruct("GTemplate", "Name", "name", tStr())
	defStruct("GSpec", "Strategy", "strategy", tStruct("Strategy"), "Template", "template", tStruct("GTemplate"))
	defStruct("GEds", "Spec", "spec", tStruct("GSpec"), "Annotations", "annotations", smap)
	defStruct("Cond", "Type", "type", tStr(), "Status", "status", tStr(),
		"LastTransitionTime", "lastTransition", tTime(), "LastUpdateTime", "lastUpdate", tTime(),
		"Reason", "reason", tStr(), "Message", "message", tStr())
	defStruct("ERSStatus", "Status", "status", tStr(), "Desired", "desired", tInt(), "Current", "current", tInt(),
		"Ready", "ready", tInt(), "Available", "available", tInt(),
		"IgnoredUnresponsiveNodes", "ignored", tInt(), "Conditions", "conds", tList(tStruct("Cond")))
	defStruct("ERS", "Name", "name", tStr(), "CreationTimestamp", "creation", tTime(), "Status", "status", tStruct("ERSStatus"),
		// group CanaryStatus: the namespace, and `Spec.TemplateGeneration` (the model's record is flat: `Spec` is
		// transparent, see sel)
		"Namespace", "ns", tStr(), "TemplateGeneration", "templateGeneration", tStr())
	// group Conds: the ExtendedDaemonSet status, the options of the condition update, and the pod as
	// far as pkg/controller/utils/pod reads it (EdsModel/GoPrelude.lean)
	defStruct("CanaryStatus", "ReplicaSet", "replicaSet", tStr(), "Nodes", "nodes", tList(tStr()))
	defStruct("EDSStatus", "Desired", "desired", tInt(), "Current", "current", tInt(), "Ready", "ready", tInt(),
		"Available", "available", tInt(), "UpToDate", "upToDate", tInt(), "IgnoredUnresponsiveNodes", "ignored", tInt(),
		"State", "state", tStr(), "ActiveReplicaSet", "activeReplicaSet", tStr(), "Reason", "reason", tStr(),
		"Canary", "canary", tPtr(tStruct("CanaryStatus")), "Conditions", "conds", tList(tStruct("Cond")))
	structs["GEds"].order = append(structs["GEds"].order, "Status")
	structs["GEds"].fields["Status"] = field{"status", tStruct("EDSStatus")}
	defStruct("GUpdateConditionOptions", "IgnoreFalseConditionIfNotExist", "ignoreFalseConditionIfNotExist", tBool(),
		"SupportLastUpdate", "supportLastUpdate", tBool())
	defStruct("GWaiting", "Reason", "reason", tStr(), "Message", "message", tStr())
	defStruct("GRunning", "StartedAt", "startedAt", tTime())
	defStruct("GTerminated", "ExitCode", "exitCode", tInt(), "Signal", "signal", tInt(), "Reason", "reason", tStr(),
		"Message", "message", tStr(), "StartedAt", "startedAt", tTime(), "FinishedAt", "finishedAt", tTime(),
		"ContainerID", "containerID", tStr())
	defStruct("GContainerState", "Waiting", "waiting", tPtr(tStruct("GWaiting")), "Running", "running", tPtr(tStruct("GRunning")),
		"Terminated", "terminated", tPtr(tStruct("GTerminated")))
	defStruct("GContainerStatus", "Name", "name", tStr(), "State", "state", tStruct("GContainerState"),
		"LastTerminationState", "lastTerminationState", tStruct("GContainerState"), "RestartCount", "restartCount", tInt())
	defStruct("GPodCondition", "Type", "type", tStr(), "Status", "status", tStr(), "LastProbeTime", "lastProbeTime", tTime(),
		"LastTransitionTime", "lastTransitionTime", tTime(), "Reason", "reason", tStr(), "Message", "message", tStr())
	defStruct("GPodStatus", "Phase", "phase", tStr(), "Conditions", "conditions", tList(tStruct("GPodCondition")),
		"Reason", "reason", tStr(), "StartTime", "startTime", tPtr(tTime()),
		"InitContainerStatuses", "initContainerStatuses", tList(tStruct("GContainerStatus")),
		"ContainerStatuses", "containerStatuses", tList(tStruct("GContainerStatus")),
		"EphemeralContainerStatuses", "ephemeralContainerStatuses", tList(tStruct("GContainerStatus")))
	defStruct("Req", "Key", "key", tStr(), "Operator", "op", tStr(), "Values", "values", tList(tStr()))
	defStruct("Term", "MatchExpressions", "exprs", tList(tStruct("Req")), "MatchFields", "fields", tList(tStruct("Req")))
	defStruct("GNodeSelector", "NodeSelectorTerms", "nodeSelectorTerms", tList(tStruct("Term")))
	defStruct("GNodeAffinity", "RequiredDuringSchedulingIgnoredDuringExecution", "required", tPtr(tStruct("GNodeSelector")))
	defStruct("GAffinity", "NodeAffinity", "nodeAffinity", tPtr(tStruct("GNodeAffinity")))
	defStruct("GPodSpec", "NodeName", "nodeName", tStr(), "Affinity", "affinity", tPtr(tStruct("GAffinity")))
	defStruct("GPod", "Name", "name", tStr(), "Namespace", "ns", tStr(), "CreationTimestamp", "creationTimestamp", tTime(),
		"DeletionTimestamp", "deletionTimestamp", tPtr(tTime()),
		"DeletionGracePeriodSeconds", "deletionGracePeriodSeconds", tPtr(tInt()),
		"Spec", "spec", tStruct("GPodSpec"), "Status", "status", tStruct("GPodStatus"), "Annotations", "annotations", smap)
	// group Status: what strategy.Parameters / strategy.Result carry as far as manageCanaryPodFailures reads
	// them, reconcile.Result, and the ExtendedDaemonsetSetting as far as its sort order reads it
	// group CanaryStatus: the node item (the model's record; its `Node` is never nil and not a pointer there), the
	// other fields of Parameters / Result that manageCanaryStatus reads and writes; the two Go maps of Parameters
	defStruct("Node", "Name", "name", tStr(), "Labels", "labels", smap, "Annotations", "annotations", smap)
	defStruct("NodeItem", "Node", "node", tStruct("Node"), "ExtendedDaemonsetSetting", "setting", tPtr(tStruct("Setting")))
	defStruct("GParams", "Strategy", "strategy", tPtr(tStruct("Strategy")), "NewStatus", "newStatus", tPtr(tStruct("ERSStatus")),
		"EDSName", "edsName", tStr(), "Replicaset", "replicaset", tPtr(tStruct("ERS")), "CanaryNodes", "canaryNodes", tList(tStr()),
		"NodeByName", "nodeByName", tMap(tStr(), tPtr(tStruct("NodeItem"))),
		"PodByNodeName", "podByNodeName", tMap(tPtr(tStruct("NodeItem")), tPtr(tStruct("GPod"))))
	defStruct("GResult", "IsFrozen", "isFrozen", tBool(), "IsPaused", "isPaused", tBool(), "PausedReason", "pausedReason", tStr(),
		"IsUnpaused", "isUnpaused", tBool(), "IsFailed", "isFailed", tBool(), "FailedReason", "failedReason", tStr(),
		"NewStatus", "newStatus", tPtr(tStruct("ERSStatus")),
		"PodsToCreate", "podsToCreate", tList(tPtr(tStruct("NodeItem"))), "PodsToDelete", "podsToDelete", tList(tPtr(tStruct("NodeItem"))),
		"Result", "result", tStruct("GReconcileResult"))
	defStruct("GReconcileResult", "Requeue", "requeue", tBool(), "RequeueAfter", "requeueAfter", tDur())
	defStruct("Setting", "Name", "name", tStr(), "Namespace", "ns", tStr(), "CreationTimestamp", "creation", tTime())
	// group Setting (searchPossibleConflict): the selector of a setting (`Spec` is transparent), the two lists
	structs["Setting"].order = append(structs["Setting"].order, "NodeSelector")
	structs["Setting"].fields["NodeSelector"] = field{"nodeSelector", tStruct("LabelSelector")}
	defStruct("GSettingList", "Items", "items", tList(tStruct("Setting")))
	defStruct("GNodeList", "Items", "items", tList(tStruct("Node")))
	defStruct("GSelector", "setting", "setting", tStruct("Setting")) // what LabelSelectorAsSelector returns (opaque to Go code)
	// groups Deployment / Unknown (ManageDeployment, ManageUnknown): the remaining fields of Parameters / Result they touch,
	// and limits.Parameters (EdsModel/Generated/Limits.lean, generated by genLimits from limits.go)
	defaultedField("GParams", "PodToCleanUp", "podToCleanUp", tList(tPtr(tStruct("GPod"))))
	defaultedField("GParams", "UnscheduledPods", "unscheduledPods", tList(tPtr(tStruct("GPod"))))
	defaultedField("GParams", "ReplicaSetStatus", "replicaSetStatus", tStr())
	defaultedField("GResult", "UnscheduledNodesDueToResourcesConstraints", "unscheduledNodes", tList(tStr()))
	defStruct("Generated.Limits.Parameters", "NbNodes", "NbNodes", tInt(), "NbPods", "NbPods", tInt(),
		"NbAvailablesPod", "NbAvailablesPod", tInt(), "NbOldAvailablesPod", "NbOldAvailablesPod", tInt(),
		"NbCreatedPod", "NbCreatedPod", tInt(), "NbUnresponsiveNodes", "NbUnresponsiveNodes", tInt(),
		"NbOldUnavailablePods", "NbOldUnavailablePods", tInt(), "MaxPodCreation", "MaxPodCreation", tInt(),
		"MaxUnavailablePod", "MaxUnavailablePod", tInt(), "MaxUnschedulablePod", "MaxUnschedulablePod", tInt())

	namedTypes = map[string]Ty{
		"ExtendedDaemonSet":                                 tStruct("GEds"),
		"ExtendedDaemonSetSpec":                             tStruct("GSpec"),
		"ExtendedDaemonSetSpecStrategy":                     tStruct("Strategy"),
		"ExtendedDaemonSetSpecStrategyRollingUpdate":        tStruct("RollingUpdate"),
		"ExtendedDaemonSetSpecStrategyCanary":               tStruct("Canary"),
		"ExtendedDaemonSetSpecStrategyCanaryAutoPause":      tStruct("AutoPause"),
		"ExtendedDaemonSetSpecStrategyCanaryAutoFail":       tStruct("AutoFail"),
		"ExtendedDaemonSetSpecStrategyCanaryValidationMode": tStr(),
		"ExtendedDaemonSetReplicaSet":                       tStruct("ERS"),
		"ExtendedDaemonSetReplicaSetStatus":                 tStruct("ERSStatus"),
		"ExtendedDaemonSetReplicaSetCondition":              tStruct("Cond"),
		"ExtendedDaemonSetStatusReason":                     tStr(),
		"ExtendedDaemonSetStatusState":                      tStr(),
		"LabelSelector":                                     tStruct("LabelSelector"),
		"IntOrString":                                       ios,
		"ExtendedDaemonSetStatus":                           tStruct("EDSStatus"),
		"ExtendedDaemonSetStatusCanary":                     tStruct("CanaryStatus"),
		"ExtendedDaemonSetCondition":                        tStruct("Cond"),
		"ExtendedDaemonSetConditionType":                    tStr(),
		"ExtendedDaemonSetReplicaSetConditionType":          tStr(),
		"ConditionStatus":                                   tStr(),
		"UpdateConditionOptions":                            tStruct("GUpdateConditionOptions"),
		"ReplicaSetStatus":                                  tStr(),
		"Affinity":                                          tStruct("GAffinity"),
		"Pod":                                               tStruct("GPod"),
		"PodStatus":                                         tStruct("GPodStatus"),
		"PodCondition":                                      tStruct("GPodCondition"),
		"PodConditionType":                                  tStr(),
		"ContainerStatus":                                   tStruct("GContainerStatus"),
		"ContainerState":                                    tStruct("GContainerState"),
		"ContainerStateTerminated":                          tStruct("GTerminated"),
		"ContainerStateWaiting":                             tStruct("GWaiting"),
		"ContainerStateRunning":                             tStruct("GRunning"),
		"Parameters":                                        tStruct("GParams"),
		"Result":                                            tStruct("GResult"),
		"ExtendedDaemonsetSetting":                          tStruct("Setting"),
		"ExtendedDaemonsetSettingList":                      tStruct("GSettingList"),
		"NodeList":                                          tStruct("GNodeList"),
		"NodeItem":                                          tStruct("NodeItem"),
		"Node":                                              tStruct("Node"),
	}
}

// a function to translate
type fnSpec struct {
	group                  string
	file, goName, leanName string
	recvPkg                string // qualifier other packages use for it ("" = any)
	// a method: the name of its receiver type (the receiver becomes the first parameter)
	recv string
	// name of a synthetic Bool parameter standing for pointer identity of two pointer arguments
	ptrEq string
	// a statement of the function instead of the function: "range <expr>" is its top-level `for … := range <expr>`.
	// The statement is translated as a function of its own (fragmentDecl): its parameters are the parameters and
	// locals of the enclosing function it mentions, its results the locals it assigns
	fragment string
	// an API-calling function of the repository that is not translated (`deletePodSlice`: goroutines, client.Delete): only
	// its signature is read.  A call evaluates the arguments (for their dereferences) and yields a fresh synthetic parameter
	// `apiResN` of the caller for its results: an opaque, effect-free step — it is assumed to return normally and to assign
	// nothing through its arguments
	opaque bool
}

type fnInfo struct {
	spec    fnSpec
	decl    *ast.FuncDecl
	params  []field // lean name + type
	results []Ty
	// the function returns its first (pointer) parameter after mutating the pointee
	mutator bool
	// no Go result: translated as returning its first (pointer) parameter, i.e. what the caller
	// observes through that pointer after the call
	void bool
	// has the synthetic `nilSlice : Bool` parameter (see `sliceIsNil`)
	needsNil bool
	// number of synthetic wall-clock parameters
	nowN int
	// per wall-clock parameter: it is read inside a loop, one instant per iteration (`wallNowK : Int → Int`, applied
	// to the iteration index)
	nowFn []bool
	// number of results the Go function declares (results = these, then the types of retParams)
	nGo int
	// pointer parameters (Go names) whose value after the call is returned next to the Go results: the
	// pointer parameters the body assigns through (see mutatedParams)
	retParams []string
	// import alias -> directory under the repository (or the import path for foreign packages)
	imports map[string]string
	// translated only for its signature (a function of a group this group depends on)
	external bool
	// a fragment (fnSpec.fragment): the line of the statement, the locals it returns
	fragLine    int
	fragResults []string
	// synthetic parameters `apiRes1 …` standing for what API steps leave behind (see tr.newAPI): their types and what each
	// stands for
	apiTys []Ty
	apiDoc []string
}

type bind struct{ v, m string }

type val struct {
	binds []bind
	term  string
	ty    Ty
	// the value is exactly this local pointer variable (Go name)
	ptrVar string
	// the value is `&x`: dereferencing it gives x back
	pointee *val
}

type tr struct {
	consts map[string]val     // package-level constants (unqualified name) -> literal
	fns    map[string]*fnInfo // Go name -> translated function
	cur    *fnInfo
	env    []map[string]field // Go local -> Lean name + type
	// pointer variable (Go name) -> Lean name of its pointee, once a dereference has succeeded
	// ("" = no longer valid); scoped like env
	alias []map[string]string
	fresh int
	used  map[string]int
	// range loops: the auxiliary recursive definitions generated for the current function, and the
	// stack of enclosing loops (what `continue` / `break` mean)
	aux   []string
	loopN int
	loops []loopCtx
	// package-level `map[string]struct{}` literals (string sets) of the translated files
	sets map[string][]string
	// set while a function is translated: it needs the synthetic `nilSlice` parameter
	needsNil bool
	// number of `time.Now()` calls met in the current function (synthetic parameters wallNow1 …)
	nowN int
	// per wall-clock parameter: read inside a loop (a function of the iteration index); the index variables of the
	// enclosing loops
	nowFn   []bool
	loopIdx []string
	// named types declared in the translated files (`type sortPodByNodeName []*corev1.Pod`)
	localTypes map[string]ast.Expr
	// API steps of the current function: the synthetic parameters `apiResN` (types, what they stand for)
	apiTys []Ty
	apiDoc []string
	// > 0 while the initialiser of an opaque local is walked for its dereferences (calls of foreign functions allowed)
	opaqueCtx int
	// set while the comparator of `sort.SliceStable(xs, func(i, j int) bool { … })` is translated: `xs[i]` / `xs[j]` are the
	// two elements compared
	less *lessCtx
	// the repository (to tell its packages from foreign ones)
	repo string
	// the current function has a parameter of type client.Client
	hasAPI bool
}

type lessCtx struct{ slice, i, j, a, b string }

type loopCtx struct{ cont, brk func() string }

// fn resolves a callee: functions of the caller's own package first (both `conditions` packages
// define IsConditionTrue, UpdateErrorCondition, …), then a unique function of that name.
func (t *tr) fn(base string, qualified bool) (*fnInfo, bool) {
	if t.cur != nil && !qualified {
		if fi, ok := t.fns[filepath.Dir(t.cur.spec.file)+":"+base]; ok {
			return fi, true
		}
	}
	var found *fnInfo
	for _, fi := range t.fns {
		if fi.spec.goName == base {
			if found != nil {
				dieT("gotolean: ambiguous callee %s", base)
			}
			found = fi
		}
	}
	return found, found != nil
}

// resolve: a callee qualified by an import alias is looked up in the package that alias names in the
// caller's file; otherwise (or when that package has no translated function of the name) as `fn`.
func (t *tr) resolve(pkg, base string) (*fnInfo, bool) {
	if pkg != "" && t.cur != nil {
		if dir, ok := t.cur.imports[pkg]; ok {
			if fi, ok := t.fns[dir+":"+base]; ok {
				return fi, true
			}
		}
	}
	return t.fn(base, pkg != "")
}

func splitQual(name string) (string, string) {
	if i := strings.Index(name, "."); i >= 0 {
		return name[:i], name[i+1:]
	}
	return "", name
}

func (t *tr) push() {
	t.env = append(t.env, map[string]field{})
	t.alias = append(t.alias, map[string]string{})
}
func (t *tr) pop() {
	t.env = t.env[:len(t.env)-1]
	t.alias = t.alias[:len(t.alias)-1]
}
func (t *tr) aliasOf(n string) string {
	for i := len(t.alias) - 1; i >= 0; i-- {
		if a, ok := t.alias[i][n]; ok {
			return a
		}
	}
	return ""
}
func (t *tr) lookup(n string) (field, bool) {
	for i := len(t.env) - 1; i >= 0; i-- {
		if f, ok := t.env[i][n]; ok {
			return f, true
		}
	}
	return field{}, false
}
func (t *tr) declare(n string, ty Ty) string {
	ln := n
	if c := t.used[n]; c > 0 {
		ln = fmt.Sprintf("%s_%d", n, c+1)
	}
	t.used[n]++
	switch ln {
	case "at", "end", "open", "from", "to", "fun", "then", "do", "type", "instance", "class", "where", "with", "match", "in", "by", "have", "show",
		"sec", "minute", "zeroTime", "isZeroTime", "goDiv", "findCond", "isCondTrue", "intVal", "resolveIntOrPercent":
		ln += "'"
	}
	// a local must not hide a translated function the body may call (`cannotStart, reason = podUtils.CannotStart(pod)`)
	for _, fi := range t.fns {
		if fi.spec.leanName == ln {
			ln += "'"
			break
		}
	}
	t.env[len(t.env)-1][n] = field{ln, ty}
	return ln
}
func (t *tr) tmp(p string) string { t.fresh++; return fmt.Sprintf("%s%d", p, t.fresh) }

func pos(n ast.Node) string { return fset.Position(n.Pos()).String() }

// ---------------------------------------------------------------------------------------------

func (t *tr) goType(e ast.Expr) Ty {
	switch x := e.(type) {
	case *ast.Ident:
		switch x.Name {
		case "bool":
			return tBool()
		case "string":
			return tStr()
		case "int", "int32", "int64":
			return tInt()
		case "error":
			return tPtr(tStr())
		}
		if ty, ok := namedTypes[x.Name]; ok {
			return ty
		}
		if u, ok := t.localTypes[x.Name]; ok {
			return t.goType(u)
		}
		if x.Name == "Reconciler" {
			// the reconciler: the holder of the API client (`r.client`); nothing else of it is in the subset
			return Ty{K: "api"}
		}
	case *ast.StarExpr:
		if inner := t.goType(x.X); inner.dropped() {
			return inner // `*Reconciler`: no Lean term either
		} else {
			return tPtr(inner)
		}
	case *ast.SelectorExpr:
		if p, ok := x.X.(*ast.Ident); ok {
			switch p.Name + "." + x.Sel.Name {
			case "time.Time", "metav1.Time":
				return tTime()
			case "time.Duration", "metav1.Duration":
				return tDur()
			case "reconcile.Result":
				return tStruct("GReconcileResult")
			case "client.Client", "runtimeclient.Client":
				return Ty{K: "api"}
			case "logr.Logger":
				return Ty{K: "logger"}
			case "limits.Parameters":
				return tStruct("Generated.Limits.Parameters")
			}
			if ty, ok := namedTypes[x.Sel.Name]; ok {
				return ty
			}
		}
	case *ast.MapType:
		// map[string]string is the model's SMap; any other map whose key and value types are in the subset is an
		// association list (everything else stays what it was: a string map the body cannot use)
		if k, v, ok := t.tryMapTypes(x); ok && !(k.K == "str" && v.K == "str") && v.K != "unit" {
			return tMap(k, v)
		}
		return Ty{K: "smap"}
	case *ast.ArrayType:
		if x.Len == nil {
			return tList(t.goType(x.Elt))
		}
	}
	dieT("gotolean: unsupported type at %s", pos(e))
	return Ty{}
}

// tryMapTypes: the key and value types of a map type, if both are in the subset
func (t *tr) tryMapTypes(x *ast.MapType) (k, v Ty, ok bool) {
	defer func() {
		if r := recover(); r != nil {
			if _, isT := r.(trErr); !isT {
				panic(r)
			}
			ok = false
		}
	}()
	return t.goType(x.Key), t.goType(x.Value), true
}

func zero(ty Ty) string {
	switch ty.K {
	case "bool":
		return "false"
	case "int", "dur":
		return "0"
	case "time":
		return "zeroTime"
	case "str":
		return "\"\""
	case "smap", "list", "map":
		return "[]"
	case "ptr":
		return "none"
	case "ios":
		return "({ kind := \"int\", val := 0 } : IntOrStr)"
	case "struct":
		sd := structs[ty.N]
		var parts []string
		for _, g := range sd.order {
			if sd.defaulted[g] {
				continue
			}
			f := sd.fields[g]
			parts = append(parts, f.lean+" := "+zero(f.ty))
		}
		return "({ " + strings.Join(parts, ", ") + " } : " + ty.N + ")"
	}
	dieT("gotolean: no zero value for %+v", ty)
	return ""
}

// wrap sequences the pending binds in front of a term of type `Option _`.
func wrap(bs []bind, body string) string {
	for i := len(bs) - 1; i >= 0; i-- {
		body = "Option.bind " + bs[i].m + " fun " + bs[i].v + " =>\n" + body
	}
	return body
}

func pure(term string, ty Ty) val { return val{term: term, ty: ty} }

// deref makes a value of pointer type usable as its pointee.
func (t *tr) deref(v val, n ast.Node) val {
	if v.ty.K != "ptr" {
		dieT("gotolean: dereference of a non-pointer at %s", pos(n))
	}
	if v.pointee != nil {
		return *v.pointee
	}
	if v.ptrVar != "" {
		if a := t.aliasOf(v.ptrVar); a != "" {
			return val{binds: v.binds, term: a, ty: *v.ty.E}
		}
		// first dereference of this pointer variable: from here on its pointee has a name
		x := t.tmp(v.ptrVar + "_")
		t.alias[len(t.alias)-1][v.ptrVar] = x
		return val{binds: append(append([]bind{}, v.binds...), bind{x, v.term}), term: x, ty: *v.ty.E}
	}
	x := t.tmp("p")
	return val{binds: append(append([]bind{}, v.binds...), bind{x, v.term}), term: x, ty: *v.ty.E}
}

func (t *tr) sel(v val, name string, n ast.Node) val {
	if v.ty.K == "api" && name == "client" {
		return v // `r.client`: the API client handle of the reconciler
	}
	if v.ty.K == "ptr" {
		v = t.deref(v, n)
	}
	switch v.ty.K {
	case "dur":
		if name == "Duration" {
			return v
		}
	case "time":
		if name == "Time" {
			return v
		}
	case "struct":
		sd := structs[v.ty.N]
		if f, ok := sd.fields[name]; ok {
			return val{binds: v.binds, term: v.term + "." + f.lean, ty: f.ty}
		}
		if name == "Logger" && v.ty.N == "GParams" {
			return val{binds: v.binds, term: "()", ty: Ty{K: "logger"}} // no Lean term; the dereference in front of it stays
		}
		if name == "ObjectMeta" {
			return v // the embedded metadata: its fields are the object's own
		}
		if name == "Spec" && (v.ty.N == "ERS" || v.ty.N == "Setting") {
			return v // the model's replica set is flat: `rs.Spec.TemplateGeneration` is `rs.templateGeneration`
		}
	}
	dieT("gotolean: unknown field %s of %+v at %s", name, v.ty, pos(n))
	return val{}
}

func (t *tr) isPkg(e ast.Expr) (string, bool) {
	id, ok := e.(*ast.Ident)
	if !ok {
		return "", false
	}
	if _, isLocal := t.lookup(id.Name); isLocal {
		return "", false // a local variable shadows the package name (`affinity *v1.Affinity`)
	}
	switch id.Name {
	case "time", "metav1", "datadoghqv1alpha1", "intstr", "intstrutil", "conditions", "ersconditions", "corev1", "v1alpha1", "v1", "strategy", "affinity":
		return id.Name, true
	}
	if t.cur != nil {
		if _, ok := t.cur.imports[id.Name]; ok {
			return id.Name, true
		}
	}
	return "", false
}

func (t *tr) constant(name string, n ast.Node) val {
	if p, base := splitQual(name); p != "" && t.cur != nil && t.cur.imports[p] == "k8s.io/api/core/v1" {
		switch base {
		case "ConditionTrue":
			return pure("\"True\"", tStr())
		case "ConditionFalse":
			return pure("\"False\"", tStr())
		case "PodReady":
			return pure("\"Ready\"", tStr())
		case "PodFailed":
			return pure("\"Failed\"", tStr())
		case "PodScheduled":
			return pure("\"PodScheduled\"", tStr())
		case "PodReasonUnschedulable":
			return pure("\"Unschedulable\"", tStr())
		}
	}
	switch name {
	case "time.Minute":
		return pure("minute", tDur())
	case "time.Second":
		return pure("sec", tDur())
	case "corev1.ConditionTrue":
		return pure("\"True\"", tStr())
	case "corev1.ConditionFalse":
		return pure("\"False\"", tStr())
	case "v1.ConditionTrue":
		return pure("\"True\"", tStr())
	case "v1.ConditionFalse":
		return pure("\"False\"", tStr())
	case "v1.PodReady":
		return pure("\"Ready\"", tStr())
	case "v1.PodFailed":
		return pure("\"Failed\"", tStr())
	}
	if i := strings.Index(name, "."); i >= 0 {
		name = name[i+1:]
	}
	if v, ok := t.consts[name]; ok {
		return v
	}
	dieT("gotolean: unknown constant %s at %s", name, pos(n))
	return val{}
}

func (t *tr) ex(e ast.Expr) val {
	switch x := e.(type) {
	case *ast.ParenExpr:
		v := t.ex(x.X)
		v.term = "(" + v.term + ")"
		return v
	case *ast.BasicLit:
		switch x.Kind {
		case token.INT:
			return pure(x.Value, tInt())
		case token.STRING:
			s, err := strconv.Unquote(x.Value)
			if err != nil {
				dieT("gotolean: bad string at %s", pos(x))
			}
			return pure(strconv.Quote(s), tStr())
		}
	case *ast.Ident:
		switch x.Name {
		case "nil":
			return pure("none", Ty{K: "nil"})
		case "true", "false":
			return pure(x.Name, tBool())
		}
		if f, ok := t.lookup(x.Name); ok {
			if f.ty.dropped() {
				if f.ty.K == "opaque" && t.opaqueCtx == 0 {
					dieT("gotolean: the opaque local %s is used outside an API step at %s", x.Name, pos(x))
				}
				return pure("()", f.ty)
			}
			if f.ty.K == "ptr" {
				if a := t.aliasOf(x.Name); a != "" {
					return val{term: "(some " + a + ")", ty: f.ty, ptrVar: x.Name}
				}
				return val{term: f.lean, ty: f.ty, ptrVar: x.Name}
			}
			return pure(f.lean, f.ty)
		}
		return t.constant(x.Name, x)
	case *ast.SelectorExpr:
		if p, ok := t.isPkg(x.X); ok {
			return t.constant(p+"."+x.Sel.Name, x)
		}
		return t.sel(t.ex(x.X), x.Sel.Name, x)
	case *ast.StarExpr:
		return t.deref(t.ex(x.X), x)
	case *ast.UnaryExpr:
		switch x.Op {
		case token.NOT:
			v := t.ex(x.X)
			return val{binds: v.binds, term: "(!" + v.term + ")", ty: tBool()}
		case token.SUB:
			v := t.ex(x.X)
			return val{binds: v.binds, term: "(-" + v.term + ")", ty: v.ty}
		case token.AND:
			v := t.ex(x.X)
			if v.ty.K == "opaque" {
				return v
			}
			pv := v
			return val{binds: v.binds, term: "(some " + v.term + ")", ty: tPtr(v.ty), pointee: &pv}
		}
	case *ast.BinaryExpr:
		return t.binary(x)
	case *ast.CallExpr:
		return t.call(x)
	case *ast.CompositeLit:
		return t.composite(x)
	case *ast.SliceExpr:
		// xs[:n]: `none` when n is negative or beyond the length (Go allows n up to the capacity — the elements of the
		// backing array beyond the length; a list has no backing array)
		if x.Low != nil || x.High == nil || x.Slice3 {
			dieT("gotolean: slice expression other than xs[:n] at %s", pos(x))
		}
		l, n := t.ex(x.X), t.ex(x.High)
		if l.ty.K != "list" {
			dieT("gotolean: slice expression on a non-slice at %s", pos(x))
		}
		bs := append(append([]bind{}, l.binds...), n.binds...)
		r := t.tmp("s")
		bs = append(bs, bind{r, "(Go.sliceTo " + l.term + " " + n.term + ")"})
		return val{binds: bs, term: r, ty: l.ty}
	case *ast.IndexExpr:
		if lc := t.less; lc != nil {
			// inside the comparator of sort.SliceStable(xs, …): xs[i] / xs[j] are the two elements compared
			if sl, ok := x.X.(*ast.Ident); ok && sl.Name == lc.slice {
				if ix, ok := x.Index.(*ast.Ident); ok && (ix.Name == lc.i || ix.Name == lc.j) {
					f, _ := t.lookup(lc.slice)
					if ix.Name == lc.i {
						return pure(lc.a, *f.ty.E)
					}
					return pure(lc.b, *f.ty.E)
				}
			}
		}
		m := t.ex(x.X)
		k := t.ex(x.Index)
		bs := append(append([]bind{}, m.binds...), k.binds...)
		switch m.ty.K {
		case "smap":
			return val{binds: bs, term: "(SMap.getD " + m.term + " " + k.term + ")", ty: tStr()}
		case "map":
			// m[k]: the zero value of the value type when the key is absent
			kt := k.term
			if k.ty.K == "nil" {
				kt = "none"
			}
			return val{binds: bs, term: "(Go.mapGetD " + keyEq(*m.ty.Key, x) + " " + m.term + " " + kt + " " + zero(*m.ty.E) + ")", ty: *m.ty.E}
		case "list":
			r := t.tmp("e")
			bs = append(bs, bind{r, "(Go.index " + m.term + " " + k.term + ")"})
			return val{binds: bs, term: r, ty: *m.ty.E}
		}
	}
	dieT("gotolean: unsupported expression at %s", pos(e))
	return val{}
}

func (t *tr) binary(x *ast.BinaryExpr) val {
	switch x.Op {
	case token.LAND, token.LOR:
		a := t.ex(x.X)
		t.push() // dereferences of the right operand are conditional: their names stay local
		b := t.ex(x.Y)
		t.pop()
		op := " && "
		if x.Op == token.LOR {
			op = " || "
		}
		if len(b.binds) == 0 {
			return val{binds: a.binds, term: "(" + a.term + op + b.term + ")", ty: tBool()}
		}
		// short circuit: the right operand's dereferences happen only when it is evaluated
		var m string
		if x.Op == token.LAND {
			m = "(if " + a.term + " then (" + wrap(b.binds, "some "+b.term) + ") else some false)"
		} else {
			m = "(if " + a.term + " then some true else (" + wrap(b.binds, "some "+b.term) + "))"
		}
		r := t.tmp("c")
		return val{binds: append(append([]bind{}, a.binds...), bind{r, m}), term: r, ty: tBool()}
	}
	a, b := t.ex(x.X), t.ex(x.Y)
	bs := append(append([]bind{}, a.binds...), b.binds...)
	switch x.Op {
	case token.EQL, token.NEQ:
		neg := x.Op == token.NEQ
		if a.ty.K == "nil" || b.ty.K == "nil" {
			p := a
			if a.ty.K == "nil" {
				p = b
			}
			if p.ty.K == "list" {
				// the model's lists do not distinguish a nil slice from an empty one: the synthetic
				// Boolean parameter `nilSlice` of the function says which one an empty list stands for
				t.needsNil = true
				if neg {
					return val{binds: bs, term: "(!(Go.sliceIsNil nilSlice " + p.term + "))", ty: tBool()}
				}
				return val{binds: bs, term: "(Go.sliceIsNil nilSlice " + p.term + ")", ty: tBool()}
			}
			if p.ty.K != "ptr" {
				dieT("gotolean: nil compared with a non-pointer at %s", pos(x))
			}
			if neg {
				return val{binds: bs, term: "(" + p.term + ").isSome", ty: tBool()}
			}
			return val{binds: bs, term: "(" + p.term + ").isNone", ty: tBool()}
		}
		if a.ty.K == "ptr" && b.ty.K == "ptr" {
			if freshAlloc(x.X) || freshAlloc(x.Y) {
				// the address of a composite literal is a new object: equal to no other pointer
				if neg {
					return val{binds: bs, term: "true", ty: tBool()}
				}
				return val{binds: bs, term: "false", ty: tBool()}
			}
			if t.cur.spec.ptrEq == "" {
				dieT("gotolean: pointer comparison at %s", pos(x))
			}
			if neg {
				return val{binds: bs, term: "(!" + t.cur.spec.ptrEq + ")", ty: tBool()}
			}
			return val{binds: bs, term: t.cur.spec.ptrEq, ty: tBool()}
		}
		if a.ty.K == "struct" || b.ty.K == "struct" {
			// Go compares pointer fields by identity, the model's `Option` by value: only the comparison
			// with a zero value (all pointer fields nil) means the same on both sides
			if !zeroLit(x.X) && !zeroLit(x.Y) {
				dieT("gotolean: comparison of structs other than with a zero value at %s", pos(x))
			}
		}
		if a.ty.K == "list" || b.ty.K == "list" || a.ty.K == "smap" || b.ty.K == "smap" {
			dieT("gotolean: comparison of slices / maps at %s", pos(x))
		}
		if neg {
			return val{binds: bs, term: "(" + a.term + " != " + b.term + ")", ty: tBool()}
		}
		return val{binds: bs, term: "(" + a.term + " == " + b.term + ")", ty: tBool()}
	case token.LSS, token.LEQ, token.GTR, token.GEQ:
		op := map[token.Token]string{token.LSS: "<", token.LEQ: "≤", token.GTR: ">", token.GEQ: "≥"}[x.Op]
		return val{binds: bs, term: "(decide (" + a.term + " " + op + " " + b.term + "))", ty: tBool()}
	case token.ADD, token.SUB, token.MUL:
		ty := a.ty
		if ty.K == "str" && b.ty.K == "str" && x.Op == token.ADD {
			return val{binds: bs, term: "(" + a.term + " ++ " + b.term + ")", ty: ty}
		}
		if ty.K == "int" {
			ty = b.ty
		}
		return val{binds: bs, term: "(" + a.term + " " + x.Op.String() + " " + b.term + ")", ty: ty}
	case token.QUO:
		r := t.tmp("q")
		bs = append(bs, bind{r, "(goDiv " + a.term + " " + b.term + ")"})
		return val{binds: bs, term: r, ty: tInt()}
	}
	dieT("gotolean: unsupported operator at %s", pos(x))
	return val{}
}

func unparen(e ast.Expr) ast.Expr {
	for {
		p, ok := e.(*ast.ParenExpr)
		if !ok {
			return e
		}
		e = p.X
	}
}

// freshAlloc: `&T{…}`
func freshAlloc(e ast.Expr) bool {
	u, ok := unparen(e).(*ast.UnaryExpr)
	if !ok || u.Op != token.AND {
		return false
	}
	_, ok = unparen(u.X).(*ast.CompositeLit)
	return ok
}

// zeroLit: `T{}`
func zeroLit(e ast.Expr) bool {
	c, ok := unparen(e).(*ast.CompositeLit)
	return ok && len(c.Elts) == 0
}

// foreignPkg: the import alias names a package outside the repository
func (t *tr) foreignPkg(alias string) bool {
	if t.cur == nil {
		return false
	}
	path, ok := t.cur.imports[alias]
	if !ok {
		return false
	}
	st, err := os.Stat(filepath.Join(t.repo, path))
	return err != nil || !st.IsDir()
}

// opaqueType: `pkg.Name`, `[]pkg.Name`, `*pkg.Name` of a foreign package whose type the subset does not know
// (`corev1.PodList`, `[]runtimeclient.ListOption`, `runtimeclient.MatchingLabels`)
func (t *tr) opaqueType(e ast.Expr) bool {
	switch x := e.(type) {
	case *ast.StarExpr:
		return t.opaqueType(x.X)
	case *ast.ArrayType:
		return x.Len == nil && t.opaqueType(x.Elt)
	case *ast.SelectorExpr:
		p, ok := x.X.(*ast.Ident)
		if !ok || !t.foreignPkg(p.Name) {
			return false
		}
		if _, known := namedTypes[x.Sel.Name]; known {
			return false
		}
		switch p.Name + "." + x.Sel.Name {
		case "time.Time", "metav1.Time", "time.Duration", "metav1.Duration", "reconcile.Result", "client.Client", "runtimeclient.Client", "logr.Logger":
			return false
		}
		return true
	}
	return false
}

// opaqueLit: a composite literal of an opaque type has no Lean term; its elements (keys and values) are evaluated for
// their dereferences, calls of foreign functions among them included (opaqueCtx)
func (t *tr) opaqueLit(x *ast.CompositeLit) val {
	t.opaqueCtx++
	defer func() { t.opaqueCtx-- }()
	var bs []bind
	for _, el := range x.Elts {
		if kv, ok := el.(*ast.KeyValueExpr); ok {
			if _, isId := kv.Key.(*ast.Ident); !isId {
				bs = append(bs, t.ex(kv.Key).binds...)
			} else if _, isLocal := t.lookup(kv.Key.(*ast.Ident).Name); isLocal {
				bs = append(bs, t.ex(kv.Key).binds...)
			}
			bs = append(bs, t.ex(kv.Value).binds...)
			continue
		}
		bs = append(bs, t.ex(el).binds...)
	}
	return val{binds: bs, term: "()", ty: Ty{K: "opaque"}}
}

func (t *tr) composite(x *ast.CompositeLit) val {
	if t.opaqueType(x.Type) {
		return t.opaqueLit(x)
	}
	ty := t.goType(x.Type)
	switch ty.K {
	case "dur": // metav1.Duration{Duration: d}
		if len(x.Elts) == 1 {
			if kv, ok := x.Elts[0].(*ast.KeyValueExpr); ok {
				return t.ex(kv.Value)
			}
		}
	case "smap":
		if len(x.Elts) == 0 {
			return pure("[]", ty)
		}
	case "list":
		var bs []bind
		var es []string
		for _, el := range x.Elts {
			if _, ok := el.(*ast.KeyValueExpr); ok {
				dieT("gotolean: keyed slice literal at %s", pos(x))
			}
			v := t.ex(el)
			bs = append(bs, v.binds...)
			es = append(es, v.term)
		}
		return val{binds: bs, term: "[" + strings.Join(es, ", ") + "]", ty: ty}
	case "struct":
		sd := structs[ty.N]
		given := map[string]val{}
		var bs []bind
		for _, el := range x.Elts {
			kv, ok := el.(*ast.KeyValueExpr)
			if !ok {
				dieT("gotolean: positional composite literal at %s", pos(x))
			}
			v := t.ex(kv.Value)
			bs = append(bs, v.binds...)
			given[kv.Key.(*ast.Ident).Name] = v
		}
		var parts []string
		for _, g := range sd.order {
			f := sd.fields[g]
			if v, ok := given[g]; ok {
				parts = append(parts, f.lean+" := "+v.term)
			} else if !sd.defaulted[g] {
				parts = append(parts, f.lean+" := "+zero(f.ty))
			}
		}
		return val{binds: bs, term: "({ " + strings.Join(parts, ", ") + " } : " + ty.N + ")", ty: ty}
	}
	dieT("gotolean: unsupported composite literal at %s", pos(x))
	return val{}
}

// newWall: a read of the wall clock is a synthetic parameter of the translated function, in source order.  Inside a
// loop every iteration reads its own instant: the parameter is a function of the iteration index.
func (t *tr) newWall(n ast.Node) string {
	t.nowN++
	name := fmt.Sprintf("wallNow%d", t.nowN)
	switch len(t.loopIdx) {
	case 0:
		t.nowFn = append(t.nowFn, false)
		return name
	case 1:
		t.nowFn = append(t.nowFn, true)
		return "(" + name + " " + t.loopIdx[0] + ")"
	}
	dieT("gotolean: the wall clock is read in a nested loop at %s", pos(n))
	return ""
}

// newAPI: what an API step leaves behind is a synthetic parameter of the translated function, in source order
// (`apiRes1 …`), universally quantified in the bridges; `doc` says what it stands for.
func (t *tr) newAPI(ty Ty, doc string, n ast.Node) string {
	if len(t.loopIdx) > 0 {
		dieT("gotolean: an API step inside a loop at %s", pos(n))
	}
	t.apiTys = append(t.apiTys, ty)
	t.apiDoc = append(t.apiDoc, doc)
	return fmt.Sprintf("apiRes%d", len(t.apiTys))
}

// applied: the application of the translated function fi to the arguments of the call x (evaluated in Go's order;
// arguments without a Lean term — the API client, a logger — are not passed), followed by the synthetic arguments: the
// caller's `nilSlice`, one read of the caller's clock per read of the callee, one API parameter of the caller per API
// parameter of the callee.
func (t *tr) applied(fi *fnInfo, x *ast.CallExpr) ([]bind, string) {
	var bs []bind
	var as []string
	for _, a := range x.Args {
		v := t.ex(a)
		bs = append(bs, v.binds...)
		switch {
		case v.ty.dropped():
		case v.ty.K == "nil":
			as = append(as, "none")
		default:
			as = append(as, v.term)
		}
	}
	if fi.spec.ptrEq != "" {
		dieT("gotolean: call of a function with a pointer-identity parameter at %s", pos(x))
	}
	if fi.needsNil {
		// the nil-ness of an empty slice is not represented: the caller's own parameter stands for it
		t.needsNil = true
		as = append(as, "nilSlice")
	}
	// every wall-clock read of the callee is a wall-clock read of the caller (at this call)
	for i := 0; i < fi.nowN; i++ {
		if i < len(fi.nowFn) && fi.nowFn[i] {
			// the callee reads the clock once per iteration of a loop of its own (a function of the iteration index): outside
			// any loop of the caller that function is a parameter of the caller, passed on as it is
			if len(t.loopIdx) > 0 {
				dieT("gotolean: call of a function that reads the wall clock in a loop, inside a loop, at %s", pos(x))
			}
			t.nowN++
			t.nowFn = append(t.nowFn, true)
			as = append(as, fmt.Sprintf("wallNow%d", t.nowN))
			continue
		}
		as = append(as, t.newWall(x))
	}
	// every API step of the callee is an API step of the caller (at this call)
	for i, ty := range fi.apiTys {
		as = append(as, t.newAPI(ty, fi.apiDoc[i]+fmt.Sprintf(", in the call of `%s` at line %d", fi.spec.goName, fset.Position(x.Pos()).Line), x))
	}
	return bs, "(" + fi.spec.leanName + " " + strings.Join(as, " ") + ")"
}

func (t *tr) call(x *ast.CallExpr) val {
	args := func() ([]val, []bind) {
		var vs []val
		var bs []bind
		for _, a := range x.Args {
			v := t.ex(a)
			bs = append(bs, v.binds...)
			vs = append(vs, v)
		}
		return vs, bs
	}
	name := ""
	switch f := x.Fun.(type) {
	case *ast.Ident:
		name = f.Name
	case *ast.SelectorExpr:
		if p, ok := t.isPkg(f.X); ok {
			name = p + "." + f.Sel.Name
		} else {
			// method call
			recv := t.ex(f.X)
			if recv.ty.K == "ptr" && recv.ty.E.K == "time" {
				recv = t.deref(recv, x) // (*metav1.Time).Add / Before / …: the receiver is dereferenced first
			}
			vs, bs := args()
			bs = append(append([]bind{}, recv.binds...), bs...)
			m := f.Sel.Name
			if recv.ty.K == "time" && len(vs) == 1 && vs[0].ty.K == "ptr" && vs[0].ty.E.K == "time" {
				// (metav1.Time).Equal / Before take a *metav1.Time; only `&x` (never nil) is in the subset
				if vs[0].pointee == nil {
					dieT("gotolean: time method with a pointer argument other than &x at %s", pos(x))
				}
				vs[0] = *vs[0].pointee
			}
			switch {
			case recv.ty.K == "time" && m == "Equal":
				return val{binds: bs, term: "(" + recv.term + " == " + vs[0].term + ")", ty: tBool()}
			case recv.ty.K == "time" && m == "Add":
				return val{binds: bs, term: "(" + recv.term + " + " + vs[0].term + ")", ty: tTime()}
			case recv.ty.K == "time" && m == "Sub":
				return val{binds: bs, term: "(" + recv.term + " - " + vs[0].term + ")", ty: tDur()}
			case recv.ty.K == "time" && m == "IsZero":
				return val{binds: bs, term: "(isZeroTime " + recv.term + ")", ty: tBool()}
			case recv.ty.K == "time" && m == "Before":
				return val{binds: bs, term: "(decide (" + recv.term + " < " + vs[0].term + "))", ty: tBool()}
			case recv.ty.K == "time" && m == "After":
				return val{binds: bs, term: "(decide (" + recv.term + " > " + vs[0].term + "))", ty: tBool()}
			case m == "DeepCopy":
				return val{binds: bs, term: recv.term, ty: recv.ty}
			case m == "Matches" && recv.ty.K == "struct" && recv.ty.N == "GSelector" && len(vs) == 1 && vs[0].ty.K == "smap":
				// labels.Selector.Matches: library code mapped to the model (see metav1.LabelSelectorAsSelector)
				return val{binds: bs, term: "(Go.selectorMatches " + recv.term + " " + vs[0].term + ")", ty: tBool()}
			case m == "GetAnnotations":
				r := t.sel(val{binds: bs, term: recv.term, ty: recv.ty}, "Annotations", x)
				return r
			case m == "GetName":
				return t.sel(val{binds: bs, term: recv.term, ty: recv.ty}, "Name", x)
			case m == "GetNamespace":
				return t.sel(val{binds: bs, term: recv.term, ty: recv.ty}, "Namespace", x)
			}
			dieT("gotolean: unsupported method %s at %s", m, pos(x))
		}
	}
	// conversions
	base := name
	if i := strings.Index(base, "."); i >= 0 {
		base = base[i+1:]
	}
	if ty, ok := namedTypes[base]; ok && len(x.Args) == 1 && ty.K == "str" {
		v := t.ex(x.Args[0])
		return val{binds: v.binds, term: v.term, ty: ty}
	}
	if name == "int" || name == "int32" || name == "int64" || name == "string" || name == "time.Duration" {
		return t.ex(x.Args[0])
	}
	if name == "append" {
		vs, bs := args()
		if len(vs) < 2 || vs[0].ty.K != "list" {
			dieT("gotolean: unsupported append at %s", pos(x))
		}
		if x.Ellipsis.IsValid() {
			return val{binds: bs, term: "(" + vs[0].term + " ++ " + vs[1].term + ")", ty: vs[0].ty}
		}
		var es []string
		for _, v := range vs[1:] {
			es = append(es, v.term)
		}
		return val{binds: bs, term: "(" + vs[0].term + " ++ [" + strings.Join(es, ", ") + "])", ty: vs[0].ty}
	}
	if name == "len" {
		vs, bs := args()
		if vs[0].ty.K == "str" {
			return val{binds: bs, term: "(Go.strLen " + vs[0].term + ")", ty: tInt()}
		}
		if vs[0].ty.K != "list" && vs[0].ty.K != "map" {
			// len of a map: the number of entries of the association list (a Go map has one entry per key: the bridges
			// assume the keys of the list distinct)
			dieT("gotolean: len of a non-slice at %s", pos(x))
		}
		return val{binds: bs, term: "(Int.ofNat (List.length " + vs[0].term + "))", ty: tInt()}
	}
	if name == "min" && len(x.Args) == 2 {
		vs, bs := args()
		if vs[0].ty.K != "int" || vs[1].ty.K != "int" {
			dieT("gotolean: min of non-integers at %s", pos(x))
		}
		return val{binds: bs, term: "(min " + vs[0].term + " " + vs[1].term + ")", ty: tInt()}
	}
	if name == "time.Since" && len(x.Args) == 1 {
		// time.Since(t) = time.Now().Sub(t): a read of the wall clock
		v := t.ex(x.Args[0])
		return val{binds: v.binds, term: "(" + t.newWall(x) + " - " + v.term + ")", ty: tDur()}
	}
	if name == "limits.CalculatePodToCreateAndDelete" && len(x.Args) == 1 {
		// translated by genLimits (EdsModel/Generated/Limits.lean): straight-line integer code, no panic
		v := t.ex(x.Args[0])
		return val{binds: v.binds, term: "(Generated.Limits.calculatePodToCreateAndDelete " + v.term + ")", ty: Ty{K: "tuple"}}
	}
	if name == "fmt.Sprintf" {
		return t.sprintf(x)
	}
	if name == "fmt.Errorf" {
		// a fresh non-nil error carrying its text (`%s` verbs only, like Sprintf)
		v := t.sprintf(x)
		return val{binds: v.binds, term: "(some " + v.term + ")", ty: tPtr(tStr())}
	}
	if name == "labels.Set" && len(x.Args) == 1 {
		return t.ex(x.Args[0]) // the conversion map[string]string -> labels.Set
	}
	if name == "metav1.LabelSelectorAsSelector" && len(x.Args) == 1 {
		// library code, mapped to the model: `metav1.LabelSelectorAsSelector(&s.Spec.NodeSelector)` of a setting `s` is
		// `Go.labelSelectorAsSelector s` (EdsModel/GoPreludeSetting.lean) — the selector of the setting and the error the model
		// keeps as `Setting.badSelector` (whether the conversion of that setting's selector fails is a field of the SETTING in
		// the model, so the argument must syntactically be the node selector of a setting); `selector.Matches(labels)` is
		// `Go.selectorMatches` (the `some` case of the model's `settingMatches`)
		u, ok := x.Args[0].(*ast.UnaryExpr)
		var inner ast.Expr
		if ok && u.Op == token.AND {
			if s1, ok := u.X.(*ast.SelectorExpr); ok && s1.Sel.Name == "NodeSelector" {
				if s2, ok := s1.X.(*ast.SelectorExpr); ok && s2.Sel.Name == "Spec" {
					inner = s2.X
				}
			}
		}
		if inner == nil {
			dieT("gotolean: LabelSelectorAsSelector of something other than &<setting>.Spec.NodeSelector at %s", pos(x))
		}
		v := t.ex(inner)
		if v.ty.K == "ptr" {
			v = t.deref(v, x)
		}
		if v.ty.K != "struct" || v.ty.N != "Setting" {
			dieT("gotolean: LabelSelectorAsSelector of something other than &<setting>.Spec.NodeSelector at %s", pos(x))
		}
		return val{binds: v.binds, term: "(Go.labelSelectorAsSelector " + v.term + ")", ty: Ty{K: "tuple"}}
	}
	if name == "metav1.NewTime" {
		return t.ex(x.Args[0])
	}
	// library code mapped to model functions (EdsModel/GoPrelude.lean); the arguments are still evaluated, in Go's
	// order, for their dereferences
	if name == "compareWithExtendedDaemonsetSettingOverwrite" && len(x.Args) == 2 {
		// compareWithExtendedDaemonsetSettingOverwrite(pod, withoutContainersOverwrittenByNode(edsName, rs, node)):
		// DeepCopy / json.Unmarshal / apiequality.Semantic.DeepEqual over resource lists
		inner, ok := x.Args[1].(*ast.CallExpr)
		if !ok || calleeName(inner) != "withoutContainersOverwrittenByNode" || len(inner.Args) != 3 {
			dieT("gotolean: compareWithExtendedDaemonsetSettingOverwrite on something other than withoutContainersOverwrittenByNode(…) at %s", pos(x))
		}
		pod := t.ex(x.Args[0])
		bs := append([]bind{}, pod.binds...)
		var node val
		for i, a := range inner.Args {
			v := t.ex(a)
			bs = append(bs, v.binds...)
			if i == 2 {
				node = v
			}
		}
		if pod.ty.K != "ptr" || pod.ty.E.N != "GPod" || node.ty.K != "ptr" || node.ty.E.N != "NodeItem" {
			dieT("gotolean: unexpected argument types of compareWithExtendedDaemonsetSettingOverwrite at %s", pos(x))
		}
		r := t.tmp("r")
		bs = append(bs, bind{r, "(Go.compareWithSettingOverwrite " + pod.term + " " + node.term + ")"})
		return val{binds: bs, term: r, ty: tBool()}
	}
	if name == "comparison.GenerateHashFromEDSResourceNodeAnnotation" && len(x.Args) == 3 {
		// the hash of the node's resource-override annotations for (namespace, name): the model's `Node.resHash`, which
		// the harness computes with this very function; the third argument must be `<node>.GetAnnotations()`
		var bs []bind
		for _, a := range x.Args[:2] {
			bs = append(bs, t.ex(a).binds...)
		}
		ce, ok := x.Args[2].(*ast.CallExpr)
		var se *ast.SelectorExpr
		if ok {
			se, ok = ce.Fun.(*ast.SelectorExpr)
		}
		if !ok || se.Sel.Name != "GetAnnotations" || len(ce.Args) != 0 {
			dieT("gotolean: GenerateHashFromEDSResourceNodeAnnotation on something other than the annotations of a node at %s", pos(x))
		}
		recv := t.ex(se.X)
		if recv.ty.K == "ptr" {
			recv = t.deref(recv, x)
		}
		if recv.ty.K != "struct" || recv.ty.N != "Node" {
			dieT("gotolean: GenerateHashFromEDSResourceNodeAnnotation on something other than the annotations of a node at %s", pos(x))
		}
		bs = append(bs, recv.binds...)
		return val{binds: bs, term: recv.term + ".resHash", ty: tStr()}
	}
	// translated functions
	if fi, ok := t.resolve(splitQual(name)); ok {
		if fi.spec.opaque {
			// an API-calling function that is not translated: the arguments are evaluated, the result is a parameter
			if len(fi.results) != 1 {
				dieT("gotolean: opaque function %s with other than one result at %s", fi.spec.goName, pos(x))
			}
			_, bs := args()
			r := t.newAPI(fi.results[0], fmt.Sprintf("the result of `%s(…)` (line %d of `%s`; not translated: assumed to return normally and to assign nothing through its arguments)",
				fi.spec.goName, fset.Position(x.Pos()).Line, t.cur.spec.goName), x)
			return val{binds: bs, term: r, ty: fi.results[0]}
		}
		if len(fi.retParams) > 0 && !fi.mutator {
			dieT("gotolean: call of a function that assigns through several / later pointer arguments at %s", pos(x))
		}
		bs, app := t.applied(fi, x)
		r := t.tmp("r")
		bs = append(bs, bind{r, app})
		if len(fi.results) == 1 {
			return val{binds: bs, term: r, ty: fi.results[0]}
		}
		return val{binds: bs, term: r, ty: Ty{K: "tuple"}}
	}
	if name == "time.Now" {
		// the wall clock: every call is a parameter of the translated function, in source order
		return val{term: t.newWall(x), ty: tTime()}
	}
	vs, bs := args()
	switch name {
	case "conditions.GetExtendedDaemonSetReplicaSetStatusCondition", "ersconditions.GetExtendedDaemonSetReplicaSetStatusCondition":
		s := t.deref(vs[0], x)
		bs = append(bs, s.binds[len(vs[0].binds):]...)
		return val{binds: bs, term: "(findCond " + s.term + ".conds " + vs[1].term + ")", ty: tPtr(tStruct("Cond"))}
	case "conditions.IsConditionTrue", "ersconditions.IsConditionTrue":
		s := t.deref(vs[0], x)
		bs = append(bs, s.binds[len(vs[0].binds):]...)
		return val{binds: bs, term: "(isCondTrue " + s.term + ".conds " + vs[1].term + ")", ty: tBool()}
	case "conditions.GetIndexForConditionType", "ersconditions.GetIndexForConditionType":
		s := t.deref(vs[0], x)
		bs = append(bs, s.binds[len(vs[0].binds):]...)
		return val{binds: bs, term: "(Go.condIndex " + s.term + ".conds " + vs[1].term + ")", ty: tInt()}
	case "intstr.ValueOrDefault":
		return val{binds: bs, term: "(some (" + vs[0].term + ".getD " + vs[1].term + "))", ty: tPtr(Ty{K: "ios"})}
	case "intstr.FromInt":
		return val{binds: bs, term: "(intVal " + vs[0].term + ")", ty: Ty{K: "ios"}}
	case "NewInt32":
		return val{binds: bs, term: "(some " + vs[0].term + ")", ty: tPtr(tInt())}
	case "intstrutil.GetValueFromIntOrPercent":
		// (value, error): the error is `none` of resolveIntOrPercent
		return val{binds: bs, term: "(Go.valueFromIntOrPercent " + vs[0].term + " " + vs[1].term + ")", ty: Ty{K: "tuple"}}
	case "utilserrors.NewAggregate":
		// nil when the list holds no (non-nil) error
		if len(vs) == 1 && vs[0].ty.K == "list" && vs[0].ty.E.K == "ptr" && vs[0].ty.E.E.K == "str" {
			return val{binds: bs, term: "(Go.newAggregate " + vs[0].term + ")", ty: tPtr(tStr())}
		}
	}
	if p, _ := splitQual(name); p != "" && t.opaqueCtx > 0 && t.foreignPkg(p) {
		// inside the initialiser of an opaque local: a call of a foreign function (`runtimeclient.InNamespace(…)`) has no
		// Lean term; its arguments have been evaluated for their dereferences
		return val{binds: bs, term: "()", ty: Ty{K: "opaque"}}
	}
	dieT("gotolean: unsupported call %s at %s", name, pos(x))
	return val{}
}

// ---------------------------------------------------------------------------------------------
// statements

// hasReturn: the statement can leave the enclosing statement list other than by falling through
// (`return`, or a `continue` / `break` of the enclosing loop).
func hasReturn(n ast.Node) bool {
	found := false
	var walk func(n ast.Node, inLoop bool)
	walk = func(n ast.Node, inLoop bool) {
		ast.Inspect(n, func(m ast.Node) bool {
			switch y := m.(type) {
			case *ast.ReturnStmt:
				found = true
			case *ast.BranchStmt:
				if !inLoop {
					found = true
				}
			case *ast.RangeStmt:
				if m != n {
					walk(y.Body, true) // its continue / break are its own
					return false
				}
			case *ast.ForStmt:
				if m != n {
					walk(y.Body, true)
					return false
				}
			case *ast.FuncLit:
				return false
			}
			return true
		})
	}
	walk(n, false)
	return found
}

func alwaysReturns(list []ast.Stmt) bool {
	if len(list) == 0 {
		return false
	}
	switch s := list[len(list)-1].(type) {
	case *ast.ReturnStmt:
		return true
	case *ast.BranchStmt:
		return s.Tok == token.CONTINUE || s.Tok == token.BREAK
	case *ast.IfStmt:
		if s.Else == nil {
			return false
		}
		eb, ok := s.Else.(*ast.BlockStmt)
		if !ok {
			return alwaysReturns(s.Body.List) && alwaysReturns([]ast.Stmt{s.Else})
		}
		return alwaysReturns(s.Body.List) && alwaysReturns(eb.List)
	}
	return false
}

// assigned lists the already declared locals (root identifiers) a statement list assigns.
func (t *tr) assigned(list []ast.Stmt) []string {
	set := map[string]bool{}
	var walk func(n ast.Node)
	root := func(e ast.Expr) string {
		for {
			switch x := e.(type) {
			case *ast.SelectorExpr:
				e = x.X
			case *ast.StarExpr:
				e = x.X
			case *ast.ParenExpr:
				e = x.X
			case *ast.IndexExpr:
				e = x.X
			case *ast.Ident:
				return x.Name
			default:
				return ""
			}
		}
	}
	walk = func(n ast.Node) {
		ast.Inspect(n, func(m ast.Node) bool {
			switch s := m.(type) {
			case *ast.AssignStmt:
				for _, l := range s.Lhs {
					r := root(l)
					if r == "" || r == "_" {
						continue
					}
					if _, isIdent := l.(*ast.Ident); isIdent && s.Tok == token.DEFINE {
						continue
					}
					if _, ok := t.lookup(r); ok {
						set[r] = true
					}
				}
				// `err = f(x, p.F)` where f also assigns through pointer parameters (callAssign)
				if len(s.Rhs) == 1 {
					if c, ok := s.Rhs[0].(*ast.CallExpr); ok {
						for _, a := range t.retArgs(c) {
							if r := root(a); r != "" {
								if _, ok := t.lookup(r); ok {
									set[r] = true
								}
							}
						}
					}
				}
			case *ast.IncDecStmt:
				if r := root(s.X); r != "" {
					if _, ok := t.lookup(r); ok {
						set[r] = true
					}
				}
			case *ast.ExprStmt:
				if c, ok := s.X.(*ast.CallExpr); ok && len(c.Args) > 0 {
					if isDeleteCall(c) || isSortCall(c) {
						if r := root(c.Args[0]); r != "" {
							if _, ok := t.lookup(r); ok {
								set[r] = true
							}
						}
					}
					if t.isMutatorCall(c) {
						a := c.Args[0]
						if u, ok := a.(*ast.UnaryExpr); ok && u.Op == token.AND {
							a = u.X
						}
						if r := root(a); r != "" {
							if _, ok := t.lookup(r); ok {
								set[r] = true
							}
						}
					}
					if _, idx, isVoid := t.voidCallee(c); isVoid {
						for _, i := range idx {
							if r := root(c.Args[i]); r != "" {
								if _, ok := t.lookup(r); ok {
									set[r] = true
								}
							}
						}
					}
				}
			}
			return true
		})
	}
	for _, s := range list {
		walk(s)
	}
	var out []string
	for k := range set {
		out = append(out, k)
	}
	sort.Strings(out)
	return out
}

func (t *tr) isMutatorCall(c *ast.CallExpr) bool {
	name := calleeName(c)
	if name == "" {
		return false
	}
	pkg, base := splitQual(name)
	if pkg != "" {
		if _, isLocal := t.lookup(pkg); isLocal {
			return false // a method call on a local variable
		}
	}
	fi, ok := t.resolve(pkg, base)
	return ok && fi.mutator
}

// isLoggerCall: `params.Logger.Info(…)`, `logger.V(1).Info(…)`: no effect on the translated state; the
// arguments are still evaluated (their dereferences can panic).  Returns the expression in front of
// `.Logger` (dereferenced by the call), or nil for a plain local logger.
func isLoggerCall(c *ast.CallExpr) (ast.Expr, bool) {
	e := c.Fun
	for {
		switch x := e.(type) {
		case *ast.SelectorExpr:
			if x.Sel.Name == "Logger" {
				return x.X, true
			}
			e = x.X
		case *ast.CallExpr:
			e = x.Fun
		case *ast.Ident:
			return nil, x.Name == "logger" || x.Name == "log"
		default:
			return nil, false
		}
	}
}

// isDeleteCall: the builtin `delete(m, k)`
func isDeleteCall(c *ast.CallExpr) bool {
	id, ok := c.Fun.(*ast.Ident)
	return ok && id.Name == "delete" && len(c.Args) == 2
}

// a slot is one variable joined after a conditional or carried through a loop.  A pointer variable
// whose pointee already has a name is joined through that name (the pointee); a pointer variable
// that has not been dereferenced yet is joined as the pointer itself (`Option T`): a branch that
// assigned through it yields `some <its pointee>`.
type slot struct {
	goName   string
	lean     string
	ty       Ty
	viaAlias bool
}

func (t *tr) slots(names []string) []slot { return t.slotsW(names, nil) }

// slotsW: as slots; a pointer variable the joined statements assign as a whole (`p = q`, `r, err = f(…, p)` where f returns
// what it left behind p: wholeAssigned) is joined as the pointer itself even when its pointee has a name — that name is
// stale in a branch that replaced the pointer.
func (t *tr) slotsW(names []string, whole map[string]bool) []slot {
	var out []slot
	for _, n := range names {
		f, _ := t.lookup(n)
		if f.ty.K == "ptr" && !whole[n] {
			if a := t.aliasOf(n); a != "" {
				out = append(out, slot{n, a, *f.ty.E, true})
				continue
			}
		}
		out = append(out, slot{n, f.lean, f.ty, false})
	}
	return out
}

// wholeAssigned: the pointer locals a statement list assigns as a whole: `p = e`, or `p` passed to a function that has Go
// results and assigns through that parameter (callAssign assigns what the function returns for it back to `p`)
func (t *tr) wholeAssigned(list []ast.Stmt) map[string]bool {
	out := map[string]bool{}
	mark := func(e ast.Expr) {
		if id, ok := e.(*ast.Ident); ok {
			if f, ok := t.lookup(id.Name); ok && f.ty.K == "ptr" {
				out[id.Name] = true
			}
		}
	}
	for _, st := range list {
		ast.Inspect(st, func(m ast.Node) bool {
			if as, ok := m.(*ast.AssignStmt); ok {
				if as.Tok != token.DEFINE {
					for _, l := range as.Lhs {
						mark(l)
					}
				}
				if len(as.Rhs) == 1 {
					if c, ok := as.Rhs[0].(*ast.CallExpr); ok {
						for _, a := range t.retArgs(c) {
							mark(a)
						}
					}
				}
			}
			return true
		})
	}
	return out
}

// the joined variables as a pattern and as a parameter list
func slotPattern(ss []slot) (string, string) {
	if len(ss) == 0 {
		return "()", "(_ : Unit)"
	}
	var ls, ps []string
	for _, sl := range ss {
		ls = append(ls, sl.lean)
		ps = append(ps, "("+sl.lean+" : "+sl.ty.lean()+")")
	}
	if len(ls) == 1 {
		return ls[0], ps[0]
	}
	return "(" + strings.Join(ls, ", ") + ")", strings.Join(ps, " ")
}

// the current values of the joined variables (evaluated where control reaches the join)
func (t *tr) slotValues(ss []slot) []string {
	var out []string
	for _, sl := range ss {
		if sl.ty.K == "ptr" && !sl.viaAlias {
			if a := t.aliasOf(sl.goName); a != "" {
				out = append(out, "(some "+a+")")
				continue
			}
		}
		out = append(out, sl.lean)
	}
	return out
}

func (t *tr) slotTuple(ss []slot) string {
	vs := t.slotValues(ss)
	switch len(vs) {
	case 0:
		return "()"
	case 1:
		return vs[0]
	}
	return "(" + strings.Join(vs, ", ") + ")"
}

// after a join the pointee names of the joined pointer variables are no longer valid
func (t *tr) slotsJoined(ss []slot) {
	for _, sl := range ss {
		if sl.ty.K == "ptr" && !sl.viaAlias {
			t.alias[len(t.alias)-1][sl.goName] = ""
		}
	}
}

// assignPath emits the rebuild of the local variable at the root of `lhs` with the value `v`, then
// `rest`.
func (t *tr) assignPath(lhs ast.Expr, v string, rest func() string) string {
	switch x := lhs.(type) {
	case *ast.Ident:
		f, ok := t.lookup(x.Name)
		if !ok {
			dieT("gotolean: assignment to unknown %s at %s", x.Name, pos(x))
		}
		if f.ty.K == "ptr" {
			t.alias[len(t.alias)-1][x.Name] = ""
		}
		return "let " + f.lean + " : " + f.ty.lean() + " := " + v + "\n" + rest()
	case *ast.SelectorExpr:
		if id, ok := x.X.(*ast.Ident); ok {
			if f0, ok := t.lookup(id.Name); ok && f0.ty.K == "ptr" {
				// make sure the pointee has a name (dereference now, as Go does), then rebuild it
				d := t.deref(t.ex(id), x)
				sd := structs[d.ty.N]
				f, ok := sd.fields[x.Sel.Name]
				if !ok {
					dieT("gotolean: unknown field %s at %s", x.Sel.Name, pos(x))
				}
				return wrap(d.binds, "let "+d.term+" : "+d.ty.lean()+" := { "+d.term+" with "+f.lean+" := "+v+" }\n"+rest())
			}
		}
		base := t.ex(x.X)
		if base.ty.K == "ptr" {
			p := t.tmp("p")
			sd := structs[base.ty.E.N]
			f, ok := sd.fields[x.Sel.Name]
			if !ok {
				dieT("gotolean: unknown field %s at %s", x.Sel.Name, pos(x))
			}
			inner := t.assignPath(x.X, "(some { "+p+" with "+f.lean+" := "+v+" })", rest)
			return wrap(base.binds, "Option.bind "+base.term+" fun "+p+" =>\n"+inner)
		}
		if base.ty.K == "struct" {
			sd := structs[base.ty.N]
			f, ok := sd.fields[x.Sel.Name]
			if !ok {
				dieT("gotolean: unknown field %s at %s", x.Sel.Name, pos(x))
			}
			return wrap(base.binds, t.assignPath(x.X, "{ "+base.term+" with "+f.lean+" := "+v+" }", rest))
		}
	case *ast.IndexExpr:
		// l[i] = v: rebuild the list (`none` = index out of range), then assign it to l
		l, i := t.ex(x.X), t.ex(x.Index)
		if l.ty.K == "smap" && i.ty.K == "str" {
			// m[k] = v on a map[string]string: the model's SMap.set (a nil map would panic: only locals initialised by a
			// literal reach this in the translated code)
			bs := append(append([]bind{}, l.binds...), i.binds...)
			return wrap(bs, t.assignPath(x.X, "(SMap.set "+l.term+" "+i.term+" "+v+")", rest))
		}
		if l.ty.K != "list" {
			dieT("gotolean: indexed assignment to a non-slice at %s", pos(lhs))
		}
		bs := append(append([]bind{}, l.binds...), i.binds...)
		nl := t.tmp("l")
		return wrap(bs, "Option.bind (Go.setIndex "+l.term+" "+i.term+" "+v+") fun "+nl+" =>\n"+t.assignPath(x.X, nl, rest))
	}
	dieT("gotolean: unsupported assignment target at %s", pos(lhs))
	return ""
}

// block translates list[i:], `fall` being the term evaluated when control reaches the end of the list.
func (t *tr) block(list []ast.Stmt, fall func() string) string {
	if len(list) == 0 {
		return fall()
	}
	rest := func() string { return t.block(list[1:], fall) }
	if t.mentionsAPI(list[0]) {
		// a statement that talks to the API server through the client handle is an opaque step (apiStep), unless it is an
		// `if` whose condition does not: then its branches are translated and the steps are inside them
		is, isIf := list[0].(*ast.IfStmt)
		if !(isIf && (is.Init == nil || !t.mentionsAPI(is.Init)) && !t.mentionsAPI(is.Cond)) {
			return t.apiStep(list[0], rest)
		}
	}
	switch s := list[0].(type) {
	case *ast.ReturnStmt:
		var bs []bind
		var ts []string
		if len(s.Results) == 0 {
			return t.retVoid(s)
		}
		if len(s.Results) == 1 && t.cur.nGo > 1 {
			if len(t.cur.retParams) > 0 {
				dieT("gotolean: unsupported return at %s", pos(s))
			}
			// return f(…) of a function with several results
			v := t.ex(s.Results[0])
			if v.ty.K != "tuple" {
				dieT("gotolean: unsupported return at %s", pos(s))
			}
			return wrap(v.binds, "some "+v.term)
		}
		for i, r := range s.Results {
			v := t.ex(r)
			bs = append(bs, v.binds...)
			want := t.cur.results[i]
			if v.ty.K == "nil" {
				ts = append(ts, "none")
			} else if want.K == "ptr" && want.E.K == "str" && v.ty.K == "str" {
				ts = append(ts, "(some "+v.term+")") // a sentinel error value
			} else {
				ts = append(ts, v.term)
			}
		}
		for _, pn := range t.cur.retParams {
			v := t.ex(&ast.Ident{Name: pn, NamePos: s.Pos()})
			ts = append(ts, v.term)
		}
		out := ts[0]
		if len(ts) > 1 {
			out = "(" + strings.Join(ts, ", ") + ")"
		}
		return wrap(bs, "some "+out)
	case *ast.DeclStmt:
		gd := s.Decl.(*ast.GenDecl)
		var sb strings.Builder
		for i, sp := range gd.Specs {
			vs := sp.(*ast.ValueSpec)
			if len(vs.Values) > 0 {
				// `var x = e` / `var ( a = e1; b T; … )`: the initialised specs are `x := e` in source order
				if vs.Type != nil || len(vs.Values) != len(vs.Names) {
					dieT("gotolean: unsupported var declaration at %s", pos(s))
				}
				var lhs []ast.Expr
				for _, n := range vs.Names {
					lhs = append(lhs, n)
				}
				as := &ast.AssignStmt{Lhs: lhs, TokPos: vs.Pos(), Tok: token.DEFINE, Rhs: vs.Values}
				var later []ast.Stmt
				if i+1 < len(gd.Specs) {
					later = append(later, &ast.DeclStmt{Decl: &ast.GenDecl{TokPos: gd.TokPos, Tok: gd.Tok, Specs: gd.Specs[i+1:]}})
				}
				later = append(later, list[1:]...)
				return sb.String() + t.assign(as, func() string { return t.block(later, fall) })
			}
			ty := t.goType(vs.Type)
			for _, n := range vs.Names {
				ln := t.declare(n.Name, ty)
				fmt.Fprintf(&sb, "let %s : %s := %s\n", ln, ty.lean(), zero(ty))
			}
		}
		return sb.String() + rest()
	case *ast.AssignStmt:
		return t.assign(s, rest)
	case *ast.IncDecStmt:
		// x++ is x = x + 1
		op := token.ADD
		if s.Tok == token.DEC {
			op = token.SUB
		}
		one := &ast.BasicLit{ValuePos: s.TokPos, Kind: token.INT, Value: "1"}
		return t.assign(&ast.AssignStmt{Lhs: []ast.Expr{s.X}, TokPos: s.TokPos, Tok: token.ASSIGN,
			Rhs: []ast.Expr{&ast.BinaryExpr{X: s.X, OpPos: s.TokPos, Op: op, Y: one}}}, rest)
	case *ast.ExprStmt:
		c, ok := s.X.(*ast.CallExpr)
		if ok {
			if fi, idx, isVoid := t.voidCallee(c); isVoid {
				return t.voidCall(c, fi, idx, rest)
			}
			if recv, isLog := isLoggerCall(c); isLog {
				var bs []bind
				if recv != nil {
					rv := t.ex(recv)
					if rv.ty.K == "ptr" {
						rv = t.deref(rv, c)
					}
					bs = append(bs, rv.binds...)
				}
				for _, a := range c.Args {
					bs = append(bs, t.ex(a).binds...)
				}
				return wrap(bs, rest())
			}
			if isDeleteCall(c) {
				m, k := t.ex(c.Args[0]), t.ex(c.Args[1])
				bs := append(append([]bind{}, m.binds...), k.binds...)
				if m.ty.K == "map" {
					// delete(m, k) on an association list: every entry whose key is `==` k goes
					kt := k.term
					if k.ty.K == "nil" {
						kt = "none"
					}
					return wrap(bs, t.assignPath(c.Args[0], "(Go.mapErase "+keyEq(*m.ty.Key, s)+" "+m.term+" "+kt+")", rest))
				}
				if m.ty.K != "smap" {
					dieT("gotolean: delete on something other than a map at %s", pos(s))
				}
				return wrap(bs, t.assignPath(c.Args[0], "(SMap.erase "+m.term+" "+k.term+")", rest))
			}
			if calleeName(c) == "sort.SliceStable" && len(c.Args) == 2 {
				return t.sortStable(c, rest)
			}
			if calleeName(c) == "sort.Sort" && len(c.Args) == 1 {
				return t.sortSort(c, rest)
			}
			if pkg, _ := splitQual(calleeName(c)); pkg != "" && t.cur.imports[pkg] == "pkg/controller/metrics" {
				// a metric update: no effect on the translated state; the arguments are still evaluated
				if _, isLocal := t.lookup(pkg); !isLocal {
					var bs []bind
					for _, a := range c.Args {
						bs = append(bs, t.ex(a).binds...)
					}
					return wrap(bs, rest())
				}
			}
		}
		if !ok || !t.isMutatorCall(c) {
			dieT("gotolean: unsupported expression statement at %s", pos(s))
		}
		v := t.ex(c) // Option (pointer to the mutated pointee)
		target := c.Args[0]
		if u, ok := target.(*ast.UnaryExpr); ok && u.Op == token.AND {
			// f(&x.F): the pointee is the embedded struct
			p := t.tmp("p")
			return wrap(v.binds, "Option.bind "+v.term+" fun "+p+" =>\n"+t.assignPath(u.X, p, rest))
		}
		return wrap(v.binds, t.assignPath(target, v.term, rest))
	case *ast.IfStmt:
		return t.ifStmt(s, rest)
	case *ast.RangeStmt:
		return t.rangeStmt(s, rest)
	case *ast.SwitchStmt:
		return t.switchStmt(s, rest)
	case *ast.BranchStmt:
		if len(t.loops) == 0 || s.Label != nil {
			dieT("gotolean: unsupported branch statement at %s", pos(s))
		}
		switch s.Tok {
		case token.CONTINUE:
			return t.loops[len(t.loops)-1].cont()
		case token.BREAK:
			return t.loops[len(t.loops)-1].brk()
		}
	}
	dieT("gotolean: unsupported statement at %s", pos(list[0]))
	return ""
}

// assignTargets: the expressions a statement assigns to or through (`x = …`, `x.F = …`, `x++`, `delete(x.M, k)`,
// `sort.SliceStable(x, …)`, a mutator call on `x` / `&x.F`, the pointer arguments a called function assigns through)
func (t *tr) assignTargets(n ast.Node) []ast.Expr {
	var out []ast.Expr
	ast.Inspect(n, func(m ast.Node) bool {
		switch y := m.(type) {
		case *ast.AssignStmt:
			for _, l := range y.Lhs {
				if _, isIdent := l.(*ast.Ident); isIdent && y.Tok == token.DEFINE {
					continue
				}
				out = append(out, l)
			}
			if len(y.Rhs) == 1 {
				if c, ok := y.Rhs[0].(*ast.CallExpr); ok {
					out = append(out, t.retArgs(c)...)
				}
			}
		case *ast.IncDecStmt:
			out = append(out, y.X)
		case *ast.ExprStmt:
			c, ok := y.X.(*ast.CallExpr)
			if !ok || len(c.Args) == 0 {
				return true
			}
			switch {
			case isDeleteCall(c), isSortCall(c):
				out = append(out, c.Args[0])
			case t.isMutatorCall(c):
				a := c.Args[0]
				if u, ok := a.(*ast.UnaryExpr); ok && u.Op == token.AND {
					a = u.X
				}
				out = append(out, a)
			default:
				if _, idx, isVoid := t.voidCallee(c); isVoid {
					for _, i := range idx {
						out = append(out, c.Args[i])
					}
				}
			}
		}
		return true
	})
	return out
}

// retArgs: the arguments of a call `f(…)` used as a value that f assigns through (f has Go results and also returns
// pointer parameters: callAssign); nil for any other call
func (t *tr) retArgs(c *ast.CallExpr) []ast.Expr {
	pkg, base := splitQual(calleeName(c))
	if base == "" {
		return nil
	}
	if pkg != "" {
		if _, isLocal := t.lookup(pkg); isLocal {
			return nil
		}
	}
	fi, ok := t.resolve(pkg, base)
	if !ok || fi.spec.opaque || fi.mutator || fi.nGo == 0 || len(fi.retParams) == 0 {
		return nil
	}
	idx, ok := retArgIndex(fi, c)
	if !ok {
		return nil
	}
	var out []ast.Expr
	for _, i := range idx {
		out = append(out, c.Args[i])
	}
	return out
}

// mentionsAPI: the statement / expression uses the API client handle (a parameter of type client.Client) other than by
// passing it on to a function this group translates (or declares opaque)
func (t *tr) mentionsAPI(n ast.Node) bool {
	if !t.hasAPI {
		return false // the function has no API client handle
	}
	found := false
	isAPI := func(e ast.Expr) bool {
		if se, ok := e.(*ast.SelectorExpr); ok && se.Sel.Name == "client" {
			e = se.X // `r.client`
		}
		id, ok := e.(*ast.Ident)
		if !ok {
			return false
		}
		f, ok := t.lookup(id.Name)
		return ok && f.ty.K == "api"
	}
	var walk func(n ast.Node)
	walk = func(n ast.Node) {
		ast.Inspect(n, func(m ast.Node) bool {
			if found {
				return false
			}
			switch y := m.(type) {
			case *ast.CallExpr:
				if pkg, base := splitQual(calleeName(y)); base != "" {
					_, isLocal := t.lookup(pkg)
					if pkg == "" || !isLocal {
						if _, ok := t.resolve(pkg, base); ok {
							for _, a := range y.Args {
								if !isAPI(a) {
									walk(a)
								}
							}
							return false
						}
					}
				}
			case *ast.SelectorExpr:
				walk(y.X)
				return false
			case *ast.KeyValueExpr:
				walk(y.Value)
				return false
			case *ast.Ident:
				if isAPI(y) {
					found = true
				}
			}
			return true
		})
	}
	walk(n)
	return found
}

// tryEx: the value of an expression if it is in the subset (no effect on the translation state but the fresh-name counter)
func (t *tr) tryEx(e ast.Expr) (v val, ok bool) {
	t.push()
	defer t.pop()
	defer func() {
		if r := recover(); r != nil {
			if _, isT := r.(trErr); !isT {
				panic(r)
			}
			ok = false
		}
	}()
	return t.ex(e), true
}

// apiStep: a statement that talks to the API server through the client handle (`if err = client.List(…); err != nil { … }
// else { for … { deletePodLabel(…, client, …) } }`) is not translated.  It is an opaque step: assumed to return normally
// (no panic, no `return` — refused) and to change nothing of the translated state but the paths it syntactically assigns
// (`err`, `result.Result.Requeue`), each of which holds an arbitrary value afterwards — a fresh synthetic parameter
// `apiResN` of the translated function, universally quantified in the bridges.  Refused: a step that declares locals
// visible after it, that assigns through a pointer not dereferenced before, or that passes translated state by reference
// to a call (it could be changed behind the translation's back).
func (t *tr) apiStep(s ast.Stmt, rest func() string) string {
	line := fset.Position(s.Pos()).Line
	switch d := s.(type) {
	case *ast.AssignStmt:
		if d.Tok == token.DEFINE {
			dieT("gotolean: an API step that declares locals at %s", pos(s))
		}
	case *ast.DeclStmt:
		dieT("gotolean: an API step that declares locals at %s", pos(s))
	}
	if hasReturn(s) {
		dieT("gotolean: an API step that returns or branches out at %s", pos(s))
	}
	// names declared inside the statement (they hide outer locals of the same name)
	inner := map[string]bool{}
	ast.Inspect(s, func(m ast.Node) bool {
		switch y := m.(type) {
		case *ast.AssignStmt:
			if y.Tok == token.DEFINE {
				for _, l := range y.Lhs {
					if id, ok := l.(*ast.Ident); ok {
						inner[id.Name] = true
					}
				}
			}
		case *ast.RangeStmt:
			if y.Tok != token.DEFINE && (y.Key != nil || y.Value != nil) {
				dieT("gotolean: range with assignment to existing variables at %s", pos(y))
			}
			for _, e := range []ast.Expr{y.Key, y.Value} {
				if id, ok := e.(*ast.Ident); ok {
					inner[id.Name] = true
				}
			}
		case *ast.ValueSpec:
			for _, n := range y.Names {
				inner[n.Name] = true
			}
		case *ast.FuncLit:
			dieT("gotolean: a function literal inside an API step at %s", pos(y))
		}
		return true
	})
	var rootOf func(e ast.Expr) string
	rootOf = func(e ast.Expr) string {
		switch x := e.(type) {
		case *ast.SelectorExpr:
			return rootOf(x.X)
		case *ast.StarExpr:
			return rootOf(x.X)
		case *ast.ParenExpr:
			return rootOf(x.X)
		case *ast.IndexExpr:
			return rootOf(x.X)
		case *ast.Ident:
			return x.Name
		}
		return ""
	}
	outer := func(e ast.Expr) (field, bool) {
		r := rootOf(e)
		if r == "" || r == "_" || inner[r] {
			return field{}, false
		}
		f, ok := t.lookup(r)
		return f, ok && !f.ty.dropped()
	}
	// the paths it assigns
	targets := map[string]ast.Expr{}
	addTarget := func(e ast.Expr) {
		if _, ok := outer(e); !ok {
			return
		}
		p := selString(e)
		if p == "" {
			dieT("gotolean: an API step assigns to something other than a variable or a field path at %s", pos(e))
		}
		targets[p] = e
	}
	ast.Inspect(s, func(m ast.Node) bool {
		switch y := m.(type) {
		case *ast.AssignStmt:
			for _, l := range y.Lhs {
				if _, isIdent := l.(*ast.Ident); isIdent && y.Tok == token.DEFINE {
					continue
				}
				addTarget(l)
			}
			if len(y.Rhs) == 1 {
				if c, ok := y.Rhs[0].(*ast.CallExpr); ok {
					for _, a := range t.retArgs(c) {
						addTarget(a)
					}
				}
			}
		case *ast.IncDecStmt:
			addTarget(y.X)
		case *ast.CallExpr:
			if _, isLog := isLoggerCall(y); isLog {
				return false
			}
			switch {
			case isDeleteCall(y), isSortCall(y):
				addTarget(y.Args[0])
			case len(y.Args) > 0 && t.isMutatorCall(y):
				a := y.Args[0]
				if u, ok := a.(*ast.UnaryExpr); ok && u.Op == token.AND {
					a = u.X
				}
				addTarget(a)
			default:
				if _, idx, isVoid := t.voidCallee(y); isVoid {
					for _, i := range idx {
						addTarget(y.Args[i])
					}
					break
				}
				if pkg, base := splitQual(calleeName(y)); base != "" {
					if _, isLocal := t.lookup(pkg); pkg == "" || !isLocal {
						if _, ok := t.resolve(pkg, base); ok {
							break // a translated function: what it assigns through is covered above
						}
					}
				}
				// any other call: translated state must not be passed by reference
				for _, a := range y.Args {
					ref := false
					if u, ok := a.(*ast.UnaryExpr); ok && u.Op == token.AND {
						a, ref = u.X, true
					}
					if selString(a) == "" {
						continue
					}
					if _, ok := outer(a); !ok {
						continue
					}
					if v, ok := t.tryEx(a); ok && !v.ty.dropped() {
						switch v.ty.K {
						case "ptr", "list", "map", "smap":
							ref = true
						}
					}
					if ref {
						dieT("gotolean: an API step passes translated state by reference (%s) at %s", selString(a), pos(a))
					}
				}
			}
		}
		return true
	})
	var paths []string
	for p := range targets {
		paths = append(paths, p)
	}
	sort.Strings(paths)
	var keep []string
	for _, p := range paths {
		covered := false
		for _, q := range paths {
			if q != p && strings.HasPrefix(p, q+".") {
				covered = true
			}
		}
		if !covered {
			keep = append(keep, p)
		}
	}
	kind := "statement"
	switch s.(type) {
	case *ast.IfStmt:
		kind = "`if` statement"
	case *ast.RangeStmt, *ast.ForStmt:
		kind = "loop"
	}
	var chain func(i int) string
	chain = func(i int) string {
		if i == len(keep) {
			return rest()
		}
		e := targets[keep[i]]
		f, _ := t.lookup(rootOf(e))
		ty := f.ty
		if _, plain := e.(*ast.Ident); !plain {
			if f.ty.K == "ptr" && t.aliasOf(rootOf(e)) == "" {
				dieT("gotolean: an API step assigns through the pointer %s, which has not been dereferenced before, at %s", rootOf(e), pos(e))
			}
			v, ok := t.tryEx(e)
			if !ok {
				dieT("gotolean: an API step assigns to a path outside the subset (%s) at %s", keep[i], pos(e))
			}
			ty = v.ty
		}
		name := t.newAPI(ty, fmt.Sprintf("the value of `%s` after the API %s at line %d of `%s` (not translated: assumed to return normally and to change nothing else of the translated state)",
			keep[i], kind, line, t.cur.spec.goName), s)
		return t.assignPath(e, name, func() string { return chain(i + 1) })
	}
	return chain(0)
}

// sortStable: `sort.SliceStable(xs, func(i, j int) bool { return e })` is `xs = Go.stableSortBy less xs` (library code, mapped
// to a model function: List.mergeSort, see GoPrelude), `less` being the translated comparator as a function of the two
// ELEMENTS compared — the body must mention i and j only as `xs[i]` and `xs[j]`.  The comparator is in the Option monad
// like everything else (`none` = it panics).
func (t *tr) sortStable(c *ast.CallExpr, rest func() string) string {
	sl, ok := c.Args[0].(*ast.Ident)
	fl, ok2 := c.Args[1].(*ast.FuncLit)
	if !ok || !ok2 {
		dieT("gotolean: unsupported sort.SliceStable at %s", pos(c))
	}
	f, isLocal := t.lookup(sl.Name)
	if !isLocal || f.ty.K != "list" {
		dieT("gotolean: sort.SliceStable of something other than a local slice at %s", pos(c))
	}
	var ns []string
	for _, p := range fl.Type.Params.List {
		if id, ok := p.Type.(*ast.Ident); !ok || id.Name != "int" {
			dieT("gotolean: unsupported comparator at %s", pos(fl))
		}
		for _, n := range p.Names {
			ns = append(ns, n.Name)
		}
	}
	if len(ns) != 2 || len(fl.Body.List) != 1 {
		dieT("gotolean: unsupported comparator at %s", pos(fl))
	}
	ret, ok := fl.Body.List[0].(*ast.ReturnStmt)
	if !ok || len(ret.Results) != 1 {
		dieT("gotolean: unsupported comparator at %s", pos(fl))
	}
	if _, hides := t.lookup(ns[0]); hides {
		dieT("gotolean: the comparator's index %s hides a local at %s", ns[0], pos(fl))
	}
	if _, hides := t.lookup(ns[1]); hides {
		dieT("gotolean: the comparator's index %s hides a local at %s", ns[1], pos(fl))
	}
	a, b := t.tmp("a"), t.tmp("b")
	t.push()
	saved := t.less
	t.less = &lessCtx{slice: sl.Name, i: ns[0], j: ns[1], a: a, b: b}
	nowBefore, apiBefore := t.nowN, len(t.apiTys)
	v := t.ex(ret.Results[0])
	t.less = saved
	t.pop()
	if t.nowN != nowBefore || len(t.apiTys) != apiBefore {
		dieT("gotolean: the comparator reads the wall clock or calls the API at %s", pos(fl))
	}
	if v.ty.K != "bool" {
		dieT("gotolean: the comparator does not return a bool at %s", pos(fl))
	}
	less := "(fun " + a + " " + b + " =>\n" + wrap(v.binds, "some "+v.term) + ")"
	r := t.tmp("l")
	return "Option.bind (Go.stableSortBy " + less + " " + f.lean + ") fun " + r + " =>\n" + t.assignPath(c.Args[0], r, rest)
}

// isSortCall: `sort.SliceStable(xs, less)` or `sort.Sort(xs)` / `sort.Sort(T(xs))` — a statement that assigns its first argument
func isSortCall(c *ast.CallExpr) bool {
	switch calleeName(c) {
	case "sort.SliceStable":
		return len(c.Args) == 2
	case "sort.Sort":
		if len(c.Args) == 1 {
			// the slice sorted is what assigned / root see: strip the conversion `T(xs)`
			if cv, ok := c.Args[0].(*ast.CallExpr); ok && len(cv.Args) == 1 {
				if _, isId := cv.Fun.(*ast.Ident); isId {
					c.Args[0] = cv.Args[0]
					sortConv[c] = cv.Fun.(*ast.Ident).Name
				}
			}
			return true
		}
	}
	return false
}

// sort.Sort(T(xs)) calls whose conversion isSortCall stripped: the call -> T
var sortConv = map[*ast.CallExpr]string{}

// sortSort: `sort.Sort(xs)` (xs a local declared `var xs T`) or `sort.Sort(T(xs))`, T a named slice type of the translated
// files whose method `Less(i, j int) bool` is translated (in this group or one it depends on).  Library code, mapped to the
// same model function as sort.SliceStable: `xs = Go.stableSortBy less xs` with `less a b := T.Less([a, b], 0, 1)` — the
// translated method applied to the two-element slice of the elements compared (`Less(i, j)` is assumed to read its receiver
// only at i and j: the contract of sort.Interface together with Swap, which is the plain element swap here — Len / Swap are
// checked to be the canonical ones).  sort.Sort is NOT stable: the mapping says what it returns only when `less` leaves no
// ties between different elements of the slice (then every sorting algorithm returns the same slice); the bridges carry that
// hypothesis.
func (t *tr) sortSort(c *ast.CallExpr, rest func() string) string {
	isSortCall(c)
	tyName := sortConv[c]
	sl, ok := c.Args[0].(*ast.Ident)
	if !ok {
		dieT("gotolean: unsupported sort.Sort at %s", pos(c))
	}
	f, isLocal := t.lookup(sl.Name)
	if !isLocal || f.ty.K != "list" {
		dieT("gotolean: sort.Sort of something other than a local slice at %s", pos(c))
	}
	if tyName == "" {
		tyName = declaredTypeName(t.cur.decl, sl.Name)
	}
	if tyName == "" {
		dieT("gotolean: sort.Sort of a slice whose named type is not evident at %s", pos(c))
	}
	var less *fnInfo
	for _, fi := range t.fns {
		if fi.spec.recv == tyName && fi.spec.goName == "Less" && filepath.Dir(fi.spec.file) == filepath.Dir(t.cur.spec.file) {
			less = fi
		}
	}
	if less == nil {
		dieT("gotolean: %s.Less is not translated (sort.Sort at %s)", tyName, pos(c))
	}
	if less.needsNil || less.nowN != 0 || len(less.apiTys) != 0 || len(less.params) != 3 || len(less.results) != 1 || less.results[0].K != "bool" {
		dieT("gotolean: unsupported %s.Less (sort.Sort at %s)", tyName, pos(c))
	}
	checkLenSwap(filepath.Join(t.repo, less.spec.file), tyName)
	a, b := t.tmp("a"), t.tmp("b")
	lessT := "(fun " + a + " " + b + " => " + less.spec.leanName + " [" + a + ", " + b + "] 0 1)"
	r := t.tmp("l")
	return "Option.bind (Go.stableSortBy " + lessT + " " + f.lean + ") fun " + r + " =>\n" + t.assignPath(c.Args[0], r, rest)
}

// declaredTypeName: the named type T of `var x T` in the body of a function ("" if there is none)
func declaredTypeName(fd *ast.FuncDecl, name string) string {
	out := ""
	ast.Inspect(fd.Body, func(n ast.Node) bool {
		if ds, ok := n.(*ast.DeclStmt); ok {
			if gd, ok := ds.Decl.(*ast.GenDecl); ok && gd.Tok == token.VAR {
				for _, sp := range gd.Specs {
					if vs, ok := sp.(*ast.ValueSpec); ok && vs.Type != nil {
						if id, ok := vs.Type.(*ast.Ident); ok {
							for _, n := range vs.Names {
								if n.Name == name {
									out = id.Name
								}
							}
						}
					}
				}
			}
		}
		return true
	})
	return out
}

// checkLenSwap: the methods Len and Swap of the named slice type are `return len(o)` and `o[i], o[j] = o[j], o[i]`
func checkLenSwap(file, tyName string) {
	f := parse(file)
	okLen, okSwap := false, false
	for _, d := range f.Decls {
		fd, ok := d.(*ast.FuncDecl)
		if !ok || fd.Recv == nil || len(fd.Recv.List) != 1 || len(fd.Recv.List[0].Names) != 1 || len(fd.Body.List) != 1 {
			continue
		}
		if id, ok := fd.Recv.List[0].Type.(*ast.Ident); !ok || id.Name != tyName {
			continue
		}
		o := fd.Recv.List[0].Names[0].Name
		var sb strings.Builder
		printer.Fprint(&sb, fset, fd.Body.List[0])
		switch fd.Name.Name {
		case "Len":
			okLen = sb.String() == "return len("+o+")"
		case "Swap":
			ps := fd.Type.Params.List
			if len(ps) == 1 && len(ps[0].Names) == 2 {
				i, j := ps[0].Names[0].Name, ps[0].Names[1].Name
				okSwap = sb.String() == fmt.Sprintf("%s[%s], %s[%s] = %s[%s], %s[%s]", o, i, o, j, o, j, o, i)
			}
		}
	}
	if !okLen || !okSwap {
		dieT("gotolean: %s.Len / Swap are not the canonical slice methods (%s)", tyName, file)
	}
}

// voidCallee: the statement `f(a1, …, an)` where f has no Go result and assigns through pointer parameters other than
// (or beyond) its first one (fnInfo.retParams of a non-mutator): returns f and, per returned parameter, the index of
// the corresponding argument.
func (t *tr) voidCallee(c *ast.CallExpr) (*fnInfo, []int, bool) {
	name := calleeName(c)
	if name == "" {
		return nil, nil, false
	}
	pkg, base := splitQual(name)
	if pkg != "" {
		if _, isLocal := t.lookup(pkg); isLocal {
			return nil, nil, false
		}
	}
	fi, ok := t.resolve(pkg, base)
	if !ok || !fi.void || fi.mutator || len(fi.retParams) == 0 || fi.nGo != 0 {
		return nil, nil, false
	}
	idx, ok := retArgIndex(fi, c)
	return fi, idx, ok
}

// retArgIndex: per returned pointer parameter of fi (fnInfo.retParams), the index of the corresponding argument of the call
func retArgIndex(fi *fnInfo, c *ast.CallExpr) ([]int, bool) {
	var names []string
	for _, p := range paramFields(fi.decl) {
		for _, n := range p.Names {
			names = append(names, n.Name)
		}
	}
	var idx []int
	for _, rp := range fi.retParams {
		found := -1
		for i, n := range names {
			if n == rp {
				found = i
			}
		}
		if found < 0 || found >= len(c.Args) {
			return nil, false
		}
		idx = append(idx, found)
	}
	return idx, true
}

// callAssign: `a, b = f(x, p, …)` / `a := f(…)` where f has Go results and also assigns through pointer parameters
// (`err = cleanupPods(client, logger, result.NewStatus, pods)`): the Go results are assigned to the left-hand sides, what f
// returns for the pointers it assigned through is assigned back to the corresponding arguments (assignable paths).
func (t *tr) callAssign(s *ast.AssignStmt, c *ast.CallExpr, fi *fnInfo, rest func() string) string {
	idx, ok := retArgIndex(fi, c)
	if !ok || fi.nGo != len(s.Lhs) {
		dieT("gotolean: unsupported call of %s at %s", fi.spec.goName, pos(s))
	}
	for _, i := range idx {
		if u, ok := c.Args[i].(*ast.UnaryExpr); ok && u.Op == token.AND {
			dieT("gotolean: &x passed to a function that assigns through a later pointer parameter at %s", pos(c))
		}
	}
	bs, app := t.applied(fi, c)
	r := t.tmp("r")
	bs = append(bs, bind{r, app})
	var names []string
	for range fi.results {
		names = append(names, t.tmp("t"))
	}
	var chain func(i int) string
	chain = func(i int) string {
		switch {
		case i == len(fi.results):
			return rest()
		case i < fi.nGo:
			id, isId := s.Lhs[i].(*ast.Ident)
			if isId && id.Name == "_" {
				return chain(i + 1)
			}
			if isId && s.Tok == token.DEFINE {
				if _, here := t.env[len(t.env)-1][id.Name]; !here {
					ln := t.declare(id.Name, fi.results[i])
					return "let " + ln + " : " + fi.results[i].lean() + " := " + names[i] + "\n" + chain(i+1)
				}
			}
			return t.assignPath(s.Lhs[i], names[i], func() string { return chain(i + 1) })
		}
		return t.assignPath(c.Args[idx[i-fi.nGo]], names[i], func() string { return chain(i + 1) })
	}
	return wrap(bs, "let ("+strings.Join(names, ", ")+") := "+r+"\n"+chain(0))
}

// voidCall: `f(a1, …, an)` of such a function is the assignment of what f returns (the pointers it assigned
// through, as the caller sees them afterwards) to the corresponding arguments, which must be assignable paths.
func (t *tr) voidCall(c *ast.CallExpr, fi *fnInfo, idx []int, rest func() string) string {
	bs, app := t.applied(fi, c)
	for _, i := range idx {
		if u, ok := c.Args[i].(*ast.UnaryExpr); ok && u.Op == token.AND {
			dieT("gotolean: &x passed to a function that assigns through a later pointer parameter at %s", pos(c))
		}
	}
	r := t.tmp("r")
	bs = append(bs, bind{r, app})
	names := []string{r}
	pre := ""
	if len(idx) > 1 {
		names = nil
		for range idx {
			names = append(names, t.tmp("t"))
		}
		pre = "let (" + strings.Join(names, ", ") + ") := " + r + "\n"
	}
	var chain func(i int) string
	chain = func(i int) string {
		if i == len(idx) {
			return rest()
		}
		return t.assignPath(c.Args[idx[i]], names[i], func() string { return chain(i + 1) })
	}
	return wrap(bs, pre+chain(0))
}

// retVoid: the end of a function without Go results — it yields its first parameter (see fnInfo.void).
func (t *tr) retVoid(n ast.Node) string {
	if !t.cur.void {
		dieT("gotolean: return without a value at %s", pos(n))
	}
	var ts []string
	for _, pn := range t.cur.retParams {
		ts = append(ts, t.ex(&ast.Ident{Name: pn, NamePos: n.Pos()}).term)
	}
	if len(ts) == 1 {
		return "some " + ts[0]
	}
	return "some (" + strings.Join(ts, ", ") + ")"
}

// switchStmt: `switch tag { case a, b: …; default: … }` without fallthrough is the chain
// `if tag == a || tag == b { … } else if … else { … }` with the tag evaluated once.
func (t *tr) switchStmt(s *ast.SwitchStmt, rest func() string) string {
	if s.Init != nil {
		dieT("gotolean: unsupported switch at %s", pos(s))
	}
	// `switch { case c1: … }` (no tag): the case expressions are the conditions themselves
	var tag val
	var tn string
	var tagId *ast.Ident
	t.push()
	defer t.pop()
	if s.Tag != nil {
		tag = t.ex(s.Tag)
		tn = t.tmp("tag")
		t.env[len(t.env)-1]["\x00"+tn] = field{tn, tag.ty}
		tagId = &ast.Ident{Name: "\x00" + tn, NamePos: s.Tag.Pos()}
	}
	var chain, last *ast.IfStmt
	var deflt *ast.BlockStmt
	for _, cc := range s.Body.List {
		c := cc.(*ast.CaseClause)
		for _, st := range c.Body {
			if b, ok := st.(*ast.BranchStmt); ok && (b.Tok == token.FALLTHROUGH || b.Tok == token.BREAK) {
				dieT("gotolean: fallthrough / break in a switch at %s", pos(b))
			}
		}
		body := &ast.BlockStmt{Lbrace: c.Colon, List: c.Body}
		if c.List == nil {
			deflt = body
			continue
		}
		var cond ast.Expr
		for _, e := range c.List {
			var eq ast.Expr = e
			if tagId != nil {
				eq = &ast.BinaryExpr{X: tagId, OpPos: e.Pos(), Op: token.EQL, Y: e}
			}
			if cond == nil {
				cond = eq
			} else {
				cond = &ast.BinaryExpr{X: cond, OpPos: e.Pos(), Op: token.LOR, Y: eq}
			}
		}
		is := &ast.IfStmt{If: c.Case, Cond: cond, Body: body}
		if chain == nil {
			chain = is
		} else {
			last.Else = is
		}
		last = is
	}
	var out string
	switch {
	case chain == nil && deflt == nil:
		out = rest()
	case chain == nil:
		out = t.block(deflt.List, rest)
	default:
		if deflt != nil {
			last.Else = deflt
		}
		out = t.block([]ast.Stmt{chain}, rest)
	}
	if tagId == nil {
		return out
	}
	return wrap(tag.binds, "let "+tn+" : "+tag.ty.lean()+" := "+tag.term+"\n"+out)
}

// rangeStmt: `for i, x := range xs { body }` becomes a call of an auxiliary definition that recurses
// over the list:
//
//	def f.loopN (captured…) (k_ : A… → Option R) : List α → Int → A… → Option R
//	  | [], _, a… => k_ a…                     -- the loop is over: continue after it
//	  | x :: rest_, i, a… => ⟦body⟧             -- falling off the body / `continue` = f.loopN … rest_ (i + 1) a…,
//	                                            -- `break` = k_ a…, `return r` = some r, a panic = none
//
// where a… are the variables declared outside the loop that the body assigns (the loop-carried
// state) and `captured` the other locals the body reads.  The statements after the loop are the
// continuation `k_`.  The slice is evaluated once, and the body must not assign to it.
func (t *tr) rangeStmt(s *ast.RangeStmt, rest func() string) string {
	if s.Tok != token.DEFINE && (s.Key != nil || s.Value != nil) {
		dieT("gotolean: range with assignment to existing variables at %s", pos(s))
	}
	xs := t.ex(s.X)
	// a Go map is ranged over as its association list, in the order given (Go's order is unspecified: the bridges
	// quantify over every list); `for k, v := range m` binds the key and the value of each entry
	isMap := xs.ty.K == "map"
	if xs.ty.K != "list" && !isMap {
		dieT("gotolean: range over something other than a slice or a map at %s", pos(s))
	}
	t.loopN++
	name := fmt.Sprintf("%s.loop%d", t.cur.spec.leanName, t.loopN)
	carried := t.assigned(s.Body.List)
	isCarried := map[string]bool{}
	for _, n := range carried {
		isCarried[n] = true
	}
	rootOf := func(e ast.Expr) string {
		for {
			switch x := e.(type) {
			case *ast.SelectorExpr:
				e = x.X
			case *ast.StarExpr:
				e = x.X
			case *ast.ParenExpr:
				e = x.X
			case *ast.IndexExpr:
				e = x.X
			case *ast.Ident:
				return x.Name
			default:
				return ""
			}
		}
	}
	if r := rootOf(s.X); r != "" && isCarried[r] {
		// the body assigns to the variable the range expression starts from: fine when it is a different field of it
		// (`for … := range params.CanaryNodes { delete(params.PodByNodeName, …) }`: the slice is evaluated once, and a
		// struct's fields do not overlap), refused when the paths overlap
		over := selString(s.X)
		for _, e := range t.assignTargets(s.Body) {
			if rootOf(e) != r {
				continue
			}
			p := selString(e)
			if over == "" || p == "" || p == over || strings.HasPrefix(p, over+".") || strings.HasPrefix(over, p+".") {
				dieT("gotolean: the loop at %s assigns to the slice it ranges over", pos(s))
			}
		}
	}
	// a pointer variable the body assigns through is carried like in a conditional join: as its pointee when
	// that already has a name, as the pointer itself otherwise
	ss := t.slots(carried)
	for n := range t.wholeAssigned(s.Body.List) {
		if isCarried[n] && t.aliasOf(n) != "" {
			dieT("gotolean: the loop at %s replaces the pointer %s, whose pointee is carried by name", pos(s), n)
		}
	}
	// captured locals: every other local the body mentions, in a fixed order
	loopVar := map[string]bool{}
	for _, e := range []ast.Expr{s.Key, s.Value} {
		if id, ok := e.(*ast.Ident); ok {
			loopVar[id.Name] = true
		}
	}
	seen := map[string]bool{}
	var captured []string
	ast.Inspect(s.Body, func(m ast.Node) bool {
		switch y := m.(type) {
		case *ast.SelectorExpr:
			ast.Inspect(y.X, func(k ast.Node) bool {
				if id, ok := k.(*ast.Ident); ok {
					if _, ok := t.lookup(id.Name); ok && !isCarried[id.Name] && !loopVar[id.Name] && !seen[id.Name] {
						seen[id.Name] = true
						captured = append(captured, id.Name)
					}
				}
				return true
			})
			return false
		case *ast.Ident:
			if _, ok := t.lookup(y.Name); ok && !isCarried[y.Name] && !loopVar[y.Name] && !seen[y.Name] {
				seen[y.Name] = true
				captured = append(captured, y.Name)
			}
		}
		return true
	})
	sort.Strings(captured)
	var capParams, capArgs []string
	for _, sl := range t.slots(captured) {
		capParams = append(capParams, "("+sl.lean+" : "+sl.ty.lean()+")")
		capArgs = append(capArgs, sl.lean)
	}
	if t.cur.spec.ptrEq != "" {
		capParams = append(capParams, "("+t.cur.spec.ptrEq+" : Bool)")
		capArgs = append(capArgs, t.cur.spec.ptrEq)
	}
	var accTys []string
	for _, sl := range ss {
		accTys = append(accTys, sl.ty.lean())
	}
	kTy := "Unit"
	if len(ss) > 0 {
		kTy = strings.Join(accTys, " → ")
	}
	var rts []string
	for _, r := range t.cur.results {
		rts = append(rts, r.lean())
	}
	rt := "Option (" + strings.Join(rts, " × ") + ")"

	// the body, translated in its own scope
	t.push()
	idx := ""
	elem := "_"
	if isMap {
		idx = t.tmp("i")
		kn, vn := "_", "_"
		if id, ok := s.Key.(*ast.Ident); ok && id.Name != "_" {
			kn = t.declare(id.Name, *xs.ty.Key)
		}
		if id, ok := s.Value.(*ast.Ident); ok && id.Name != "_" {
			vn = t.declare(id.Name, *xs.ty.E)
		}
		elem = "(" + kn + ", " + vn + ")"
	} else {
		if id, ok := s.Key.(*ast.Ident); ok && id.Name != "_" {
			idx = t.declare(id.Name, tInt())
		} else {
			idx = t.tmp("i")
		}
		if id, ok := s.Value.(*ast.Ident); ok && id.Name != "_" {
			elem = t.declare(id.Name, *xs.ty.E)
		}
	}
	tail := t.tmp("rest")
	savedNil := t.needsNil
	t.needsNil = false
	const nilMark = "\x01nilSlice\x01" // resolved once the body is known to need the parameter or not
	const wallMark = "\x01wall\x01"    // the wall-clock parameters the body reads, known once it is translated
	callSelf := func(extra string) string {
		return name + " " + strings.Join(append(append([]string{}, capArgs...), nilMark+wallMark+"k_"), " ") + " " + extra
	}
	accVals := func() string {
		if len(ss) == 0 {
			return ""
		}
		return " " + strings.Join(t.slotValues(ss), " ")
	}
	callK := func() string {
		if len(ss) == 0 {
			return "k_ ()"
		}
		return "k_" + accVals()
	}
	next := func() string { return callSelf(tail + " (" + idx + " + 1)" + accVals()) }
	t.loops = append(t.loops, loopCtx{cont: next, brk: callK})
	outer := t.aux
	t.aux = nil
	nowBefore := t.nowN
	t.loopIdx = append(t.loopIdx, idx)
	body := t.block(s.Body.List, next)
	t.loopIdx = t.loopIdx[:len(t.loopIdx)-1]
	inner := t.aux
	t.aux = outer
	t.loops = t.loops[:len(t.loops)-1]
	bodyNil := t.needsNil
	t.needsNil = savedNil || bodyNil
	t.pop()
	if bodyNil {
		capParams = append(capParams, "(nilSlice : Bool)")
		capArgs = append(capArgs, "nilSlice")
		body = strings.ReplaceAll(body, nilMark, "nilSlice ")
	} else {
		body = strings.ReplaceAll(body, nilMark, "")
	}
	// the instants the body reads: one per iteration, functions of the iteration index
	wallArgs := ""
	for i := nowBefore + 1; i <= t.nowN; i++ {
		if len(t.loopIdx) > 0 {
			dieT("gotolean: the wall clock is read in a nested loop at %s", pos(s))
		}
		capParams = append(capParams, fmt.Sprintf("(wallNow%d : Int → Int)", i))
		capArgs = append(capArgs, fmt.Sprintf("wallNow%d", i))
		wallArgs += fmt.Sprintf("wallNow%d ", i)
	}
	body = strings.ReplaceAll(body, wallMark, wallArgs)
	accPat := ""
	for _, sl := range ss {
		accPat += ", " + sl.lean
	}
	var sb strings.Builder
	fmt.Fprintf(&sb, "/-- the `range` loop of `%s` at %s -/\n", t.cur.spec.goName, relPos(s))
	sig := strings.Join(capParams, " ")
	if sig != "" {
		sig += " "
	}
	fmt.Fprintf(&sb, "def %s %s(k_ : %s → %s) : %s → Int%s → %s\n", name, sig, kTy, rt, xs.ty.lean(),
		func() string {
			o := ""
			for _, a := range accTys {
				o += " → " + a
			}
			return o
		}(), rt)
	fmt.Fprintf(&sb, "  | [], _%s =>\n    %s\n", accPat, callK())
	fmt.Fprintf(&sb, "  | %s :: %s, %s%s =>\n", elem, tail, idx, accPat)
	for _, l := range strings.Split(body, "\n") {
		sb.WriteString("    " + l + "\n")
	}
	t.aux = append(t.aux, inner...)
	t.aux = append(t.aux, sb.String())

	// the call: the statements after the loop are the continuation
	_, params := slotPattern(ss)
	k := t.tmp("k")
	r := rest()
	call := name + " " + strings.Join(capArgs, " ")
	call = strings.TrimSpace(call) + " " + k + " " + xs.term + " 0" + func() string {
		o := ""
		for _, sl := range ss {
			o += " " + sl.lean
		}
		return o
	}()
	return wrap(xs.binds, "let "+k+" := (fun "+params+" =>\n"+r+")\n"+call)
}

func relPos(n ast.Node) string {
	p := fset.Position(n.Pos())
	return fmt.Sprintf("line %d", p.Line)
}

func (t *tr) assign(s *ast.AssignStmt, rest func() string) string {
	define := s.Tok == token.DEFINE
	if (s.Tok == token.ADD_ASSIGN || s.Tok == token.SUB_ASSIGN) && len(s.Lhs) == 1 && len(s.Rhs) == 1 {
		// x += e is x = x + e (the left-hand side has no side effect in the subset)
		op := token.ADD
		if s.Tok == token.SUB_ASSIGN {
			op = token.SUB
		}
		return t.assign(&ast.AssignStmt{Lhs: s.Lhs, TokPos: s.TokPos, Tok: token.ASSIGN,
			Rhs: []ast.Expr{&ast.BinaryExpr{X: s.Lhs[0], OpPos: s.TokPos, Op: op, Y: s.Rhs[0]}}}, rest)
	}
	if s.Tok != token.DEFINE && s.Tok != token.ASSIGN {
		dieT("gotolean: unsupported assignment operator at %s", pos(s))
	}
	if len(s.Rhs) == 1 {
		if c, ok := s.Rhs[0].(*ast.CallExpr); ok {
			if pkg, base := splitQual(calleeName(c)); base != "" {
				_, isLocal := t.lookup(pkg)
				if fi, ok := t.resolve(pkg, base); ok && !(pkg != "" && isLocal) && !fi.spec.opaque && len(fi.retParams) > 0 && !fi.mutator && fi.nGo > 0 {
					return t.callAssign(s, c, fi, rest)
				}
			}
		}
	}
	bindName := func(l ast.Expr, ty Ty) string {
		id, ok := l.(*ast.Ident)
		if !ok {
			dieT("gotolean: unsupported multi-assignment target at %s", pos(s))
		}
		if id.Name == "_" {
			return "_"
		}
		if define {
			if _, ok := t.env[len(t.env)-1][id.Name]; !ok {
				return t.declare(id.Name, ty)
			}
		}
		f, ok := t.lookup(id.Name)
		if !ok {
			dieT("gotolean: assignment to unknown %s at %s", id.Name, pos(s))
		}
		return f.lean
	}
	if len(s.Lhs) == 2 && len(s.Rhs) == 1 {
		// v, ok := m[k]
		if ix, ok := s.Rhs[0].(*ast.IndexExpr); ok {
			if id, ok := ix.X.(*ast.Ident); ok {
				if _, isLocal := t.lookup(id.Name); !isLocal {
					if _, isSet := t.sets[id.Name]; isSet {
						// _, found := set[k] on a package-level map[string]struct{}
						if l0, ok := s.Lhs[0].(*ast.Ident); !ok || l0.Name != "_" {
							dieT("gotolean: the value of a set entry is used at %s", pos(s))
						}
						k := t.ex(ix.Index)
						b := bindName(s.Lhs[1], tBool())
						return wrap(k.binds, "let "+b+" : Bool := List.contains "+id.Name+" "+k.term+"\n"+rest())
					}
				}
			}
			m, k := t.ex(ix.X), t.ex(ix.Index)
			if m.ty.K == "map" {
				// v, ok := m[k] on an association list: the value (zero when absent) and whether the key is there
				bs := append(append([]bind{}, m.binds...), k.binds...)
				kt := k.term
				if k.ty.K == "nil" {
					kt = "none"
				}
				eq := keyEq(*m.ty.Key, s)
				a := bindName(s.Lhs[0], *m.ty.E)
				b := bindName(s.Lhs[1], tBool())
				out := ""
				if a != "_" {
					out += "let " + a + " : " + m.ty.E.lean() + " := Go.mapGetD " + eq + " " + m.term + " " + kt + " " + zero(*m.ty.E) + "\n"
				}
				if b != "_" {
					out += "let " + b + " : Bool := Go.mapHas " + eq + " " + m.term + " " + kt + "\n"
				}
				return wrap(bs, out+rest())
			}
			if m.ty.K != "smap" {
				dieT("gotolean: comma-ok on a non-map at %s", pos(s))
			}
			bs := append(append([]bind{}, m.binds...), k.binds...)
			a := bindName(s.Lhs[0], tStr())
			b := bindName(s.Lhs[1], tBool())
			return wrap(bs, "let "+a+" : String := SMap.getD "+m.term+" "+k.term+"\nlet "+b+" : Bool := SMap.contains "+m.term+" "+k.term+"\n"+rest())
		}
		c, ok := s.Rhs[0].(*ast.CallExpr)
		if !ok {
			dieT("gotolean: unsupported multi-assignment at %s", pos(s))
		}
		v := t.ex(c)
		var tys []Ty
		if fi, ok := t.resolve(splitQual(calleeName(c))); ok {
			tys = fi.results
		} else if calleeName(c) == "intstrutil.GetValueFromIntOrPercent" {
			tys = []Ty{tInt(), tPtr(tStr())}
		} else if calleeName(c) == "limits.CalculatePodToCreateAndDelete" {
			tys = []Ty{tInt(), tInt()}
		} else if calleeName(c) == "metav1.LabelSelectorAsSelector" {
			tys = []Ty{tStruct("GSelector"), tPtr(tStr())}
		} else {
			dieT("gotolean: unknown result types at %s", pos(s))
		}
		_, id0 := s.Lhs[0].(*ast.Ident)
		_, id1 := s.Lhs[1].(*ast.Ident)
		if id0 && id1 {
			a := bindName(s.Lhs[0], tys[0])
			b := bindName(s.Lhs[1], tys[1])
			return wrap(v.binds, "let ("+a+", "+b+") := "+v.term+"\n"+rest())
		}
		// `x.F, x.G = f(…)`: the results are named first, then assigned along their paths from left to right
		if define {
			dieT("gotolean: unsupported multi-assignment target at %s", pos(s))
		}
		var names []string
		for range s.Lhs {
			names = append(names, t.tmp("t"))
		}
		var chain func(i int) string
		chain = func(i int) string {
			if i == len(s.Lhs) {
				return rest()
			}
			if id, ok := s.Lhs[i].(*ast.Ident); ok && id.Name == "_" {
				return chain(i + 1)
			}
			return t.assignPath(s.Lhs[i], names[i], func() string { return chain(i + 1) })
		}
		return wrap(v.binds, "let ("+names[0]+", "+names[1]+") := "+v.term+"\n"+chain(0))
	}
	if len(s.Lhs) != 1 || len(s.Rhs) != 1 {
		dieT("gotolean: unsupported assignment at %s", pos(s))
	}
	v := t.ex(s.Rhs[0])
	if id, ok := s.Lhs[0].(*ast.Ident); ok {
		if v.ty.K == "nil" || v.ty.K == "tuple" {
			dieT("gotolean: untyped assignment at %s", pos(s))
		}
		var ln string
		var ty Ty
		if define && v.ty.K == "opaque" {
			// a local whose type is outside the subset: no Lean term; its initialiser was evaluated for its dereferences
			t.declare(id.Name, v.ty)
			return wrap(v.binds, rest())
		}
		if v.ty.dropped() {
			dieT("gotolean: assignment of a value without a Lean term at %s", pos(s))
		}
		if define {
			ty = v.ty
			ln = t.declare(id.Name, ty)
		} else {
			f, ok := t.lookup(id.Name)
			if !ok {
				dieT("gotolean: assignment to unknown %s at %s", id.Name, pos(s))
			}
			ln, ty = f.lean, f.ty
		}
		if ty.K == "ptr" {
			t.alias[len(t.alias)-1][id.Name] = ""
		}
		return wrap(v.binds, "let "+ln+" : "+ty.lean()+" := "+v.term+"\n"+rest())
	}
	term := v.term
	if v.ty.K == "nil" {
		term = "none"
	}
	return wrap(v.binds, t.assignPath(s.Lhs[0], term, rest))
}

// sprintf: `fmt.Sprintf("… %s …", a, b)` with string arguments only is the concatenation.
func (t *tr) sprintf(x *ast.CallExpr) val {
	lit, ok := x.Args[0].(*ast.BasicLit)
	if !ok || lit.Kind != token.STRING {
		dieT("gotolean: Sprintf with a format that is not a literal at %s", pos(x))
	}
	format, err := strconv.Unquote(lit.Value)
	if err != nil {
		dieT("gotolean: bad format at %s", pos(x))
	}
	parts := strings.Split(format, "%s")
	if len(parts) != len(x.Args) || strings.Contains(strings.Join(parts, ""), "%") {
		dieT("gotolean: Sprintf with verbs other than %%s at %s", pos(x))
	}
	var bs []bind
	var ts []string
	for i, p := range parts {
		if p != "" {
			ts = append(ts, strconv.Quote(p))
		}
		if i+1 < len(x.Args) {
			v := t.ex(x.Args[i+1])
			if v.ty.K != "str" {
				dieT("gotolean: Sprintf %%s of a non-string at %s", pos(x))
			}
			bs = append(bs, v.binds...)
			ts = append(ts, v.term)
		}
	}
	if len(ts) == 0 {
		return val{binds: bs, term: "\"\"", ty: tStr()}
	}
	return val{binds: bs, term: "(" + strings.Join(ts, " ++ ") + ")", ty: tStr()}
}

func calleeName(c *ast.CallExpr) string {
	switch f := c.Fun.(type) {
	case *ast.Ident:
		return f.Name
	case *ast.SelectorExpr:
		if p, ok := f.X.(*ast.Ident); ok {
			return p.Name + "." + f.Sel.Name
		}
	}
	return ""
}

func calleeBase(c *ast.CallExpr) string {
	n := calleeName(c)
	if i := strings.Index(n, "."); i >= 0 {
		return n[i+1:]
	}
	return n
}

func (t *tr) ifStmt(s *ast.IfStmt, rest func() string) string {
	t.push() // scope of the init statement
	defer t.pop()
	body := func() string {
		var elseList []ast.Stmt
		hasElse := s.Else != nil
		if hasElse {
			if eb, ok := s.Else.(*ast.BlockStmt); ok {
				elseList = eb.List
			} else {
				elseList = []ast.Stmt{s.Else}
			}
		}
		c := t.ex(s.Cond)
		thenRet := alwaysReturns(s.Body.List)
		elseRet := hasElse && alwaysReturns(elseList)
		anyRet := hasReturn(s.Body) || (hasElse && hasReturn(s.Else))
		branch := func(list []ast.Stmt, fall func() string) string {
			t.push()
			defer t.pop()
			return t.block(list, fall)
		}
		unreachable := func() string { dieT("gotolean: fall through after return at %s", pos(s)); return "" }
		switch {
		case thenRet && !hasElse:
			return wrap(c.binds, "if "+c.term+" then\n"+branch(s.Body.List, unreachable)+"\nelse\n"+rest())
		case thenRet && elseRet:
			return wrap(c.binds, "if "+c.term+" then\n"+branch(s.Body.List, unreachable)+"\nelse\n"+branch(elseList, unreachable))
		case !anyRet:
			all := append(append([]ast.Stmt{}, s.Body.List...), elseList...)
			vars := t.assigned(all)
			ss := t.slotsW(vars, t.wholeAssigned(all))
			pat, _ := slotPattern(ss)
			if len(vars) == 0 {
				pat = "_"
			}
			gen := func(join func() string) (string, string) {
				th := branch(s.Body.List, join)
				el := join()
				if hasElse {
					el = branch(elseList, join)
				}
				return th, el
			}
			th, el := gen(func() string { return "some " + t.slotTuple(ss) })
			if len(vars) > 0 && !strings.Contains(th, "Option.bind") && !strings.Contains(el, "Option.bind") {
				// nothing can panic inside: a plain conditional value
				th, el = gen(func() string { return t.slotTuple(ss) })
				t.slotsJoined(ss)
				return wrap(c.binds, "let "+pat+" := if "+c.term+" then\n"+th+"\nelse\n"+el+"\n"+rest())
			}
			t.slotsJoined(ss)
			return wrap(c.binds, "Option.bind (if "+c.term+" then\n"+th+"\nelse\n"+el+") fun "+pat+" =>\n"+rest())
		default:
			// the body both returns and falls through: join through a local continuation
			all := append(append([]ast.Stmt{}, s.Body.List...), elseList...)
			vars := t.assigned(all)
			ss := t.slotsW(vars, t.wholeAssigned(all))
			_, params := slotPattern(ss)
			k := t.tmp("k")
			callK := func() string {
				if len(vars) == 0 {
					return k + " ()"
				}
				return k + " " + strings.Join(t.slotValues(ss), " ")
			}
			th := branch(s.Body.List, callK)
			el := callK()
			if hasElse {
				el = branch(elseList, callK)
			}
			t.push()
			t.slotsJoined(ss)
			r := rest()
			t.pop()
			return wrap(c.binds, "let "+k+" := fun "+params+" =>\n"+r+"\nif "+c.term+" then\n"+th+"\nelse\n"+el)
		}
	}
	if s.Init != nil {
		as, ok := s.Init.(*ast.AssignStmt)
		if !ok {
			dieT("gotolean: unsupported if-init at %s", pos(s))
		}
		return t.assign(as, body)
	}
	return body()
}

// ---------------------------------------------------------------------------------------------

func (t *tr) loadConsts(repo string) {
	t.consts = map[string]val{}
	files, _ := filepath.Glob(filepath.Join(repo, "api/v1alpha1/*.go"))
	files = append(files, filepath.Join(repo, "controllers/extendeddaemonsetreplicaset/strategy/type.go"),
		filepath.Join(repo, "pkg/controller/utils/affinity/affinity.go"))
	for _, p := range files {
		if strings.HasSuffix(p, "_test.go") || strings.Contains(p, "zz_generated") {
			continue
		}
		t.fileConsts(parse(p), true)
	}
}

// fileConsts: the package-level constants of a file whose value is a literal (string, integer, bool, `n * time.Unit`,
// `errors.New`); `override` = a later definition of the same name wins (the files of loadConsts, in their order), otherwise
// a name already known keeps its value (the constants of the files of the translated functions themselves)
func (t *tr) fileConsts(f *ast.File, override bool) {
	{
		for _, d := range f.Decls {
			gd, ok := d.(*ast.GenDecl)
			if !ok || (gd.Tok != token.CONST && gd.Tok != token.VAR) {
				continue
			}
			for _, sp := range gd.Specs {
				vs := sp.(*ast.ValueSpec)
				for i, n := range vs.Names {
					if i >= len(vs.Values) {
						continue
					}
					if _, known := t.consts[n.Name]; known && !override {
						continue
					}
					switch v := vs.Values[i].(type) {
					case *ast.BasicLit:
						if v.Kind == token.STRING {
							s, _ := strconv.Unquote(v.Value)
							t.consts[n.Name] = pure(strconv.Quote(s), tStr())
						} else if v.Kind == token.INT {
							t.consts[n.Name] = pure(v.Value, tInt())
						}
					case *ast.Ident:
						if v.Name == "true" || v.Name == "false" {
							t.consts[n.Name] = pure(v.Name, tBool())
						}
					case *ast.BinaryExpr: // 10 * time.Second
						if v.Op == token.MUL {
							if l, ok := v.X.(*ast.BasicLit); ok && l.Kind == token.INT {
								if se, ok := v.Y.(*ast.SelectorExpr); ok {
									if p, ok := se.X.(*ast.Ident); ok && p.Name == "time" {
										unit := map[string]string{"Second": "sec", "Minute": "minute"}[se.Sel.Name]
										if unit != "" {
											t.consts[n.Name] = pure("("+l.Value+" * "+unit+")", tDur())
										}
									}
								}
							}
						}
					case *ast.CallExpr: // errors.New("…"): the sentinel's identity is its name
						if calleeName(v) == "errors.New" {
							t.consts[n.Name] = pure(strconv.Quote(n.Name), tStr())
						}
					}
				}
			}
		}
	}
}

// stringSets collects the package-level `var X = map[string]struct{}{"a": {}, …}` of a file.
func stringSets(f *ast.File, into map[string][]string) []string {
	var names []string
	for _, d := range f.Decls {
		gd, ok := d.(*ast.GenDecl)
		if !ok || gd.Tok != token.VAR {
			continue
		}
		for _, sp := range gd.Specs {
			vs := sp.(*ast.ValueSpec)
			if len(vs.Names) != 1 || len(vs.Values) != 1 {
				continue
			}
			cl, ok := vs.Values[0].(*ast.CompositeLit)
			if !ok {
				continue
			}
			mt, ok := cl.Type.(*ast.MapType)
			if !ok {
				continue
			}
			if st, ok := mt.Value.(*ast.StructType); !ok || len(st.Fields.List) != 0 {
				continue
			}
			var keys []string
			good := true
			for _, el := range cl.Elts {
				kv, ok := el.(*ast.KeyValueExpr)
				if !ok {
					good = false
					break
				}
				bl, ok := kv.Key.(*ast.BasicLit)
				if !ok || bl.Kind != token.STRING {
					good = false
					break
				}
				k, _ := strconv.Unquote(bl.Value)
				keys = append(keys, k)
			}
			if good {
				into[vs.Names[0].Name] = keys
				names = append(names, vs.Names[0].Name)
			}
		}
	}
	return names
}

func (t *tr) translate(fi *fnInfo) string {
	t.cur = fi
	t.env = nil
	t.alias = nil
	t.used = map[string]int{}
	t.fresh = 0
	t.push()
	var ps []string
	fi.params = nil
	t.hasAPI = false
	for _, p := range paramFields(fi.decl) {
		ty := t.goType(p.Type)
		for _, n := range p.Names {
			ln := t.declare(n.Name, ty)
			if ty.dropped() {
				// the API client handle, a logger: in scope, but no parameter of the translated function
				t.hasAPI = t.hasAPI || ty.K == "api"
				continue
			}
			fi.params = append(fi.params, field{ln, ty})
			ps = append(ps, "("+ln+" : "+ty.lean()+")")
		}
	}
	if fi.spec.opaque {
		return "" // only its signature is read
	}
	if fi.spec.ptrEq != "" {
		ps = append(ps, "("+fi.spec.ptrEq+" : Bool)")
	}
	var rts []string
	for _, r := range fi.results {
		rts = append(rts, r.lean())
	}
	rt := strings.Join(rts, " × ")
	t.aux = nil
	t.loopN = 0
	t.loops = nil
	t.needsNil = false
	t.nowN = 0
	t.nowFn = nil
	t.loopIdx = nil
	t.apiTys = nil
	t.apiDoc = nil
	t.less = nil
	t.opaqueCtx = 0
	body := t.block(fi.decl.Body.List, func() string {
		if fi.void {
			return t.retVoid(fi.decl)
		}
		dieT("gotolean: %s can fall off its end", fi.spec.goName)
		return ""
	})
	if t.needsNil {
		fi.needsNil = true
		ps = append(ps, "(nilSlice : Bool)")
	}
	fi.nowN = t.nowN
	fi.nowFn = t.nowFn
	for i := 1; i <= t.nowN; i++ {
		if t.nowFn[i-1] {
			ps = append(ps, fmt.Sprintf("(wallNow%d : Int → Int)", i))
		} else {
			ps = append(ps, fmt.Sprintf("(wallNow%d : Int)", i))
		}
	}
	fi.apiTys = t.apiTys
	fi.apiDoc = t.apiDoc
	for i, ty := range t.apiTys {
		ps = append(ps, fmt.Sprintf("(apiRes%d : %s)", i+1, ty.lean()))
	}
	var sb strings.Builder
	for _, a := range t.aux {
		sb.WriteString(a + "\n")
	}
	if len(t.apiTys) > 0 {
		// the opaque steps of the function, stated where the definition is
		fmt.Fprintf(&sb, "/- API steps of `%s` (not translated; what each leaves behind is a parameter):\n", fi.spec.goName)
		for i, d := range t.apiDoc {
			fmt.Fprintf(&sb, "   apiRes%d : %s — %s\n", i+1, t.apiTys[i].lean(), d)
		}
		sb.WriteString("-/\n")
	}
	if fi.spec.fragment != "" {
		fmt.Fprintf(&sb, "/-- translated from the statement `for … := %s` (line %d) of `%s` (%s): a function of the parameters and\nlocals of `%s` the statement mentions, returning the locals it assigns (%s) -/\n", fi.spec.fragment,
			fi.fragLine, fi.spec.goName, fi.spec.file, fi.spec.goName, strings.Join(fi.fragResults, ", "))
	} else {
		fmt.Fprintf(&sb, "/-- translated from `%s` (%s) -/\n", fi.spec.goName, fi.spec.file)
	}
	fmt.Fprintf(&sb, "def %s %s : Option (%s) :=\n", fi.spec.leanName, strings.Join(ps, " "), rt)
	for _, l := range strings.Split(body, "\n") {
		sb.WriteString("  " + l + "\n")
	}
	return sb.String()
}

// selString: `a.b.c` of an identifier / selector chain ("" otherwise)
func selString(e ast.Expr) string {
	switch x := e.(type) {
	case *ast.Ident:
		return x.Name
	case *ast.SelectorExpr:
		if p := selString(x.X); p != "" {
			return p + "." + x.Sel.Name
		}
	}
	return ""
}

// fragmentDecl builds, from a function and the description of one of its top-level statements (fnSpec.fragment), the
// declaration of a function that consists of that statement alone:
//
//	func f(<the parameters and earlier locals of the function the statement mentions>) (<types of the locals it assigns>) {
//		<the statement, verbatim — the very AST node of the source>
//		return <the locals it assigns, in alphabetical order>
//	}
//
// The type of a local must be evident from its declaration (`var x T`, `x := T{…}`, `x := &T{…}`, `x := []T{…}`).
func fragmentDecl(decl *ast.FuncDecl, sp fnSpec) (*ast.FuncDecl, int, []string) {
	if !strings.HasPrefix(sp.fragment, "range ") {
		dieT("gotolean: unsupported fragment description %q", sp.fragment)
	}
	want := strings.TrimPrefix(sp.fragment, "range ")
	at := -1
	for i, st := range decl.Body.List {
		if rs, ok := st.(*ast.RangeStmt); ok && selString(rs.X) == want {
			if at >= 0 {
				dieT("gotolean: %s has several top-level loops over %s", sp.goName, want)
			}
			at = i
		}
	}
	if at < 0 {
		dieT("gotolean: %s has no top-level loop over %s", sp.goName, want)
	}
	frag := decl.Body.List[at]
	// what is in scope in front of the statement, with its type where that is evident
	type scoped struct {
		name string
		ty   ast.Expr // nil = not evident
	}
	var scope []scoped
	index := map[string]int{}
	add := func(n string, ty ast.Expr) {
		if n == "_" {
			return
		}
		if i, ok := index[n]; ok {
			scope[i].ty = ty
			return
		}
		index[n] = len(scope)
		scope = append(scope, scoped{n, ty})
	}
	for _, p := range decl.Type.Params.List {
		for _, n := range p.Names {
			add(n.Name, p.Type)
		}
	}
	for _, st := range decl.Body.List[:at] {
		switch d := st.(type) {
		case *ast.DeclStmt:
			if gd, ok := d.Decl.(*ast.GenDecl); ok && gd.Tok == token.VAR {
				for _, spc := range gd.Specs {
					vs := spc.(*ast.ValueSpec)
					for _, n := range vs.Names {
						add(n.Name, vs.Type) // nil when the type is inferred from a value
					}
				}
			}
		case *ast.AssignStmt:
			if d.Tok != token.DEFINE {
				continue
			}
			for i, l := range d.Lhs {
				id, ok := l.(*ast.Ident)
				if !ok {
					continue
				}
				var ty ast.Expr
				if len(d.Rhs) == len(d.Lhs) {
					switch r := d.Rhs[i].(type) {
					case *ast.CompositeLit:
						ty = r.Type
					case *ast.UnaryExpr:
						if cl, ok := r.X.(*ast.CompositeLit); ok && r.Op == token.AND {
							ty = &ast.StarExpr{X: cl.Type}
						}
					}
				}
				if _, known := index[id.Name]; known && ty == nil {
					continue // `x, err := …` re-using x
				}
				add(id.Name, ty)
			}
		}
	}
	// the names the statement declares itself must not hide one of these
	ast.Inspect(frag, func(n ast.Node) bool {
		switch y := n.(type) {
		case *ast.AssignStmt:
			if y.Tok == token.DEFINE {
				for _, l := range y.Lhs {
					if id, ok := l.(*ast.Ident); ok {
						if _, hides := index[id.Name]; hides {
							dieT("gotolean: the fragment of %s re-declares %s at %s", sp.goName, id.Name, pos(y))
						}
					}
				}
			}
		case *ast.RangeStmt:
			if y.Tok == token.DEFINE {
				for _, e := range []ast.Expr{y.Key, y.Value} {
					if id, ok := e.(*ast.Ident); ok {
						if _, hides := index[id.Name]; hides {
							dieT("gotolean: the fragment of %s re-declares %s at %s", sp.goName, id.Name, pos(y))
						}
					}
				}
			}
		}
		return true
	})
	// mentioned and assigned
	used := map[string]bool{}
	assigned := map[string]bool{}
	var root func(e ast.Expr) string
	root = func(e ast.Expr) string {
		switch x := e.(type) {
		case *ast.SelectorExpr:
			return root(x.X)
		case *ast.StarExpr:
			return root(x.X)
		case *ast.ParenExpr:
			return root(x.X)
		case *ast.IndexExpr:
			return root(x.X)
		case *ast.Ident:
			return x.Name
		}
		return ""
	}
	var walk func(n ast.Node)
	walk = func(n ast.Node) {
		ast.Inspect(n, func(m ast.Node) bool {
			switch y := m.(type) {
			case *ast.SelectorExpr:
				walk(y.X)
				return false
			case *ast.KeyValueExpr:
				walk(y.Value)
				return false
			case *ast.Ident:
				if _, ok := index[y.Name]; ok {
					used[y.Name] = true
				}
			case *ast.AssignStmt:
				if y.Tok != token.DEFINE {
					for _, l := range y.Lhs {
						if r := root(l); r != "" {
							if _, ok := index[r]; ok {
								assigned[r] = true
							}
						}
					}
				}
			case *ast.IncDecStmt:
				if r := root(y.X); r != "" {
					if _, ok := index[r]; ok {
						assigned[r] = true
					}
				}
			}
			return true
		})
	}
	walk(frag)
	params := &ast.FieldList{}
	for _, sc := range scope {
		if !used[sc.name] {
			continue
		}
		if sc.ty == nil {
			dieT("gotolean: the fragment of %s mentions %s, whose type is not evident from its declaration", sp.goName, sc.name)
		}
		params.List = append(params.List, &ast.Field{Names: []*ast.Ident{{Name: sc.name, NamePos: frag.Pos()}}, Type: sc.ty})
	}
	var outs []string
	for n := range assigned {
		outs = append(outs, n)
	}
	sort.Strings(outs)
	if len(outs) == 0 {
		dieT("gotolean: the fragment of %s assigns nothing", sp.goName)
	}
	results := &ast.FieldList{}
	ret := &ast.ReturnStmt{Return: frag.End()}
	for _, n := range outs {
		results.List = append(results.List, &ast.Field{Type: scope[index[n]].ty})
		ret.Results = append(ret.Results, &ast.Ident{Name: n, NamePos: frag.End()})
	}
	out := &ast.FuncDecl{
		Name: decl.Name,
		Type: &ast.FuncType{Func: decl.Type.Func, Params: params, Results: results},
		Body: &ast.BlockStmt{Lbrace: frag.Pos(), List: []ast.Stmt{frag, ret}, Rbrace: frag.End()},
	}
	return out, fset.Position(frag.Pos()).Line, outs
}

// paramFields: the receiver (of a method) followed by the parameters
func paramFields(d *ast.FuncDecl) []*ast.Field {
	var out []*ast.Field
	if d.Recv != nil {
		out = append(out, d.Recv.List...)
	}
	return append(out, d.Type.Params.List...)
}

// mutatedParams lists the pointer parameters (Go names, in parameter order) the body assigns through:
// `p.F = v`, `p.F[i] = v`, `delete(p.M, k)`, `p.N += v`, or a call of a function that mutates its first
// argument with `p`, `p.F` or `&p.F` as that argument.
func (t *tr) mutatedParams(fi *fnInfo) []string {
	isPtr := map[string]bool{}
	var order []string
	for _, p := range paramFields(fi.decl) {
		if _, ok := p.Type.(*ast.StarExpr); ok {
			for _, n := range p.Names {
				isPtr[n.Name] = true
				order = append(order, n.Name)
			}
		}
	}
	hit := map[string]bool{}
	var root func(e ast.Expr) string
	root = func(e ast.Expr) string {
		for {
			switch x := e.(type) {
			case *ast.SelectorExpr:
				e = x.X
			case *ast.StarExpr:
				e = x.X
			case *ast.ParenExpr:
				e = x.X
			case *ast.IndexExpr:
				e = x.X
			case *ast.UnaryExpr:
				e = x.X
			case *ast.Ident:
				return x.Name
			default:
				return ""
			}
		}
	}
	saved := t.cur
	t.cur = fi
	defer func() { t.cur = saved }()
	ast.Inspect(fi.decl.Body, func(m ast.Node) bool {
		switch s := m.(type) {
		case *ast.AssignStmt:
			for _, l := range s.Lhs {
				if _, plain := l.(*ast.Ident); plain {
					continue
				}
				hit[root(l)] = true
			}
			if len(s.Rhs) == 1 {
				if c, ok := s.Rhs[0].(*ast.CallExpr); ok {
					for _, a := range t.retArgs(c) {
						hit[root(a)] = true
					}
				}
			}
		case *ast.IncDecStmt:
			if _, plain := s.X.(*ast.Ident); !plain {
				hit[root(s.X)] = true
			}
		case *ast.ExprStmt:
			if c, ok := s.X.(*ast.CallExpr); ok && len(c.Args) > 0 {
				if isDeleteCall(c) {
					hit[root(c.Args[0])] = true
				} else if name := calleeName(c); name != "" {
					if callee, ok := t.resolve(splitQual(name)); ok && callee.mutator {
						hit[root(c.Args[0])] = true
					}
					if _, idx, isVoid := t.voidCallee(c); isVoid {
						for _, i := range idx {
							hit[root(c.Args[i])] = true
						}
					}
				}
			}
		}
		return true
	})
	var out []string
	for _, n := range order {
		if hit[n] {
			out = append(out, n)
		}
	}
	return out
}

var decisionFns = []fnSpec{
	{group: "Canary", file: "controllers/extendeddaemonset/utils.go", goName: "IsRollingUpdatePaused", leanName: "isRollingUpdatePaused"},
	{group: "Canary", file: "controllers/extendeddaemonset/utils.go", goName: "IsRolloutFrozen", leanName: "isRolloutFrozen"},
	{group: "Canary", file: "controllers/extendeddaemonset/utils.go", goName: "IsCanaryDeploymentEnded", leanName: "isCanaryDeploymentEnded"},
	{group: "Canary", file: "controllers/extendeddaemonset/utils.go", goName: "IsCanaryDeploymentPaused", leanName: "isCanaryDeploymentPaused"},
	{group: "Canary", file: "controllers/extendeddaemonset/utils.go", goName: "IsCanaryDeploymentUnpaused", leanName: "isCanaryDeploymentUnpaused"},
	{group: "Canary", file: "controllers/extendeddaemonset/utils.go", goName: "IsCanaryDeploymentValid", leanName: "isCanaryDeploymentValid"},
	{group: "Canary", file: "controllers/extendeddaemonset/utils.go", goName: "IsCanaryDeploymentFailed", leanName: "isCanaryDeploymentFailed"},
	{group: "Canary", file: "controllers/extendeddaemonset/controller.go", goName: "selectCurrentReplicaSet", leanName: "selectCurrentReplicaSet", ptrEq: "samePtr"},
	{group: "Canary", file: "controllers/extendeddaemonset/controller.go", goName: "nonCanaryState", leanName: "nonCanaryState"},
	{group: "Cleanup", file: "controllers/extendeddaemonset/controller.go", goName: "shouldDeleteERS", leanName: "shouldDeleteERS"},
	{group: "Defaults", file: "api/v1alpha1/extendeddaemonset_default.go", goName: "IsDefaultedExtendedDaemonSetSpecStrategyRollingUpdate", leanName: "isDefaultedRollingUpdate"},
	{group: "Defaults", file: "api/v1alpha1/extendeddaemonset_default.go", goName: "IsDefaultedExtendedDaemonSetSpecStrategyCanary", leanName: "isDefaultedCanary"},
	{group: "Defaults", file: "api/v1alpha1/extendeddaemonset_default.go", goName: "IsDefaultedExtendedDaemonSet", leanName: "isDefaultedExtendedDaemonSet"},
	{group: "Defaults", file: "api/v1alpha1/extendeddaemonset_default.go", goName: "DefaultExtendedDaemonSetSpecStrategyCanaryAutoPause", leanName: "defaultAutoPause"},
	{group: "Defaults", file: "api/v1alpha1/extendeddaemonset_default.go", goName: "DefaultExtendedDaemonSetSpecStrategyCanaryAutoFail", leanName: "defaultAutoFail"},
	{group: "Defaults", file: "api/v1alpha1/extendeddaemonset_default.go", goName: "DefaultExtendedDaemonSetSpecStrategyCanary", leanName: "defaultCanary"},
	{group: "Defaults", file: "api/v1alpha1/extendeddaemonset_default.go", goName: "DefaultExtendedDaemonSetSpecStrategyRollingUpdate", leanName: "defaultRollingUpdate"},
	{group: "Defaults", file: "api/v1alpha1/extendeddaemonset_default.go", goName: "DefaultExtendedDaemonSetSpec", leanName: "defaultSpec"},
	{group: "Defaults", file: "api/v1alpha1/extendeddaemonset_default.go", goName: "DefaultExtendedDaemonSet", leanName: "defaultExtendedDaemonSet"},
	{group: "Defaults", file: "api/v1alpha1/extendeddaemonset_validate.go", goName: "ValidateExtendedDaemonSetSpec", leanName: "validateSpec"},
	{group: "SlowStart", file: "controllers/extendeddaemonsetreplicaset/strategy/rollingupdate.go", goName: "getRollingUpdateStartTime", leanName: "getRollingUpdateStartTime"},
	{group: "SlowStart", file: "controllers/extendeddaemonsetreplicaset/strategy/rollingupdate.go", goName: "calculateMaxCreation", leanName: "calculateMaxCreation"},
	// group Conds: the condition-list helpers of both `conditions` packages, the role of a replica set,
	// and the pod helpers of pkg/controller/utils/pod (loops over slices)
	{group: "Conds", file: ersCondFile, goName: "NewExtendedDaemonSetReplicaSetCondition", leanName: "newERSCondition"},
	{group: "Conds", file: ersCondFile, goName: "GetIndexForConditionType", leanName: "getIndexForConditionType"},
	{group: "Conds", file: ersCondFile, goName: "GetExtendedDaemonSetReplicaSetStatusCondition", leanName: "getERSCondition"},
	{group: "Conds", file: ersCondFile, goName: "IsConditionTrue", leanName: "isERSConditionTrue"},
	{group: "Conds", file: ersCondFile, goName: "UpdateExtendedDaemonSetReplicaSetStatusCondition", leanName: "updateERSCondition"},
	{group: "Conds", file: ersCondFile, goName: "UpdateErrorCondition", leanName: "updateERSErrorCondition"},
	{group: "Conds", file: edsCondFile, goName: "NewExtendedDaemonSetCondition", leanName: "newEDSCondition"},
	{group: "Conds", file: edsCondFile, goName: "getIndexForConditionType", leanName: "getEDSIndexForConditionType"},
	{group: "Conds", file: edsCondFile, goName: "GetExtendedDaemonSetStatusCondition", leanName: "getEDSCondition"},
	{group: "Conds", file: edsCondFile, goName: "IsConditionTrue", leanName: "isEDSConditionTrue"},
	{group: "Conds", file: edsCondFile, goName: "UpdateExtendedDaemonSetStatusCondition", leanName: "updateEDSCondition"},
	{group: "Conds", file: edsCondFile, goName: "UpdateErrorCondition", leanName: "updateEDSErrorCondition"},
	{group: "Conds", file: "pkg/controller/utils/affinity/affinity.go", goName: "GetNodeNameFromAffinity", leanName: "getNodeNameFromAffinity"},
	{group: "Conds", file: podFile, goName: "IsPodScheduled", leanName: "isPodScheduled"},
	{group: "Conds", file: podFile, goName: "HasPodSchedulerIssue", leanName: "hasPodSchedulerIssue"},
	{group: "Conds", file: podFile, goName: "GetPodConditionFromList", leanName: "getPodConditionFromList"},
	{group: "Conds", file: podFile, goName: "GetPodCondition", leanName: "getPodCondition"},
	{group: "Conds", file: podFile, goName: "GetPodReadyCondition", leanName: "getPodReadyCondition"},
	{group: "Conds", file: podFile, goName: "IsPodReadyConditionTrue", leanName: "isPodReadyConditionTrue"},
	{group: "Conds", file: podFile, goName: "IsPodReady", leanName: "isPodReady"},
	{group: "Conds", file: podFile, goName: "IsPodAvailable", leanName: "isPodAvailable"},
	{group: "Conds", file: podFile, goName: "containerStatusList", leanName: "containerStatusList"},
	{group: "Conds", file: podFile, goName: "HighestRestartCount", leanName: "highestRestartCount"},
	{group: "Conds", file: podFile, goName: "MostRecentRestart", leanName: "mostRecentRestart"},
	{group: "Conds", file: podFile, goName: "IsCannotStartReason", leanName: "isCannotStartReason"},
	{group: "Conds", file: podFile, goName: "convertReasonToEDSStatusReason", leanName: "convertReasonToEDSStatusReason"},
	{group: "Conds", file: podFile, goName: "CannotStart", leanName: "cannotStart"},
	{group: "Conds", file: podFile, goName: "PendingCreate", leanName: "pendingCreate"},
	{group: "Conds", file: "controllers/extendeddaemonsetreplicaset/controller.go", goName: "retrieveReplicaSetStatus", leanName: "retrieveReplicaSetStatus"},
	{group: "Conds", file: "controllers/extendeddaemonset/controller.go", goName: "isCanaryActive", leanName: "isCanaryActive"},
	// group Status: the canary failure evaluation of the replica-set controller, the status functions of the
	// ExtendedDaemonSet controller, and small pure helpers.  Calls into the groups Canary and Conds.
	{group: "Status", file: ersCondFile, goName: "BoolToCondition", leanName: "boolToCondition"},
	{group: "Status", file: "controllers/extendeddaemonsetreplicaset/strategy/canary.go", goName: "manageCanaryPodFailures", leanName: "manageCanaryPodFailures"},
	{group: "Status", file: "controllers/extendeddaemonset/controller.go", goName: "manageCanaryStatusConditions", leanName: "manageCanaryStatusConditions"},
	{group: "Status", file: "controllers/extendeddaemonset/controller.go", goName: "manageStatus", leanName: "manageStatus"},
	{group: "Status", file: "controllers/extendeddaemonset/controller.go", goName: "clearCanaryAnnotations", leanName: "clearCanaryAnnotations"},
	{group: "Status", file: "controllers/extendeddaemonsetreplicaset/filters.go", recv: "sortPodByNodeName", goName: "Less", leanName: "sortPodByNodeNameLess"},
	{group: "Status", file: "controllers/extendeddaemonsetsetting/utils.go", recv: "edsNodeByCreationTimestampAndPhase", goName: "Less", leanName: "edsNodeByCreationTimestampAndPhaseLess"},
	{group: "Status", file: "pkg/controller/utils/result.go", goName: "MergeResult", leanName: "mergeResult"},
	{group: "Status", file: "pkg/controller/utils/list.go", goName: "ContainsString", leanName: "containsString"},
	{group: "Status", file: "controllers/extendeddaemonsetreplicaset/strategy/utils.go", goName: "manageUnscheduledPodNodes", leanName: "manageUnscheduledPodNodes"},
	{group: "Status", file: "controllers/extendeddaemonsetreplicaset/strategy/utils.go", goName: "compareSpecTemplateMD5Hash", leanName: "compareSpecTemplateMD5Hash"},
	// group PodCompare: is the pod of a node the pod the replica set would create there (strategy/utils.go).  Calls
	// compareSpecTemplateMD5Hash (group Status); its two library pieces are mapped to model functions (see call)
	{group: "PodCompare", file: "controllers/extendeddaemonsetreplicaset/strategy/utils.go", goName: "compareNodeResourcesOverwriteMD5Hash", leanName: "compareNodeResourcesOverwriteMD5Hash"},
	{group: "PodCompare", file: "controllers/extendeddaemonsetreplicaset/strategy/utils.go", goName: "compareCurrentPodWithNewPod", leanName: "compareCurrentPodWithNewPod"},
	// group CanaryStatus: the status of a replica set in canary state (Go maps: NodeByName, PodByNodeName).  Calls into
	// the groups Canary, Conds, Status and PodCompare.
	{group: "CanaryStatus", file: "controllers/extendeddaemonsetreplicaset/strategy/canary.go", goName: "requeueIn", leanName: "requeueIn"},
	{group: "CanaryStatus", file: "controllers/extendeddaemonsetreplicaset/strategy/canary.go", goName: "requeuePromptly", leanName: "requeuePromptly"},
	{group: "CanaryStatus", file: "controllers/extendeddaemonsetreplicaset/strategy/canary.go", goName: "manageCanaryStatus", leanName: "manageCanaryStatus"},
	// group Rolling: the classification loop of ManageDeployment (iteration over the Go map PodByNodeName); the rest of
	// the function talks to the API server (cleanupPods, the canary-label clean-up) and is not translated
	{group: "Rolling", file: "controllers/extendeddaemonsetreplicaset/strategy/rollingupdate.go", goName: "ManageDeployment", leanName: "manageDeploymentClassify",
		fragment: "range params.PodByNodeName"},
	// group Unknown: ManageUnknown as a whole (strategy/unknown.go): `delete` on the Go map PodByNodeName inside the loop over
	// the canary nodes, the iteration over the map, the status and the requeue request.  Its API client parameter is unused.
	{group: "Unknown", file: "controllers/extendeddaemonsetreplicaset/strategy/unknown.go", goName: "ManageUnknown", leanName: "manageUnknown"},
	// group Deployment: ManageDeployment as a whole (strategy/rollingupdate.go) and cleanupPods (strategy/utils.go).  What
	// talks to the API server is an opaque step whose results are parameters: deletePodSlice (declared opaque: goroutines,
	// client.Delete), and the statement `if err = client.List(…); err != nil { … } else { … deletePodLabel … }` of the
	// canary-label clean-up (apiStep).  sort.SliceStable and limits.CalculatePodToCreateAndDelete are mapped.
	{group: "Deployment", file: "controllers/extendeddaemonsetreplicaset/strategy/utils.go", goName: "deletePodSlice", leanName: "deletePodSlice", opaque: true},
	{group: "Deployment", file: "controllers/extendeddaemonsetreplicaset/strategy/utils.go", goName: "cleanupPods", leanName: "cleanupPods"},
	{group: "Deployment", file: "controllers/extendeddaemonsetreplicaset/strategy/rollingupdate.go", goName: "ManageDeployment", leanName: "manageDeployment"},
	// group Strategy: the canary role as a whole (ManageCanaryDeployment: manageCanaryStatus, then the label and pod clean-ups —
	// ensureCanaryPodLabels is an API loop, declared opaque) and the role switch of the replica-set reconciler (applyStrategy, a
	// method of the reconciler: `r.client` is the API client handle).  Calls into every strategy group.
	{group: "Strategy", file: "controllers/extendeddaemonsetreplicaset/strategy/canary.go", goName: "ensureCanaryPodLabels", leanName: "ensureCanaryPodLabels", opaque: true},
	{group: "Strategy", file: "controllers/extendeddaemonsetreplicaset/strategy/canary.go", goName: "ManageCanaryDeployment", leanName: "manageCanaryDeployment"},
	{group: "Strategy", file: "controllers/extendeddaemonsetreplicaset/controller.go", recv: "Reconciler", goName: "applyStrategy", leanName: "applyStrategy"},
	// group Setting: the conflict search of the ExtendedDaemonsetSetting controller (sort.Sort with the translated Less of group
	// Status, the label-selector conversion and match mapped to the model's selector functions, nodes x settings)
	{group: "Setting", file: "controllers/extendeddaemonsetsetting/controller.go", goName: "searchPossibleConflict", leanName: "searchPossibleConflict"},
}

const (
	ersCondFile = "controllers/extendeddaemonsetreplicaset/conditions/update.go"
	edsCondFile = "controllers/extendeddaemonset/conditions/update.go"
	podFile     = "pkg/controller/utils/pod/pod.go"
)

var decisionGroups = []string{"Canary", "Cleanup", "Defaults", "SlowStart", "Conds", "Status", "PodCompare", "CanaryStatus", "Rolling", "Unknown", "Deployment", "Strategy", "Setting"}

// groups whose functions a group calls: their generated files are imported, and their functions are
// translated again here only for their signatures (a failure there fails this group too)
var groupDeps = map[string][]string{"Status": {"Canary", "Conds"}, "PodCompare": {"Canary", "Conds", "Status"},
	"CanaryStatus": {"Canary", "Conds", "Status", "PodCompare"}, "Rolling": {"Canary", "Conds", "Status", "PodCompare"},
	"Unknown": {"Canary", "Conds", "Status", "PodCompare"}, "Deployment": {"Canary", "SlowStart", "Conds", "Status", "PodCompare"},
	"Strategy": {"Canary", "SlowStart", "Conds", "Status", "PodCompare", "CanaryStatus", "Unknown", "Deployment"},
	"Setting":  {"Canary", "Conds", "Status"}}

// other generated files a group's file imports (Limits.lean: limits.CalculatePodToCreateAndDelete, translated by genLimits)
var groupImports = map[string][]string{"Deployment": {"EdsModel.Generated.Limits"}, "Strategy": {"EdsModel.Generated.Limits"},
	"Setting": {"EdsModel.GoPreludeSetting"}}

// genDecisions returns, per group, the content of EdsModel/Generated/Dec<group>.lean.  A group
// the translator cannot express yields a file that does not compile (and says why), so that only
// the proof modules that depend on this group break.
func genDecisions(repo string) map[string]string {
	out := map[string]string{}
	for _, g := range decisionGroups {
		out[g] = genDecisionGroup(repo, g)
	}
	return out
}

const repoModule = "github.com/DataDog/extendeddaemonset/"

// fileImports: import alias -> directory under the repository (in-repo packages) or import path
func fileImports(f *ast.File) map[string]string {
	out := map[string]string{}
	for _, im := range f.Imports {
		path, _ := strconv.Unquote(im.Path.Value)
		alias := path[strings.LastIndex(path, "/")+1:]
		if im.Name != nil {
			alias = im.Name.Name
		}
		out[alias] = strings.TrimPrefix(path, repoModule)
	}
	return out
}

func genDecisionGroup(repo, group string) (content string) {
	header := "import EdsModel.GoPrelude\n"
	for _, d := range groupDeps[group] {
		header += "import EdsModel.Generated.Dec" + d + "\n"
	}
	for _, m := range groupImports[group] {
		header += "import " + m + "\n"
	}
	header += "/- GENERATED by tools/extract (gotolean.go) from the Go sources under /repo — do not edit.\n" +
		"   `none` = the Go function panics (nil dereference, index out of range, division by zero). -/\n" +
		"set_option linter.unusedVariables false\nnamespace Eds.Generated.Decisions\nopen Eds\n\n"
	defer func() {
		if r := recover(); r != nil {
			e, ok := r.(trErr)
			if !ok {
				panic(r)
			}
			fmt.Fprintf(os.Stderr, "extract: group %s not translated: %s\n", group, string(e))
			content = header + "/- TRANSLATION FAILED: " + strings.ReplaceAll(string(e), "-/", "- /") + " -/\n" +
				"#check (translation_of_group_" + group + "_failed : Nat)\n\nend Eds.Generated.Decisions\n"
		}
	}()
	initTables()
	t := &tr{fns: map[string]*fnInfo{}, sets: map[string][]string{}, localTypes: map[string]ast.Expr{}, repo: repo}
	t.loadConsts(repo)
	parsed := map[string]*ast.File{}
	var setDefs []string
	var order []*fnInfo
	isDep := map[string]bool{}
	for _, d := range groupDeps[group] {
		isDep[d] = true
	}
	// pass 1: the declarations (dependencies first, in their own order)
	for pass := 0; pass < 2; pass++ {
		for _, sp := range decisionFns {
			if (pass == 0 && !isDep[sp.group]) || (pass == 1 && sp.group != group) {
				continue
			}
			f, ok := parsed[sp.file]
			if !ok {
				f = parse(filepath.Join(repo, sp.file))
				parsed[sp.file] = f
				names := stringSets(f, t.sets)
				if pass == 1 {
					setDefs = append(setDefs, names...)
				}
				for _, d := range f.Decls {
					if gd, ok := d.(*ast.GenDecl); ok && gd.Tok == token.TYPE {
						for _, s := range gd.Specs {
							if ts, ok := s.(*ast.TypeSpec); ok {
								if _, isStruct := ts.Type.(*ast.StructType); !isStruct {
									if _, known := namedTypes[ts.Name.Name]; !known {
										t.localTypes[ts.Name.Name] = ts.Type
									}
								}
							}
						}
					}
				}
			}
			// the constants of the files of the group and of the groups it calls into (`cleanCanaryLabelsThreshold`, rollingupdate.go)
			t.fileConsts(f, false)
			var decl *ast.FuncDecl
			for _, d := range f.Decls {
				fd, ok := d.(*ast.FuncDecl)
				if !ok || fd.Name.Name != sp.goName {
					continue
				}
				if sp.recv == "" && fd.Recv == nil {
					decl = fd
				}
				if sp.recv != "" && fd.Recv != nil && len(fd.Recv.List) == 1 && len(fd.Recv.List[0].Names) == 1 {
					rt := fd.Recv.List[0].Type
					if st, ok := rt.(*ast.StarExpr); ok {
						rt = st.X // a pointer receiver (`func (r *Reconciler) applyStrategy`)
					}
					if id, ok := rt.(*ast.Ident); ok && id.Name == sp.recv {
						decl = fd
					}
				}
			}
			if decl == nil {
				dieT("gotolean: function %s not found in %s", sp.goName, sp.file)
			}
			fragLine := 0
			var fragResults []string
			if sp.fragment != "" {
				decl, fragLine, fragResults = fragmentDecl(decl, sp)
			}
			fi := &fnInfo{spec: sp, decl: decl, imports: fileImports(f), external: pass == 0, fragLine: fragLine, fragResults: fragResults}
			if decl.Type.Results != nil {
				for _, r := range decl.Type.Results.List {
					n := len(r.Names)
					if n == 0 {
						n = 1
					}
					for i := 0; i < n; i++ {
						fi.results = append(fi.results, t.goType(r.Type))
					}
				}
			}
			fi.nGo = len(fi.results)
			params := paramFields(decl)
			firstPtr := false
			if len(params) > 0 {
				_, firstPtr = params[0].Type.(*ast.StarExpr)
			}
			// no result and a pointer first parameter: the function is what it does to that pointee
			if fi.nGo == 0 && firstPtr {
				fi.void, fi.mutator = true, true
				fi.retParams = []string{params[0].Names[0].Name}
			}
			// mutator: pointer first parameter, single pointer result, last statement `return <param0>`
			if fi.nGo == 1 && fi.results[0].K == "ptr" && firstPtr && len(decl.Body.List) > 0 {
				p0 := params[0].Names[0].Name
				if rs, ok := decl.Body.List[len(decl.Body.List)-1].(*ast.ReturnStmt); ok && len(rs.Results) == 1 {
					if id, ok := rs.Results[0].(*ast.Ident); ok && id.Name == p0 {
						fi.mutator = true
					}
				}
			}
			key := filepath.Dir(sp.file) + ":" + sp.goName
			if sp.fragment != "" {
				key += "#" + sp.fragment
			}
			if sp.recv != "" {
				key = filepath.Dir(sp.file) + ":" + sp.recv + "." + sp.goName
			}
			t.fns[key] = fi
			order = append(order, fi)
		}
	}
	// pass 2: the other pointer parameters a function assigns through are returned after its Go results
	for _, fi := range order {
		if fi.spec.opaque {
			continue // assumed to assign through none of its arguments
		}
		mut := t.mutatedParams(fi)
		switch {
		case fi.mutator && fi.nGo == 1:
			// returns its first parameter itself
			for _, m := range mut {
				if m != paramFields(fi.decl)[0].Names[0].Name {
					dieT("gotolean: %s returns its first parameter and mutates %s", fi.spec.goName, m)
				}
			}
		case fi.void && fi.mutator:
			for _, m := range mut {
				if m != fi.retParams[0] {
					fi.retParams = append(fi.retParams, m)
					fi.mutator = false // callers of a function that mutates several arguments are outside the subset
				}
			}
		default:
			if fi.nGo == 0 {
				if len(mut) == 0 {
					dieT("gotolean: %s has no result and mutates nothing", fi.spec.goName)
				}
				fi.void = true
			}
			fi.retParams = mut
		}
		if !(fi.mutator && fi.nGo == 1) {
			fi.results = fi.results[:fi.nGo]
			for _, pn := range fi.retParams {
				for _, p := range paramFields(fi.decl) {
					for _, n := range p.Names {
						if n.Name == pn {
							fi.results = append(fi.results, t.goType(p.Type))
						}
					}
				}
			}
		}
	}
	var sb strings.Builder
	sb.WriteString(header)
	for _, n := range setDefs {
		var qs []string
		for _, k := range t.sets[n] {
			qs = append(qs, strconv.Quote(k))
		}
		fmt.Fprintf(&sb, "/-- the keys of the package-level set `%s`, in source order -/\ndef %s : List String :=\n  [%s]\n\n", n, n, strings.Join(qs, ", "))
	}
	for _, fi := range order {
		out := t.translate(fi)
		if fi.external {
			continue
		}
		sb.WriteString(out)
		sb.WriteString("\n")
	}
	sb.WriteString("end Eds.Generated.Decisions\n")
	return sb.String()
}
