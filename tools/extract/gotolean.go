package main

// gotolean: a small syntax-directed translator from a subset of Go into Lean 4.
//
// It turns the *decision functions* of the controller (annotation / condition readers, the
// promotion rule, defaulting, validation, the deletion rule of replica sets, the slow-start
// arithmetic) into Lean definitions over the model's own record types
// (EdsModel/Generated/Decisions.lean).  EdsProofs/DecisionsBridge.lean then proves each generated
// definition equal to the hand-written model function the property theorems are stated about, so a
// change to one of these Go functions breaks a proof obligation directly.
//
// Semantics of the translation
//   * every function returns `Option R`: `none` is a Go panic (nil dereference, index out of range,
//     division by zero); multiple results become a tuple;
//   * a pointer type `*T` is `Option T`; every dereference binds in the Option monad, evaluated in
//     Go's order, `&&` / `||` short-circuit;
//   * statements become nested `let` / `if` / `Option.bind`; an `if` whose body falls through joins
//     through a tuple of the variables it assigns, or through a local continuation when the body
//     both returns and falls through;
//   * assignments through a pointer (`c.X = v`, `Default…(c.Sub)`) rebuild the pointee
//     (`some { c_ with x := v }`).
// Anything outside the subset makes the translator fail loudly (the tie is then reported broken).

import (
	"fmt"
	"go/ast"
	"go/token"
	"os"
	"path/filepath"
	"sort"
	"strconv"
	"strings"
)

// a translation failure is confined to the group of functions being translated
type trErr string

func dieT(format string, a ...interface{}) { panic(trErr(fmt.Sprintf(format, a...))) }

type Ty struct {
	K string // bool int str dur time smap ios ptr struct list nil unit
	E *Ty
	N string
}

func tBool() Ty { return Ty{K: "bool"} }
func tInt() Ty  { return Ty{K: "int"} }
func tStr() Ty  { return Ty{K: "str"} }
func tDur() Ty  { return Ty{K: "dur"} }
func tTime() Ty { return Ty{K: "time"} }
func tPtr(e Ty) Ty {
	return Ty{K: "ptr", E: &e}
}
func tStruct(n string) Ty { return Ty{K: "struct", N: n} }
func tList(e Ty) Ty       { return Ty{K: "list", E: &e} }

func (t Ty) lean() string {
	switch t.K {
	case "bool":
		return "Bool"
	case "int", "dur", "time":
		return "Int"
	case "str":
		return "String"
	case "smap":
		return "SMap"
	case "ios":
		return "IntOrStr"
	case "ptr":
		return "Option (" + t.E.lean() + ")"
	case "struct":
		return t.N
	case "list":
		return "List (" + t.E.lean() + ")"
	case "unit":
		return "Unit"
	}
	dieT("gotolean: no Lean type for %+v", t)
	return ""
}

type field struct {
	lean string
	ty   Ty
}

// Go struct (by its Lean name) -> Go field -> Lean field.  The order is the Lean structure's field
// order (needed for zero values of composite literals).
type structDef struct {
	lean   string
	order  []string
	fields map[string]field
}

var structs = map[string]*structDef{}

func defStruct(lean string, fs ...interface{}) {
	sd := &structDef{lean: lean, fields: map[string]field{}}
	for i := 0; i < len(fs); i += 3 {
		g := fs[i].(string)
		sd.order = append(sd.order, g)
		sd.fields[g] = field{fs[i+1].(string), fs[i+2].(Ty)}
	}
	structs[lean] = sd
}

// Go named type (last identifier) -> Ty
var namedTypes = map[string]Ty{}

func initTables() {
	if len(structs) > 0 {
		return
	}
	ios := Ty{K: "ios"}
	smap := Ty{K: "smap"}
	defStruct("LabelSelector", "MatchLabels", "matchLabels", smap, "MatchExpressions", "exprs", tList(tStruct("Req")))
	defStruct("AutoPause", "Enabled", "enabled", tPtr(tBool()), "MaxRestarts", "maxRestarts", tPtr(tInt()),
		"MaxSlowStartDuration", "maxSlowStartDuration", tPtr(tDur()))
	defStruct("AutoFail", "Enabled", "enabled", tPtr(tBool()), "MaxRestarts", "maxRestarts", tPtr(tInt()),
		"MaxRestartsDuration", "maxRestartsDuration", tPtr(tDur()), "CanaryTimeout", "canaryTimeout", tPtr(tDur()))
	defStruct("Canary", "Replicas", "replicas", tPtr(ios), "Duration", "duration", tPtr(tDur()),
		"NodeSelector", "nodeSelector", tPtr(tStruct("LabelSelector")),
		"NodeAntiAffinityKeys", "antiAffinityKeys", tList(tStr()),
		"AutoPause", "autoPause", tPtr(tStruct("AutoPause")), "AutoFail", "autoFail", tPtr(tStruct("AutoFail")),
		"NoRestartsDuration", "noRestartsDuration", tPtr(tDur()), "ValidationMode", "validationMode", tStr())
	defStruct("RollingUpdate", "MaxUnavailable", "maxUnavailable", tPtr(ios),
		"MaxPodSchedulerFailure", "maxPodSchedulerFailure", tPtr(ios),
		"MaxParallelPodCreation", "maxParallelPodCreation", tPtr(tInt()),
		"SlowStartIntervalDuration", "slowStartInterval", tPtr(tDur()),
		"SlowStartAdditiveIncrease", "slowStartAdditiveIncrease", tPtr(ios))
	defStruct("Strategy", "RollingUpdate", "rollingUpdate", tStruct("RollingUpdate"),
		"Canary", "canary", tPtr(tStruct("Canary")), "ReconcileFrequency", "reconcileFrequency", tPtr(tDur()))
	defStruct("GTemplate", "Name", "name", tStr())
	defStruct("GSpec", "Strategy", "strategy", tStruct("Strategy"), "Template", "template", tStruct("GTemplate"))
	defStruct("GEds", "Spec", "spec", tStruct("GSpec"), "Annotations", "annotations", smap)
	defStruct("Cond", "Type", "type", tStr(), "Status", "status", tStr(),
		"LastTransitionTime", "lastTransition", tTime(), "LastUpdateTime", "lastUpdate", tTime(),
		"Reason", "reason", tStr(), "Message", "message", tStr())
	defStruct("ERSStatus", "Status", "status", tStr(), "Desired", "desired", tInt(), "Current", "current", tInt(),
		"Ready", "ready", tInt(), "Available", "available", tInt(),
		"IgnoredUnresponsiveNodes", "ignored", tInt(), "Conditions", "conds", tList(tStruct("Cond")))
	defStruct("ERS", "Name", "name", tStr(), "CreationTimestamp", "creation", tTime(), "Status", "status", tStruct("ERSStatus"))

	namedTypes = map[string]Ty{
		"ExtendedDaemonSet":                                 tStruct("GEds"),
		"ExtendedDaemonSetSpec":                             tStruct("GSpec"),
		"ExtendedDaemonSetSpecStrategy":                     tStruct("Strategy"),
		"ExtendedDaemonSetSpecStrategyRollingUpdate":        tStruct("RollingUpdate"),
		"ExtendedDaemonSetSpecStrategyCanary":               tStruct("Canary"),
		"ExtendedDaemonSetSpecStrategyCanaryAutoPause":      tStruct("AutoPause"),
		"ExtendedDaemonSetSpecStrategyCanaryAutoFail":       tStruct("AutoFail"),
		"ExtendedDaemonSetSpecStrategyCanaryValidationMode": tStr(),
		"ExtendedDaemonSetReplicaSet":                       tStruct("ERS"),
		"ExtendedDaemonSetReplicaSetStatus":                 tStruct("ERSStatus"),
		"ExtendedDaemonSetReplicaSetCondition":              tStruct("Cond"),
		"ExtendedDaemonSetStatusReason":                     tStr(),
		"ExtendedDaemonSetStatusState":                      tStr(),
		"LabelSelector":                                     tStruct("LabelSelector"),
		"IntOrString":                                       ios,
	}
}

// a function to translate
type fnSpec struct {
	group                  string
	file, goName, leanName string
	recvPkg                string // qualifier other packages use for it ("" = any)
	// name of a synthetic Bool parameter standing for pointer identity of two pointer arguments
	ptrEq string
}

type fnInfo struct {
	spec    fnSpec
	decl    *ast.FuncDecl
	params  []field // lean name + type
	results []Ty
	// the function returns its first (pointer) parameter after mutating the pointee
	mutator bool
}

type bind struct{ v, m string }

type val struct {
	binds []bind
	term  string
	ty    Ty
	// the value is exactly this local pointer variable (Go name)
	ptrVar string
	// the value is `&x`: dereferencing it gives x back
	pointee *val
}

type tr struct {
	consts map[string]val     // package-level constants (unqualified name) -> literal
	fns    map[string]*fnInfo // Go name -> translated function
	cur    *fnInfo
	env    []map[string]field // Go local -> Lean name + type
	// pointer variable (Go name) -> Lean name of its pointee, once a dereference has succeeded
	// ("" = no longer valid); scoped like env
	alias []map[string]string
	fresh int
	used  map[string]int
}

func (t *tr) push() {
	t.env = append(t.env, map[string]field{})
	t.alias = append(t.alias, map[string]string{})
}
func (t *tr) pop() {
	t.env = t.env[:len(t.env)-1]
	t.alias = t.alias[:len(t.alias)-1]
}
func (t *tr) aliasOf(n string) string {
	for i := len(t.alias) - 1; i >= 0; i-- {
		if a, ok := t.alias[i][n]; ok {
			return a
		}
	}
	return ""
}
func (t *tr) lookup(n string) (field, bool) {
	for i := len(t.env) - 1; i >= 0; i-- {
		if f, ok := t.env[i][n]; ok {
			return f, true
		}
	}
	return field{}, false
}
func (t *tr) declare(n string, ty Ty) string {
	ln := n
	if c := t.used[n]; c > 0 {
		ln = fmt.Sprintf("%s_%d", n, c+1)
	}
	t.used[n]++
	switch ln {
	case "at", "end", "open", "from", "to", "fun", "then", "do", "type", "instance", "class", "where", "with", "match", "in", "by", "have", "show":
		ln += "'"
	}
	t.env[len(t.env)-1][n] = field{ln, ty}
	return ln
}
func (t *tr) tmp(p string) string { t.fresh++; return fmt.Sprintf("%s%d", p, t.fresh) }

func pos(n ast.Node) string { return fset.Position(n.Pos()).String() }

// ---------------------------------------------------------------------------------------------

func (t *tr) goType(e ast.Expr) Ty {
	switch x := e.(type) {
	case *ast.Ident:
		switch x.Name {
		case "bool":
			return tBool()
		case "string":
			return tStr()
		case "int", "int32", "int64":
			return tInt()
		case "error":
			return tPtr(tStr())
		}
		if ty, ok := namedTypes[x.Name]; ok {
			return ty
		}
	case *ast.StarExpr:
		return tPtr(t.goType(x.X))
	case *ast.SelectorExpr:
		if p, ok := x.X.(*ast.Ident); ok {
			switch p.Name + "." + x.Sel.Name {
			case "time.Time", "metav1.Time":
				return tTime()
			case "time.Duration", "metav1.Duration":
				return tDur()
			}
			if ty, ok := namedTypes[x.Sel.Name]; ok {
				return ty
			}
		}
	case *ast.MapType:
		return Ty{K: "smap"}
	}
	dieT("gotolean: unsupported type at %s", pos(e))
	return Ty{}
}

func zero(ty Ty) string {
	switch ty.K {
	case "bool":
		return "false"
	case "int", "dur":
		return "0"
	case "time":
		return "zeroTime"
	case "str":
		return "\"\""
	case "smap", "list":
		return "[]"
	case "ptr":
		return "none"
	case "ios":
		return "({ kind := \"int\", val := 0 } : IntOrStr)"
	case "struct":
		sd := structs[ty.N]
		var parts []string
		for _, g := range sd.order {
			f := sd.fields[g]
			parts = append(parts, f.lean+" := "+zero(f.ty))
		}
		return "({ " + strings.Join(parts, ", ") + " } : " + ty.N + ")"
	}
	dieT("gotolean: no zero value for %+v", ty)
	return ""
}

// wrap sequences the pending binds in front of a term of type `Option _`.
func wrap(bs []bind, body string) string {
	for i := len(bs) - 1; i >= 0; i-- {
		body = "Option.bind " + bs[i].m + " fun " + bs[i].v + " =>\n" + body
	}
	return body
}

func pure(term string, ty Ty) val { return val{term: term, ty: ty} }

// deref makes a value of pointer type usable as its pointee.
func (t *tr) deref(v val, n ast.Node) val {
	if v.ty.K != "ptr" {
		dieT("gotolean: dereference of a non-pointer at %s", pos(n))
	}
	if v.pointee != nil {
		return *v.pointee
	}
	if v.ptrVar != "" {
		if a := t.aliasOf(v.ptrVar); a != "" {
			return val{binds: v.binds, term: a, ty: *v.ty.E}
		}
		// first dereference of this pointer variable: from here on its pointee has a name
		x := t.tmp(v.ptrVar + "_")
		t.alias[len(t.alias)-1][v.ptrVar] = x
		return val{binds: append(append([]bind{}, v.binds...), bind{x, v.term}), term: x, ty: *v.ty.E}
	}
	x := t.tmp("p")
	return val{binds: append(append([]bind{}, v.binds...), bind{x, v.term}), term: x, ty: *v.ty.E}
}

func (t *tr) sel(v val, name string, n ast.Node) val {
	if v.ty.K == "ptr" {
		v = t.deref(v, n)
	}
	switch v.ty.K {
	case "dur":
		if name == "Duration" {
			return v
		}
	case "time":
		if name == "Time" {
			return v
		}
	case "struct":
		sd := structs[v.ty.N]
		if f, ok := sd.fields[name]; ok {
			return val{binds: v.binds, term: v.term + "." + f.lean, ty: f.ty}
		}
	}
	dieT("gotolean: unknown field %s of %+v at %s", name, v.ty, pos(n))
	return val{}
}

func isPkg(e ast.Expr) (string, bool) {
	id, ok := e.(*ast.Ident)
	if !ok {
		return "", false
	}
	switch id.Name {
	case "time", "metav1", "datadoghqv1alpha1", "intstr", "intstrutil", "conditions", "ersconditions", "corev1", "v1alpha1":
		return id.Name, true
	}
	return "", false
}

func (t *tr) constant(name string, n ast.Node) val {
	switch name {
	case "time.Minute":
		return pure("minute", tDur())
	case "time.Second":
		return pure("sec", tDur())
	case "corev1.ConditionTrue":
		return pure("\"True\"", tStr())
	case "corev1.ConditionFalse":
		return pure("\"False\"", tStr())
	}
	if i := strings.Index(name, "."); i >= 0 {
		name = name[i+1:]
	}
	if v, ok := t.consts[name]; ok {
		return v
	}
	dieT("gotolean: unknown constant %s at %s", name, pos(n))
	return val{}
}

func (t *tr) ex(e ast.Expr) val {
	switch x := e.(type) {
	case *ast.ParenExpr:
		v := t.ex(x.X)
		v.term = "(" + v.term + ")"
		return v
	case *ast.BasicLit:
		switch x.Kind {
		case token.INT:
			return pure(x.Value, tInt())
		case token.STRING:
			s, err := strconv.Unquote(x.Value)
			if err != nil {
				dieT("gotolean: bad string at %s", pos(x))
			}
			return pure(strconv.Quote(s), tStr())
		}
	case *ast.Ident:
		switch x.Name {
		case "nil":
			return pure("none", Ty{K: "nil"})
		case "true", "false":
			return pure(x.Name, tBool())
		}
		if f, ok := t.lookup(x.Name); ok {
			if f.ty.K == "ptr" {
				if a := t.aliasOf(x.Name); a != "" {
					return val{term: "(some " + a + ")", ty: f.ty, ptrVar: x.Name}
				}
				return val{term: f.lean, ty: f.ty, ptrVar: x.Name}
			}
			return pure(f.lean, f.ty)
		}
		return t.constant(x.Name, x)
	case *ast.SelectorExpr:
		if p, ok := isPkg(x.X); ok {
			return t.constant(p+"."+x.Sel.Name, x)
		}
		return t.sel(t.ex(x.X), x.Sel.Name, x)
	case *ast.StarExpr:
		return t.deref(t.ex(x.X), x)
	case *ast.UnaryExpr:
		switch x.Op {
		case token.NOT:
			v := t.ex(x.X)
			return val{binds: v.binds, term: "(!" + v.term + ")", ty: tBool()}
		case token.SUB:
			v := t.ex(x.X)
			return val{binds: v.binds, term: "(-" + v.term + ")", ty: v.ty}
		case token.AND:
			v := t.ex(x.X)
			pv := v
			return val{binds: v.binds, term: "(some " + v.term + ")", ty: tPtr(v.ty), pointee: &pv}
		}
	case *ast.BinaryExpr:
		return t.binary(x)
	case *ast.CallExpr:
		return t.call(x)
	case *ast.CompositeLit:
		return t.composite(x)
	case *ast.IndexExpr:
		m := t.ex(x.X)
		k := t.ex(x.Index)
		bs := append(append([]bind{}, m.binds...), k.binds...)
		switch m.ty.K {
		case "smap":
			return val{binds: bs, term: "(SMap.getD " + m.term + " " + k.term + ")", ty: tStr()}
		case "list":
			r := t.tmp("e")
			bs = append(bs, bind{r, "(Go.index " + m.term + " " + k.term + ")"})
			return val{binds: bs, term: r, ty: *m.ty.E}
		}
	}
	dieT("gotolean: unsupported expression at %s", pos(e))
	return val{}
}

func (t *tr) binary(x *ast.BinaryExpr) val {
	switch x.Op {
	case token.LAND, token.LOR:
		a := t.ex(x.X)
		t.push() // dereferences of the right operand are conditional: their names stay local
		b := t.ex(x.Y)
		t.pop()
		op := " && "
		if x.Op == token.LOR {
			op = " || "
		}
		if len(b.binds) == 0 {
			return val{binds: a.binds, term: "(" + a.term + op + b.term + ")", ty: tBool()}
		}
		// short circuit: the right operand's dereferences happen only when it is evaluated
		var m string
		if x.Op == token.LAND {
			m = "(if " + a.term + " then (" + wrap(b.binds, "some "+b.term) + ") else some false)"
		} else {
			m = "(if " + a.term + " then some true else (" + wrap(b.binds, "some "+b.term) + "))"
		}
		r := t.tmp("c")
		return val{binds: append(append([]bind{}, a.binds...), bind{r, m}), term: r, ty: tBool()}
	}
	a, b := t.ex(x.X), t.ex(x.Y)
	bs := append(append([]bind{}, a.binds...), b.binds...)
	switch x.Op {
	case token.EQL, token.NEQ:
		neg := x.Op == token.NEQ
		if a.ty.K == "nil" || b.ty.K == "nil" {
			p := a
			if a.ty.K == "nil" {
				p = b
			}
			if p.ty.K != "ptr" {
				dieT("gotolean: nil compared with a non-pointer at %s", pos(x))
			}
			if neg {
				return val{binds: bs, term: "(" + p.term + ").isSome", ty: tBool()}
			}
			return val{binds: bs, term: "(" + p.term + ").isNone", ty: tBool()}
		}
		if a.ty.K == "ptr" && b.ty.K == "ptr" {
			if t.cur.spec.ptrEq == "" {
				dieT("gotolean: pointer comparison at %s", pos(x))
			}
			if neg {
				return val{binds: bs, term: "(!" + t.cur.spec.ptrEq + ")", ty: tBool()}
			}
			return val{binds: bs, term: t.cur.spec.ptrEq, ty: tBool()}
		}
		if neg {
			return val{binds: bs, term: "(" + a.term + " != " + b.term + ")", ty: tBool()}
		}
		return val{binds: bs, term: "(" + a.term + " == " + b.term + ")", ty: tBool()}
	case token.LSS, token.LEQ, token.GTR, token.GEQ:
		op := map[token.Token]string{token.LSS: "<", token.LEQ: "≤", token.GTR: ">", token.GEQ: "≥"}[x.Op]
		return val{binds: bs, term: "(decide (" + a.term + " " + op + " " + b.term + "))", ty: tBool()}
	case token.ADD, token.SUB, token.MUL:
		ty := a.ty
		if ty.K == "int" {
			ty = b.ty
		}
		return val{binds: bs, term: "(" + a.term + " " + x.Op.String() + " " + b.term + ")", ty: ty}
	case token.QUO:
		r := t.tmp("q")
		bs = append(bs, bind{r, "(goDiv " + a.term + " " + b.term + ")"})
		return val{binds: bs, term: r, ty: tInt()}
	}
	dieT("gotolean: unsupported operator at %s", pos(x))
	return val{}
}

func (t *tr) composite(x *ast.CompositeLit) val {
	ty := t.goType(x.Type)
	switch ty.K {
	case "dur": // metav1.Duration{Duration: d}
		if len(x.Elts) == 1 {
			if kv, ok := x.Elts[0].(*ast.KeyValueExpr); ok {
				return t.ex(kv.Value)
			}
		}
	case "smap":
		if len(x.Elts) == 0 {
			return pure("[]", ty)
		}
	case "struct":
		sd := structs[ty.N]
		given := map[string]val{}
		var bs []bind
		for _, el := range x.Elts {
			kv, ok := el.(*ast.KeyValueExpr)
			if !ok {
				dieT("gotolean: positional composite literal at %s", pos(x))
			}
			v := t.ex(kv.Value)
			bs = append(bs, v.binds...)
			given[kv.Key.(*ast.Ident).Name] = v
		}
		var parts []string
		for _, g := range sd.order {
			f := sd.fields[g]
			if v, ok := given[g]; ok {
				parts = append(parts, f.lean+" := "+v.term)
			} else {
				parts = append(parts, f.lean+" := "+zero(f.ty))
			}
		}
		return val{binds: bs, term: "({ " + strings.Join(parts, ", ") + " } : " + ty.N + ")", ty: ty}
	}
	dieT("gotolean: unsupported composite literal at %s", pos(x))
	return val{}
}

func (t *tr) call(x *ast.CallExpr) val {
	args := func() ([]val, []bind) {
		var vs []val
		var bs []bind
		for _, a := range x.Args {
			v := t.ex(a)
			bs = append(bs, v.binds...)
			vs = append(vs, v)
		}
		return vs, bs
	}
	name := ""
	switch f := x.Fun.(type) {
	case *ast.Ident:
		name = f.Name
	case *ast.SelectorExpr:
		if p, ok := isPkg(f.X); ok {
			name = p + "." + f.Sel.Name
		} else {
			// method call
			recv := t.ex(f.X)
			vs, bs := args()
			bs = append(append([]bind{}, recv.binds...), bs...)
			m := f.Sel.Name
			switch {
			case recv.ty.K == "time" && m == "Add":
				return val{binds: bs, term: "(" + recv.term + " + " + vs[0].term + ")", ty: tTime()}
			case recv.ty.K == "time" && m == "Sub":
				return val{binds: bs, term: "(" + recv.term + " - " + vs[0].term + ")", ty: tDur()}
			case recv.ty.K == "time" && m == "IsZero":
				return val{binds: bs, term: "(isZeroTime " + recv.term + ")", ty: tBool()}
			case recv.ty.K == "time" && m == "Before":
				return val{binds: bs, term: "(decide (" + recv.term + " < " + vs[0].term + "))", ty: tBool()}
			case recv.ty.K == "time" && m == "After":
				return val{binds: bs, term: "(decide (" + recv.term + " > " + vs[0].term + "))", ty: tBool()}
			case m == "DeepCopy":
				return val{binds: bs, term: recv.term, ty: recv.ty}
			case m == "GetAnnotations":
				r := t.sel(val{binds: bs, term: recv.term, ty: recv.ty}, "Annotations", x)
				return r
			case m == "GetName":
				return t.sel(val{binds: bs, term: recv.term, ty: recv.ty}, "Name", x)
			}
			dieT("gotolean: unsupported method %s at %s", m, pos(x))
		}
	}
	// conversions
	base := name
	if i := strings.Index(base, "."); i >= 0 {
		base = base[i+1:]
	}
	if ty, ok := namedTypes[base]; ok && len(x.Args) == 1 && ty.K == "str" {
		v := t.ex(x.Args[0])
		return val{binds: v.binds, term: v.term, ty: ty}
	}
	if name == "int" || name == "int32" {
		return t.ex(x.Args[0])
	}
	// translated functions
	if fi, ok := t.fns[base]; ok {
		vs, bs := args()
		var as []string
		for i, v := range vs {
			if v.ty.K == "nil" {
				as = append(as, "none")
			} else {
				as = append(as, v.term)
			}
			_ = i
		}
		if fi.spec.ptrEq != "" {
			dieT("gotolean: call of a function with a pointer-identity parameter at %s", pos(x))
		}
		r := t.tmp("r")
		bs = append(bs, bind{r, "(" + fi.spec.leanName + " " + strings.Join(as, " ") + ")"})
		if len(fi.results) == 1 {
			return val{binds: bs, term: r, ty: fi.results[0]}
		}
		return val{binds: bs, term: r, ty: Ty{K: "tuple"}}
	}
	vs, bs := args()
	switch name {
	case "conditions.GetExtendedDaemonSetReplicaSetStatusCondition", "ersconditions.GetExtendedDaemonSetReplicaSetStatusCondition":
		s := t.deref(vs[0], x)
		bs = append(bs, s.binds[len(vs[0].binds):]...)
		return val{binds: bs, term: "(findCond " + s.term + ".conds " + vs[1].term + ")", ty: tPtr(tStruct("Cond"))}
	case "conditions.IsConditionTrue", "ersconditions.IsConditionTrue":
		s := t.deref(vs[0], x)
		bs = append(bs, s.binds[len(vs[0].binds):]...)
		return val{binds: bs, term: "(isCondTrue " + s.term + ".conds " + vs[1].term + ")", ty: tBool()}
	case "conditions.GetIndexForConditionType", "ersconditions.GetIndexForConditionType":
		s := t.deref(vs[0], x)
		bs = append(bs, s.binds[len(vs[0].binds):]...)
		return val{binds: bs, term: "(Go.condIndex " + s.term + ".conds " + vs[1].term + ")", ty: tInt()}
	case "intstr.ValueOrDefault":
		return val{binds: bs, term: "(some (" + vs[0].term + ".getD " + vs[1].term + "))", ty: tPtr(Ty{K: "ios"})}
	case "intstr.FromInt":
		return val{binds: bs, term: "(intVal " + vs[0].term + ")", ty: Ty{K: "ios"}}
	case "NewInt32":
		return val{binds: bs, term: "(some " + vs[0].term + ")", ty: tPtr(tInt())}
	case "intstrutil.GetValueFromIntOrPercent":
		// (value, error): the error is `none` of resolveIntOrPercent
		return val{binds: bs, term: "(Go.valueFromIntOrPercent " + vs[0].term + " " + vs[1].term + ")", ty: Ty{K: "tuple"}}
	}
	dieT("gotolean: unsupported call %s at %s", name, pos(x))
	return val{}
}

// ---------------------------------------------------------------------------------------------
// statements

func hasReturn(n ast.Node) bool {
	found := false
	ast.Inspect(n, func(m ast.Node) bool {
		if _, ok := m.(*ast.ReturnStmt); ok {
			found = true
		}
		if _, ok := m.(*ast.FuncLit); ok {
			return false
		}
		return true
	})
	return found
}

func alwaysReturns(list []ast.Stmt) bool {
	if len(list) == 0 {
		return false
	}
	switch s := list[len(list)-1].(type) {
	case *ast.ReturnStmt:
		return true
	case *ast.IfStmt:
		if s.Else == nil {
			return false
		}
		eb, ok := s.Else.(*ast.BlockStmt)
		if !ok {
			return alwaysReturns(s.Body.List) && alwaysReturns([]ast.Stmt{s.Else})
		}
		return alwaysReturns(s.Body.List) && alwaysReturns(eb.List)
	}
	return false
}

// assigned lists the already declared locals (root identifiers) a statement list assigns.
func (t *tr) assigned(list []ast.Stmt) []string {
	set := map[string]bool{}
	var walk func(n ast.Node)
	root := func(e ast.Expr) string {
		for {
			switch x := e.(type) {
			case *ast.SelectorExpr:
				e = x.X
			case *ast.StarExpr:
				e = x.X
			case *ast.ParenExpr:
				e = x.X
			case *ast.Ident:
				return x.Name
			default:
				return ""
			}
		}
	}
	walk = func(n ast.Node) {
		ast.Inspect(n, func(m ast.Node) bool {
			switch s := m.(type) {
			case *ast.AssignStmt:
				for _, l := range s.Lhs {
					r := root(l)
					if r == "" || r == "_" {
						continue
					}
					if _, isIdent := l.(*ast.Ident); isIdent && s.Tok == token.DEFINE {
						continue
					}
					if _, ok := t.lookup(r); ok {
						set[r] = true
					}
				}
			case *ast.ExprStmt:
				if c, ok := s.X.(*ast.CallExpr); ok && len(c.Args) > 0 {
					if t.isMutatorCall(c) {
						a := c.Args[0]
						if u, ok := a.(*ast.UnaryExpr); ok && u.Op == token.AND {
							a = u.X
						}
						if r := root(a); r != "" {
							if _, ok := t.lookup(r); ok {
								set[r] = true
							}
						}
					}
				}
			}
			return true
		})
	}
	for _, s := range list {
		walk(s)
	}
	var out []string
	for k := range set {
		out = append(out, k)
	}
	sort.Strings(out)
	return out
}

func (t *tr) isMutatorCall(c *ast.CallExpr) bool {
	name := ""
	switch f := c.Fun.(type) {
	case *ast.Ident:
		name = f.Name
	case *ast.SelectorExpr:
		name = f.Sel.Name
	}
	fi, ok := t.fns[name]
	return ok && fi.mutator
}

func (t *tr) tuple(names []string) (string, string) {
	if len(names) == 0 {
		return "()", "(_ : Unit)"
	}
	var ls, ps []string
	for _, n := range names {
		f, _ := t.lookup(n)
		if f.ty.K == "ptr" {
			// assigned through the pointer: the joined value is the pointee
			a := t.aliasOf(n)
			if a == "" {
				dieT("gotolean: %s is assigned through before it is dereferenced", n)
			}
			ls = append(ls, a)
			ps = append(ps, "("+a+" : "+f.ty.E.lean()+")")
			continue
		}
		ls = append(ls, f.lean)
		ps = append(ps, "("+f.lean+" : "+f.ty.lean()+")")
	}
	if len(ls) == 1 {
		return ls[0], ps[0]
	}
	return "(" + strings.Join(ls, ", ") + ")", strings.Join(ps, " ")
}

// assignPath emits the rebuild of the local variable at the root of `lhs` with the value `v`, then
// `rest`.
func (t *tr) assignPath(lhs ast.Expr, v string, rest func() string) string {
	switch x := lhs.(type) {
	case *ast.Ident:
		f, ok := t.lookup(x.Name)
		if !ok {
			dieT("gotolean: assignment to unknown %s at %s", x.Name, pos(x))
		}
		if f.ty.K == "ptr" {
			t.alias[len(t.alias)-1][x.Name] = ""
		}
		return "let " + f.lean + " : " + f.ty.lean() + " := " + v + "\n" + rest()
	case *ast.SelectorExpr:
		if id, ok := x.X.(*ast.Ident); ok {
			if f0, ok := t.lookup(id.Name); ok && f0.ty.K == "ptr" {
				// make sure the pointee has a name (dereference now, as Go does), then rebuild it
				d := t.deref(t.ex(id), x)
				sd := structs[d.ty.N]
				f, ok := sd.fields[x.Sel.Name]
				if !ok {
					dieT("gotolean: unknown field %s at %s", x.Sel.Name, pos(x))
				}
				return wrap(d.binds, "let "+d.term+" : "+d.ty.lean()+" := { "+d.term+" with "+f.lean+" := "+v+" }\n"+rest())
			}
		}
		base := t.ex(x.X)
		if base.ty.K == "ptr" {
			p := t.tmp("p")
			sd := structs[base.ty.E.N]
			f, ok := sd.fields[x.Sel.Name]
			if !ok {
				dieT("gotolean: unknown field %s at %s", x.Sel.Name, pos(x))
			}
			inner := t.assignPath(x.X, "(some { "+p+" with "+f.lean+" := "+v+" })", rest)
			return wrap(base.binds, "Option.bind "+base.term+" fun "+p+" =>\n"+inner)
		}
		if base.ty.K == "struct" {
			sd := structs[base.ty.N]
			f, ok := sd.fields[x.Sel.Name]
			if !ok {
				dieT("gotolean: unknown field %s at %s", x.Sel.Name, pos(x))
			}
			return wrap(base.binds, t.assignPath(x.X, "{ "+base.term+" with "+f.lean+" := "+v+" }", rest))
		}
	}
	dieT("gotolean: unsupported assignment target at %s", pos(lhs))
	return ""
}

// block translates list[i:], `fall` being the term evaluated when control reaches the end of the list.
func (t *tr) block(list []ast.Stmt, fall func() string) string {
	if len(list) == 0 {
		return fall()
	}
	rest := func() string { return t.block(list[1:], fall) }
	switch s := list[0].(type) {
	case *ast.ReturnStmt:
		var bs []bind
		var ts []string
		for i, r := range s.Results {
			v := t.ex(r)
			bs = append(bs, v.binds...)
			want := t.cur.results[i]
			if v.ty.K == "nil" {
				ts = append(ts, "none")
			} else if want.K == "ptr" && want.E.K == "str" && v.ty.K == "str" {
				ts = append(ts, "(some "+v.term+")") // a sentinel error value
			} else {
				ts = append(ts, v.term)
			}
		}
		out := ts[0]
		if len(ts) > 1 {
			out = "(" + strings.Join(ts, ", ") + ")"
		}
		return wrap(bs, "some "+out)
	case *ast.DeclStmt:
		gd := s.Decl.(*ast.GenDecl)
		var sb strings.Builder
		for _, sp := range gd.Specs {
			vs := sp.(*ast.ValueSpec)
			if len(vs.Values) > 0 {
				dieT("gotolean: var with initialiser at %s", pos(s))
			}
			ty := t.goType(vs.Type)
			for _, n := range vs.Names {
				ln := t.declare(n.Name, ty)
				fmt.Fprintf(&sb, "let %s : %s := %s\n", ln, ty.lean(), zero(ty))
			}
		}
		return sb.String() + rest()
	case *ast.AssignStmt:
		return t.assign(s, rest)
	case *ast.ExprStmt:
		c, ok := s.X.(*ast.CallExpr)
		if !ok || !t.isMutatorCall(c) {
			dieT("gotolean: unsupported expression statement at %s", pos(s))
		}
		v := t.ex(c) // Option (pointer to the mutated pointee)
		target := c.Args[0]
		if u, ok := target.(*ast.UnaryExpr); ok && u.Op == token.AND {
			// f(&x.F): the pointee is the embedded struct
			p := t.tmp("p")
			return wrap(v.binds, "Option.bind "+v.term+" fun "+p+" =>\n"+t.assignPath(u.X, p, rest))
		}
		return wrap(v.binds, t.assignPath(target, v.term, rest))
	case *ast.IfStmt:
		return t.ifStmt(s, rest)
	}
	dieT("gotolean: unsupported statement at %s", pos(list[0]))
	return ""
}

func (t *tr) assign(s *ast.AssignStmt, rest func() string) string {
	define := s.Tok == token.DEFINE
	if s.Tok != token.DEFINE && s.Tok != token.ASSIGN {
		dieT("gotolean: unsupported assignment operator at %s", pos(s))
	}
	bindName := func(l ast.Expr, ty Ty) string {
		id, ok := l.(*ast.Ident)
		if !ok {
			dieT("gotolean: unsupported multi-assignment target at %s", pos(s))
		}
		if id.Name == "_" {
			return "_"
		}
		if define {
			if _, ok := t.env[len(t.env)-1][id.Name]; !ok {
				return t.declare(id.Name, ty)
			}
		}
		f, ok := t.lookup(id.Name)
		if !ok {
			dieT("gotolean: assignment to unknown %s at %s", id.Name, pos(s))
		}
		return f.lean
	}
	if len(s.Lhs) == 2 && len(s.Rhs) == 1 {
		// v, ok := m[k]
		if ix, ok := s.Rhs[0].(*ast.IndexExpr); ok {
			m, k := t.ex(ix.X), t.ex(ix.Index)
			if m.ty.K != "smap" {
				dieT("gotolean: comma-ok on a non-map at %s", pos(s))
			}
			bs := append(append([]bind{}, m.binds...), k.binds...)
			a := bindName(s.Lhs[0], tStr())
			b := bindName(s.Lhs[1], tBool())
			return wrap(bs, "let "+a+" : String := SMap.getD "+m.term+" "+k.term+"\nlet "+b+" : Bool := SMap.contains "+m.term+" "+k.term+"\n"+rest())
		}
		c, ok := s.Rhs[0].(*ast.CallExpr)
		if !ok {
			dieT("gotolean: unsupported multi-assignment at %s", pos(s))
		}
		v := t.ex(c)
		var tys []Ty
		if fi, ok := t.fns[calleeBase(c)]; ok {
			tys = fi.results
		} else if calleeName(c) == "intstrutil.GetValueFromIntOrPercent" {
			tys = []Ty{tInt(), tPtr(tStr())}
		} else {
			dieT("gotolean: unknown result types at %s", pos(s))
		}
		a := bindName(s.Lhs[0], tys[0])
		b := bindName(s.Lhs[1], tys[1])
		return wrap(v.binds, "let ("+a+", "+b+") := "+v.term+"\n"+rest())
	}
	if len(s.Lhs) != 1 || len(s.Rhs) != 1 {
		dieT("gotolean: unsupported assignment at %s", pos(s))
	}
	v := t.ex(s.Rhs[0])
	if id, ok := s.Lhs[0].(*ast.Ident); ok {
		if v.ty.K == "nil" || v.ty.K == "tuple" {
			dieT("gotolean: untyped assignment at %s", pos(s))
		}
		var ln string
		var ty Ty
		if define {
			ty = v.ty
			ln = t.declare(id.Name, ty)
		} else {
			f, ok := t.lookup(id.Name)
			if !ok {
				dieT("gotolean: assignment to unknown %s at %s", id.Name, pos(s))
			}
			ln, ty = f.lean, f.ty
		}
		if ty.K == "ptr" {
			t.alias[len(t.alias)-1][id.Name] = ""
		}
		return wrap(v.binds, "let "+ln+" : "+ty.lean()+" := "+v.term+"\n"+rest())
	}
	term := v.term
	if v.ty.K == "nil" {
		term = "none"
	}
	return wrap(v.binds, t.assignPath(s.Lhs[0], term, rest))
}

func calleeName(c *ast.CallExpr) string {
	switch f := c.Fun.(type) {
	case *ast.Ident:
		return f.Name
	case *ast.SelectorExpr:
		if p, ok := f.X.(*ast.Ident); ok {
			return p.Name + "." + f.Sel.Name
		}
	}
	return ""
}

func calleeBase(c *ast.CallExpr) string {
	n := calleeName(c)
	if i := strings.Index(n, "."); i >= 0 {
		return n[i+1:]
	}
	return n
}

func (t *tr) ifStmt(s *ast.IfStmt, rest func() string) string {
	t.push() // scope of the init statement
	defer t.pop()
	body := func() string {
		var elseList []ast.Stmt
		hasElse := s.Else != nil
		if hasElse {
			if eb, ok := s.Else.(*ast.BlockStmt); ok {
				elseList = eb.List
			} else {
				elseList = []ast.Stmt{s.Else}
			}
		}
		c := t.ex(s.Cond)
		thenRet := alwaysReturns(s.Body.List)
		elseRet := hasElse && alwaysReturns(elseList)
		anyRet := hasReturn(s.Body) || (hasElse && hasReturn(s.Else))
		branch := func(list []ast.Stmt, fall func() string) string {
			t.push()
			defer t.pop()
			return t.block(list, fall)
		}
		unreachable := func() string { dieT("gotolean: fall through after return at %s", pos(s)); return "" }
		switch {
		case thenRet && !hasElse:
			return wrap(c.binds, "if "+c.term+" then\n"+branch(s.Body.List, unreachable)+"\nelse\n"+rest())
		case thenRet && elseRet:
			return wrap(c.binds, "if "+c.term+" then\n"+branch(s.Body.List, unreachable)+"\nelse\n"+branch(elseList, unreachable))
		case !anyRet:
			all := append(append([]ast.Stmt{}, s.Body.List...), elseList...)
			vars := t.assigned(all)
			tup, _ := t.tuple(vars)
			pat := tup
			if len(vars) == 0 {
				pat = "_"
			}
			gen := func(join func() string) (string, string) {
				th := branch(s.Body.List, join)
				el := join()
				if hasElse {
					el = branch(elseList, join)
				}
				return th, el
			}
			th, el := gen(func() string { return "some " + tup })
			if len(vars) > 0 && !strings.Contains(th, "Option.bind") && !strings.Contains(el, "Option.bind") {
				// nothing can panic inside: a plain conditional value
				th, el = gen(func() string { return tup })
				return wrap(c.binds, "let "+pat+" := if "+c.term+" then\n"+th+"\nelse\n"+el+"\n"+rest())
			}
			return wrap(c.binds, "Option.bind (if "+c.term+" then\n"+th+"\nelse\n"+el+") fun "+pat+" =>\n"+rest())
		default:
			// the body both returns and falls through: join through a local continuation
			all := append(append([]ast.Stmt{}, s.Body.List...), elseList...)
			vars := t.assigned(all)
			_, params := t.tuple(vars)
			k := t.tmp("k")
			callK := func() string {
				if len(vars) == 0 {
					return k + " ()"
				}
				var as []string
				for _, n := range vars {
					f, _ := t.lookup(n)
					if f.ty.K == "ptr" {
						as = append(as, t.aliasOf(n))
					} else {
						as = append(as, f.lean)
					}
				}
				return k + " " + strings.Join(as, " ")
			}
			th := branch(s.Body.List, callK)
			el := callK()
			if hasElse {
				el = branch(elseList, callK)
			}
			r := rest()
			return wrap(c.binds, "let "+k+" := fun "+params+" =>\n"+r+"\nif "+c.term+" then\n"+th+"\nelse\n"+el)
		}
	}
	if s.Init != nil {
		as, ok := s.Init.(*ast.AssignStmt)
		if !ok {
			dieT("gotolean: unsupported if-init at %s", pos(s))
		}
		return t.assign(as, body)
	}
	return body()
}

// ---------------------------------------------------------------------------------------------

func (t *tr) loadConsts(repo string) {
	t.consts = map[string]val{}
	files, _ := filepath.Glob(filepath.Join(repo, "api/v1alpha1/*.go"))
	for _, p := range files {
		if strings.HasSuffix(p, "_test.go") || strings.Contains(p, "zz_generated") {
			continue
		}
		f := parse(p)
		for _, d := range f.Decls {
			gd, ok := d.(*ast.GenDecl)
			if !ok || (gd.Tok != token.CONST && gd.Tok != token.VAR) {
				continue
			}
			for _, sp := range gd.Specs {
				vs := sp.(*ast.ValueSpec)
				for i, n := range vs.Names {
					if i >= len(vs.Values) {
						continue
					}
					switch v := vs.Values[i].(type) {
					case *ast.BasicLit:
						if v.Kind == token.STRING {
							s, _ := strconv.Unquote(v.Value)
							t.consts[n.Name] = pure(strconv.Quote(s), tStr())
						} else if v.Kind == token.INT {
							t.consts[n.Name] = pure(v.Value, tInt())
						}
					case *ast.Ident:
						if v.Name == "true" || v.Name == "false" {
							t.consts[n.Name] = pure(v.Name, tBool())
						}
					case *ast.BinaryExpr: // 10 * time.Second
						if v.Op == token.MUL {
							if l, ok := v.X.(*ast.BasicLit); ok && l.Kind == token.INT {
								if se, ok := v.Y.(*ast.SelectorExpr); ok {
									if p, ok := se.X.(*ast.Ident); ok && p.Name == "time" {
										unit := map[string]string{"Second": "sec", "Minute": "minute"}[se.Sel.Name]
										if unit != "" {
											t.consts[n.Name] = pure("("+l.Value+" * "+unit+")", tDur())
										}
									}
								}
							}
						}
					case *ast.CallExpr: // errors.New("…"): the sentinel's identity is its name
						if calleeName(v) == "errors.New" {
							t.consts[n.Name] = pure(strconv.Quote(n.Name), tStr())
						}
					}
				}
			}
		}
	}
}

func (t *tr) translate(fi *fnInfo) string {
	t.cur = fi
	t.env = nil
	t.alias = nil
	t.used = map[string]int{}
	t.fresh = 0
	t.push()
	var ps []string
	fi.params = nil
	for _, p := range fi.decl.Type.Params.List {
		ty := t.goType(p.Type)
		for _, n := range p.Names {
			ln := t.declare(n.Name, ty)
			fi.params = append(fi.params, field{ln, ty})
			ps = append(ps, "("+ln+" : "+ty.lean()+")")
		}
	}
	if fi.spec.ptrEq != "" {
		ps = append(ps, "("+fi.spec.ptrEq+" : Bool)")
	}
	var rts []string
	for _, r := range fi.results {
		rts = append(rts, r.lean())
	}
	rt := strings.Join(rts, " × ")
	body := t.block(fi.decl.Body.List, func() string {
		dieT("gotolean: %s can fall off its end", fi.spec.goName)
		return ""
	})
	var sb strings.Builder
	fmt.Fprintf(&sb, "/-- translated from `%s` (%s) -/\n", fi.spec.goName, fi.spec.file)
	fmt.Fprintf(&sb, "def %s %s : Option (%s) :=\n", fi.spec.leanName, strings.Join(ps, " "), rt)
	for _, l := range strings.Split(body, "\n") {
		sb.WriteString("  " + l + "\n")
	}
	return sb.String()
}

var decisionFns = []fnSpec{
	{group: "Canary", file: "controllers/extendeddaemonset/utils.go", goName: "IsRollingUpdatePaused", leanName: "isRollingUpdatePaused"},
	{group: "Canary", file: "controllers/extendeddaemonset/utils.go", goName: "IsRolloutFrozen", leanName: "isRolloutFrozen"},
	{group: "Canary", file: "controllers/extendeddaemonset/utils.go", goName: "IsCanaryDeploymentEnded", leanName: "isCanaryDeploymentEnded"},
	{group: "Canary", file: "controllers/extendeddaemonset/utils.go", goName: "IsCanaryDeploymentPaused", leanName: "isCanaryDeploymentPaused"},
	{group: "Canary", file: "controllers/extendeddaemonset/utils.go", goName: "IsCanaryDeploymentUnpaused", leanName: "isCanaryDeploymentUnpaused"},
	{group: "Canary", file: "controllers/extendeddaemonset/utils.go", goName: "IsCanaryDeploymentValid", leanName: "isCanaryDeploymentValid"},
	{group: "Canary", file: "controllers/extendeddaemonset/utils.go", goName: "IsCanaryDeploymentFailed", leanName: "isCanaryDeploymentFailed"},
	{group: "Canary", file: "controllers/extendeddaemonset/controller.go", goName: "selectCurrentReplicaSet", leanName: "selectCurrentReplicaSet", ptrEq: "samePtr"},
	{group: "Canary", file: "controllers/extendeddaemonset/controller.go", goName: "nonCanaryState", leanName: "nonCanaryState"},
	{group: "Cleanup", file: "controllers/extendeddaemonset/controller.go", goName: "shouldDeleteERS", leanName: "shouldDeleteERS"},
	{group: "Defaults", file: "api/v1alpha1/extendeddaemonset_default.go", goName: "IsDefaultedExtendedDaemonSetSpecStrategyRollingUpdate", leanName: "isDefaultedRollingUpdate"},
	{group: "Defaults", file: "api/v1alpha1/extendeddaemonset_default.go", goName: "IsDefaultedExtendedDaemonSetSpecStrategyCanary", leanName: "isDefaultedCanary"},
	{group: "Defaults", file: "api/v1alpha1/extendeddaemonset_default.go", goName: "IsDefaultedExtendedDaemonSet", leanName: "isDefaultedExtendedDaemonSet"},
	{group: "Defaults", file: "api/v1alpha1/extendeddaemonset_default.go", goName: "DefaultExtendedDaemonSetSpecStrategyCanaryAutoPause", leanName: "defaultAutoPause"},
	{group: "Defaults", file: "api/v1alpha1/extendeddaemonset_default.go", goName: "DefaultExtendedDaemonSetSpecStrategyCanaryAutoFail", leanName: "defaultAutoFail"},
	{group: "Defaults", file: "api/v1alpha1/extendeddaemonset_default.go", goName: "DefaultExtendedDaemonSetSpecStrategyCanary", leanName: "defaultCanary"},
	{group: "Defaults", file: "api/v1alpha1/extendeddaemonset_default.go", goName: "DefaultExtendedDaemonSetSpecStrategyRollingUpdate", leanName: "defaultRollingUpdate"},
	{group: "Defaults", file: "api/v1alpha1/extendeddaemonset_default.go", goName: "DefaultExtendedDaemonSetSpec", leanName: "defaultSpec"},
	{group: "Defaults", file: "api/v1alpha1/extendeddaemonset_default.go", goName: "DefaultExtendedDaemonSet", leanName: "defaultExtendedDaemonSet"},
	{group: "Defaults", file: "api/v1alpha1/extendeddaemonset_validate.go", goName: "ValidateExtendedDaemonSetSpec", leanName: "validateSpec"},
	{group: "SlowStart", file: "controllers/extendeddaemonsetreplicaset/strategy/rollingupdate.go", goName: "getRollingUpdateStartTime", leanName: "getRollingUpdateStartTime"},
	{group: "SlowStart", file: "controllers/extendeddaemonsetreplicaset/strategy/rollingupdate.go", goName: "calculateMaxCreation", leanName: "calculateMaxCreation"},
}

var decisionGroups = []string{"Canary", "Cleanup", "Defaults", "SlowStart"}

// genDecisions returns, per group, the content of EdsModel/Generated/Dec<group>.lean.  A group
// the translator cannot express yields a file that does not compile (and says why), so that only
// the proof modules that depend on this group break.
func genDecisions(repo string) map[string]string {
	out := map[string]string{}
	for _, g := range decisionGroups {
		out[g] = genDecisionGroup(repo, g)
	}
	return out
}

func genDecisionGroup(repo, group string) (content string) {
	header := "import EdsModel.GoPrelude\n" +
		"/- GENERATED by tools/extract (gotolean.go) from the Go sources under /repo — do not edit.\n" +
		"   `none` = the Go function panics (nil dereference, index out of range, division by zero). -/\n" +
		"set_option linter.unusedVariables false\nnamespace Eds.Generated.Decisions\nopen Eds\n\n"
	defer func() {
		if r := recover(); r != nil {
			e, ok := r.(trErr)
			if !ok {
				panic(r)
			}
			fmt.Fprintf(os.Stderr, "extract: group %s not translated: %s\n", group, string(e))
			content = header + "/- TRANSLATION FAILED: " + strings.ReplaceAll(string(e), "-/", "- /") + " -/\n" +
				"#check (translation_of_group_" + group + "_failed : Nat)\n\nend Eds.Generated.Decisions\n"
		}
	}()
	initTables()
	t := &tr{fns: map[string]*fnInfo{}}
	t.loadConsts(repo)
	parsed := map[string]*ast.File{}
	var order []*fnInfo
	for _, sp := range decisionFns {
		if sp.group != group {
			continue
		}
		f, ok := parsed[sp.file]
		if !ok {
			f = parse(filepath.Join(repo, sp.file))
			parsed[sp.file] = f
		}
		var decl *ast.FuncDecl
		for _, d := range f.Decls {
			if fd, ok := d.(*ast.FuncDecl); ok && fd.Recv == nil && fd.Name.Name == sp.goName {
				decl = fd
			}
		}
		if decl == nil {
			dieT("gotolean: function %s not found in %s", sp.goName, sp.file)
		}
		fi := &fnInfo{spec: sp, decl: decl}
		if decl.Type.Results != nil {
			for _, r := range decl.Type.Results.List {
				n := len(r.Names)
				if n == 0 {
					n = 1
				}
				for i := 0; i < n; i++ {
					fi.results = append(fi.results, t.goType(r.Type))
				}
			}
		}
		// mutator: pointer first parameter, single pointer result, last statement `return <param0>`
		if len(fi.results) == 1 && fi.results[0].K == "ptr" && len(decl.Type.Params.List) > 0 && len(decl.Body.List) > 0 {
			if _, ok := decl.Type.Params.List[0].Type.(*ast.StarExpr); ok {
				p0 := decl.Type.Params.List[0].Names[0].Name
				if rs, ok := decl.Body.List[len(decl.Body.List)-1].(*ast.ReturnStmt); ok && len(rs.Results) == 1 {
					if id, ok := rs.Results[0].(*ast.Ident); ok && id.Name == p0 {
						fi.mutator = true
					}
				}
			}
		}
		t.fns[sp.goName] = fi
		order = append(order, fi)
	}
	var sb strings.Builder
	sb.WriteString(header)
	for _, fi := range order {
		sb.WriteString(t.translate(fi))
		sb.WriteString("\n")
	}
	sb.WriteString("end Eds.Generated.Decisions\n")
	return sb.String()
}
