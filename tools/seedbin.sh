#!/bin/sh
# usage: seedbin.sh <seed-id> <stream> [n] [seed]  — builds the harness against /repo with seeded/<id>/patch.diff
# applied (undone at once), runs one stream through the driver and summarises DIFF / SPEC tokens.
# Quick local probe while strengthening a check; the registered checks are ./check.
id="$1"; stream="$2"; n="${3:-1500}"; sd="${4:-1}"
cd /repo || exit 2
if ! git diff --quiet; then echo "/repo has local changes"; exit 2; fi
git apply /verif/seeded/$id/patch.diff || exit 2
(cd /verif/harness && GOFLAGS=-mod=mod GOPROXY=off GOSUMDB=off GOTOOLCHAIN=local GOCACHE=/verif/.build/gocache go build -tags verif -o /tmp/h-$id .)
rc=$?
git -C /repo checkout -- . ; git -C /repo clean -fdq -- controllers pkg api cmd 2>/dev/null
[ $rc = 0 ] || exit 2
/tmp/h-$id stream "$stream" -seed "$sd" -n "$n" -tier quick > /tmp/h-$id.jsonl
/verif/lean/.lake/build/bin/driver < /tmp/h-$id.jsonl > /tmp/h-$id.out 2>/dev/null
echo "cases $(wc -l < /tmp/h-$id.jsonl), not ok: $(grep -vc ' ok$' /tmp/h-$id.out)"
grep -o "SPEC [A-Za-z0-9.()_,: -]*\|DIFF [A-Za-z0-9.()_-]*" /tmp/h-$id.out | sort | uniq -c | sort -rn | head -20
