#!/usr/bin/env python3
"""mkseedtasks.py <root> <Cxx> [<Cxx> ...] — prepares, for each property, a scratch git worktree of /repo under <root>/<Cxx>
and a TASK.md for a fresh sub-agent: the property text, the rules (compiles, suite passes, needs something specific to
manifest, demonstration), and one-line summaries of the changes already stored for that property ("yours must differ in
kind").  Nothing from /verif but those summaries of CODE CHANGES goes into the task."""
import glob, json, os, subprocess, sys
root, ids = sys.argv[1], sys.argv[2:]
prev = {}
for d in sorted(glob.glob('/verif/seeded/C*')):
    m = os.path.join(d, 'meta.json')
    if os.path.exists(m):
        j = json.load(open(m))
        prev.setdefault(j['breaks'].split()[0], []).append(j.get('summary', ''))
props = {}
for l in open('/verif/properties.jsonl'):
    d = json.loads(l)
    props[d['id']] = d
for pid in ids:
    d = props[pid]
    w = f'{root}/{pid}'
    if not os.path.exists(w):
        subprocess.run(['git', '-C', '/repo', 'worktree', 'add', '-q', '--detach', w, 'HEAD'], check=True)
    os.makedirs(w + '/_seed', exist_ok=True)
    prevtxt = '\n'.join('- ' + s for s in prev.get(pid, []))
    open(w + '/TASK.md', 'w').write(f'''# Task: seed one realistic defect into DataDog/extendeddaemonset that breaks ONE stated property

You work ONLY inside this git worktree: {w}  (a scratch checkout of the repository; Go module with a go.work
covering `.` and `./api`). Do not read or write anything under /verif, /root/.vp or /repo. No network: for every
go command use `export GOPROXY=off GOSUMDB=off GOTOOLCHAIN=local` (do NOT set GOFLAGS=-mod=mod: the workspace
rejects it). `go build ./... && (cd api && go build ./...)` builds; tests: `go test -vet=off -count=1 ./api/... ./pkg/...
./controllers/extendeddaemonset/... ./controllers/extendeddaemonsetreplicaset/... ./controllers/extendeddaemonsetsetting/...
./controllers/podtemplate/... ./cmd/...` and `(cd api && go test -vet=off -count=1 ./...)` (the envtest suite `./controllers`
TestAPIs needs an etcd binary that is absent: it fails on the original code too and is not part of the offline suite).

## The property (this text is all you are given about what must hold)

id: {pid}
title: {d['title']}

statement: {d['statement']}

quantifier: {d['quantifier']['text']}

why the existing tests cannot settle it: {d['why_tests_cant']}

code anchors: {json.dumps(d['anchors'].get('files'))}
mechanisms: {json.dumps(d['anchors'].get('mechanism'))}

## What to produce

A change to the repository's non-test Go code (one or two files, the kind of change a developer could plausibly make:
a refactoring slip, an "optimisation", a robustness "improvement", a mis-ordered statement, a wrong variable, a cache,
a lost guard on an unusual path, ...) such that

1. the repository still compiles (both modules) and the existing test suite (commands above) still passes, unedited;
2. the property above is violated by the changed code but NOT by the original code;
3. the violation needs something specific to manifest — a particular interleaving of reconciles, an API failure or
   crash at a particular point, a multi-step sequence of operations, an unusual but legal input, state carried from one
   reconcile to the next, or two cooperating code sites that each look fine alone. Not something ordinary use or a
   trivial call would expose at once, and not a change that merely deletes the feature. Prefer clauses of the property
   and code sites that the earlier changes listed below did NOT use — yours must differ in kind from every one of them:

{prevtxt}

   Do NOT use yet another in-memory cache / memo / remembered copy, and not another fall-back after a failed read: both
   kinds are covered above. Rarely tried so far: an off-by-one or wrong comparison operator on a boundary that only
   matters for particular counts; integer / percentage arithmetic (rounding, zero, values above 100%); a condition list
   or label map handled by index or by first match where order matters; time zones / zero times / equal timestamps;
   terminating, Pending, Succeeded or Failed pods in a role where they are unusual; an object that is being deleted
   (deletionTimestamp set) but still listed; several containers / init containers; the interplay of two features
   (settings + canary, migration + pause, node churn during a canary, freeze + new nodes).

4. a demonstration: a Go test file (package-internal test is fine, using the controller-runtime fake client as the
   repository's own tests do) that PASSES on the original code and FAILS with your change, asserting the property's
   own wording (not an implementation detail).

Write into {w}/_seed/ :
- `patch.diff`  — `git diff` of your change only (no test file in it), applicable with `git apply` on a clean checkout;
- the demo test file (name it `*_seed_test.go`), plus in README.md: the package directory it must be copied to and
  the `-run` regex;
- `README.md` — what the change is, which clause of the property it breaks, what it needs in order to manifest,
  and the exact commands you ran with their results (demo on original: pass; demo with change: fail; build; full suite
  with change: pass).

Before finishing: restore the worktree (`git checkout -- .`, remove the demo copy from the package directory) so that only
`_seed/` remains as an untracked directory; verify `git apply --check _seed/patch.diff` succeeds on the clean tree.
Never use `git stash` (the stash is shared with other worktrees): undo with `git apply -R` or `git checkout -- .`.
Keep it minimal and realistic. Do not touch test files of the repository. Reply with a 5-line summary.
''')
    print(w)
